/*!
Model values: one generated tree yields an `emit::Value` through any capture mode and an
independently computed expectation.

* [`ModelValue`] – a tree over the serde / sval data models with hand-written
  `serde::Serialize`, `sval::Value`, `Display` and `Debug` impls that mirror what the derives /
  std impls of both frameworks do for the corresponding Rust types.
* [`gen_value`] and friends – seeded, depth / size bounded generators, primitives at their extremes.
* [`ModelValue::json_image`] – what a JSON serializer must produce for the original, computed
  from the tree (not through serde or sval); compared with [`parse_json`] output by
  [`JsonImage::matches`]. Numbers are compared by meaning (decimal digits for integers,
  bit-exact parse for floats), so no float formatting algorithm is duplicated here.
* [`ModelValue::any_image`] – the OTLP `AnyValue` image per the calibration in DESIGN.md (C13).
*/

use std::fmt;

use crate::Rng;

// ---------------------------------------------------------------------------
// the tree
// ---------------------------------------------------------------------------

/// An error with a chain of sources: `msgs[0]` is the outermost message.
#[derive(Clone, PartialEq)]
pub struct ModelError {
    pub msg: String,
    pub source: Option<Box<ModelError>>,
}

impl ModelError {
    pub fn chain(msgs: &[String]) -> ModelError {
        let mut it = msgs.iter().rev();
        let mut cur = ModelError { msg: it.next().cloned().unwrap_or_default(), source: None };
        for m in it {
            cur = ModelError { msg: m.clone(), source: Some(Box::new(cur)) };
        }
        cur
    }

    pub fn messages(&self) -> Vec<String> {
        let mut v = vec![self.msg.clone()];
        let mut cur = &self.source;
        while let Some(s) = cur {
            v.push(s.msg.clone());
            cur = &s.source;
        }
        v
    }
}

impl fmt::Display for ModelError {
    fn fmt(&self, f: &mut fmt::Formatter) -> fmt::Result {
        f.write_str(&self.msg)
    }
}

impl fmt::Debug for ModelError {
    fn fmt(&self, f: &mut fmt::Formatter) -> fmt::Result {
        f.debug_struct("ModelError").field("msg", &self.msg).field("source", &self.source).finish()
    }
}

impl std::error::Error for ModelError {
    fn source(&self) -> Option<&(dyn std::error::Error + 'static)> {
        self.source.as_ref().map(|s| &**s as &(dyn std::error::Error + 'static))
    }
}

#[derive(Clone, PartialEq)]
pub enum ModelValue {
    Unit,
    Bool(bool),
    I8(i8),
    I16(i16),
    I32(i32),
    I64(i64),
    I128(i128),
    Isize(isize),
    U8(u8),
    U16(u16),
    U32(u32),
    U64(u64),
    U128(u128),
    Usize(usize),
    F32(f32),
    F64(f64),
    Char(char),
    Str(String),
    Bytes(Vec<u8>),
    None,
    Some(Box<ModelValue>),
    Seq(Vec<ModelValue>),
    Tuple(Vec<ModelValue>),
    Map(Vec<(ModelValue, ModelValue)>),
    UnitStruct(&'static str),
    NewtypeStruct(&'static str, Box<ModelValue>),
    TupleStruct(&'static str, Vec<ModelValue>),
    Struct(&'static str, Vec<(&'static str, ModelValue)>),
    /// (enum name, variant index, variant name)
    UnitVariant(&'static str, u32, &'static str),
    NewtypeVariant(&'static str, u32, &'static str, Box<ModelValue>),
    TupleVariant(&'static str, u32, &'static str, Vec<ModelValue>),
    StructVariant(&'static str, u32, &'static str, Vec<(&'static str, ModelValue)>),
    /// Only generated at the top level of a property (captured with `as_error` / as `err`).
    /// As data it is its outermost message.
    Error(ModelError),
}

use ModelValue as M;

pub const TYPE_NAMES: &[&str] = &["Alpha", "Beta", "Gamma", "Point", "Wrapper", "Reading", "Unit"];
pub const ENUM_NAMES: &[&str] = &["Kind", "Shape", "State"];
pub const VARIANT_NAMES: &[&str] = &["First", "Second", "Third", "Other"];
pub const FIELD_NAMES: &[&str] = &["a", "b", "c", "id", "name", "value", "items", "nested", "x_1", "_z"];

// ---------------------------------------------------------------------------
// serde
// ---------------------------------------------------------------------------

impl serde::Serialize for ModelValue {
    fn serialize<S: serde::Serializer>(&self, s: S) -> Result<S::Ok, S::Error> {
        use serde::ser::{
            SerializeMap, SerializeSeq, SerializeStruct, SerializeStructVariant, SerializeTuple, SerializeTupleStruct,
            SerializeTupleVariant,
        };
        match self {
            M::Unit => s.serialize_unit(),
            M::Bool(v) => s.serialize_bool(*v),
            M::I8(v) => s.serialize_i8(*v),
            M::I16(v) => s.serialize_i16(*v),
            M::I32(v) => s.serialize_i32(*v),
            M::I64(v) => s.serialize_i64(*v),
            M::I128(v) => s.serialize_i128(*v),
            M::Isize(v) => s.serialize_i64(*v as i64),
            M::U8(v) => s.serialize_u8(*v),
            M::U16(v) => s.serialize_u16(*v),
            M::U32(v) => s.serialize_u32(*v),
            M::U64(v) => s.serialize_u64(*v),
            M::U128(v) => s.serialize_u128(*v),
            M::Usize(v) => s.serialize_u64(*v as u64),
            M::F32(v) => s.serialize_f32(*v),
            M::F64(v) => s.serialize_f64(*v),
            M::Char(v) => s.serialize_char(*v),
            M::Str(v) => s.serialize_str(v),
            M::Bytes(v) => s.serialize_bytes(v),
            M::None => s.serialize_none(),
            M::Some(v) => s.serialize_some(&**v),
            M::Seq(v) => {
                let mut q = s.serialize_seq(Some(v.len()))?;
                for e in v {
                    q.serialize_element(e)?;
                }
                q.end()
            }
            M::Tuple(v) => {
                let mut q = s.serialize_tuple(v.len())?;
                for e in v {
                    q.serialize_element(e)?;
                }
                q.end()
            }
            M::Map(v) => {
                let mut q = s.serialize_map(Some(v.len()))?;
                for (k, e) in v {
                    q.serialize_entry(k, e)?;
                }
                q.end()
            }
            M::UnitStruct(n) => s.serialize_unit_struct(n),
            M::NewtypeStruct(n, v) => s.serialize_newtype_struct(n, &**v),
            M::TupleStruct(n, v) => {
                let mut q = s.serialize_tuple_struct(n, v.len())?;
                for e in v {
                    q.serialize_field(e)?;
                }
                q.end()
            }
            M::Struct(n, v) => {
                let mut q = s.serialize_struct(n, v.len())?;
                for (k, e) in v {
                    q.serialize_field(k, e)?;
                }
                q.end()
            }
            M::UnitVariant(n, i, vn) => s.serialize_unit_variant(n, *i, vn),
            M::NewtypeVariant(n, i, vn, v) => s.serialize_newtype_variant(n, *i, vn, &**v),
            M::TupleVariant(n, i, vn, v) => {
                let mut q = s.serialize_tuple_variant(n, *i, vn, v.len())?;
                for e in v {
                    q.serialize_field(e)?;
                }
                q.end()
            }
            M::StructVariant(n, i, vn, v) => {
                let mut q = s.serialize_struct_variant(n, *i, vn, v.len())?;
                for (k, e) in v {
                    q.serialize_field(k, e)?;
                }
                q.end()
            }
            M::Error(e) => s.collect_str(e),
        }
    }
}

// ---------------------------------------------------------------------------
// sval (mirrors sval's std impls and what sval_derive generates)
// ---------------------------------------------------------------------------

fn ident(s: &'static str) -> sval::Label<'static> {
    sval::Label::new(s).with_tag(&sval::tags::VALUE_IDENT)
}

fn offset(i: usize) -> sval::Index {
    sval::Index::new(i).with_tag(&sval::tags::VALUE_OFFSET)
}

fn stream_record<'sval, S: sval::Stream<'sval> + ?Sized>(
    stream: &mut S,
    label: &sval::Label,
    index: Option<&sval::Index>,
    fields: &'sval [(&'static str, ModelValue)],
) -> sval::Result {
    stream.record_tuple_begin(None, Some(label), index, Some(fields.len()))?;
    for (i, (k, v)) in fields.iter().enumerate() {
        let l = ident(k);
        let ix = offset(i);
        stream.record_tuple_value_begin(None, &l, &ix)?;
        stream.value(v)?;
        stream.record_tuple_value_end(None, &l, &ix)?;
    }
    stream.record_tuple_end(None, Some(label), index)
}

fn stream_tuple<'sval, S: sval::Stream<'sval> + ?Sized>(
    stream: &mut S,
    label: Option<&sval::Label>,
    index: Option<&sval::Index>,
    fields: &'sval [ModelValue],
) -> sval::Result {
    stream.tuple_begin(None, label, index, Some(fields.len()))?;
    for (i, v) in fields.iter().enumerate() {
        let ix = offset(i);
        stream.tuple_value_begin(None, &ix)?;
        stream.value(v)?;
        stream.tuple_value_end(None, &ix)?;
    }
    stream.tuple_end(None, label, index)
}

impl sval::Value for ModelValue {
    fn stream<'sval, S: sval::Stream<'sval> + ?Sized>(&'sval self, stream: &mut S) -> sval::Result {
        match self {
            M::Unit => stream.tag(Some(&sval::tags::RUST_UNIT), None, None),
            M::Bool(v) => stream.bool(*v),
            M::I8(v) => stream.i8(*v),
            M::I16(v) => stream.i16(*v),
            M::I32(v) => stream.i32(*v),
            M::I64(v) => stream.i64(*v),
            M::I128(v) => stream.i128(*v),
            M::Isize(v) => stream.i64(*v as i64),
            M::U8(v) => stream.u8(*v),
            M::U16(v) => stream.u16(*v),
            M::U32(v) => stream.u32(*v),
            M::U64(v) => stream.u64(*v),
            M::U128(v) => stream.u128(*v),
            M::Usize(v) => stream.u64(*v as u64),
            M::F32(v) => stream.f32(*v),
            M::F64(v) => stream.f64(*v),
            M::Char(v) => stream.value_computed(v),
            M::Str(v) => stream.value(v.as_str()),
            M::Bytes(v) => stream.value(sval::BinarySlice::new(v)),
            M::None => stream.tag(
                Some(&sval::tags::RUST_OPTION_NONE),
                Some(&ident("None")),
                Some(&offset(0)),
            ),
            M::Some(v) => {
                let (l, i) = (ident("Some"), offset(1));
                stream.tagged_begin(Some(&sval::tags::RUST_OPTION_SOME), Some(&l), Some(&i))?;
                stream.value(&**v)?;
                stream.tagged_end(Some(&sval::tags::RUST_OPTION_SOME), Some(&l), Some(&i))
            }
            M::Seq(v) => {
                stream.seq_begin(Some(v.len()))?;
                for e in v {
                    stream.seq_value_begin()?;
                    stream.value(e)?;
                    stream.seq_value_end()?;
                }
                stream.seq_end()
            }
            M::Tuple(v) => stream_tuple(stream, None, None, v),
            M::Map(v) => {
                stream.map_begin(Some(v.len()))?;
                for (k, e) in v {
                    stream.map_key_begin()?;
                    stream.value(k)?;
                    stream.map_key_end()?;
                    stream.map_value_begin()?;
                    stream.value(e)?;
                    stream.map_value_end()?;
                }
                stream.map_end()
            }
            M::UnitStruct(n) => stream.tag(None, Some(&ident(n)), None),
            M::NewtypeStruct(n, v) => {
                let l = ident(n);
                stream.tagged_begin(None, Some(&l), None)?;
                stream.value(&**v)?;
                stream.tagged_end(None, Some(&l), None)
            }
            M::TupleStruct(n, v) => stream_tuple(stream, Some(&ident(n)), None, v),
            M::Struct(n, v) => stream_record(stream, &ident(n), None, v),
            M::UnitVariant(n, i, vn) => {
                let l = ident(n);
                stream.enum_begin(None, Some(&l), None)?;
                stream.tag(None, Some(&ident(vn)), Some(&offset(*i as usize)))?;
                stream.enum_end(None, Some(&l), None)
            }
            M::NewtypeVariant(n, i, vn, v) => {
                let l = ident(n);
                let (vl, vi) = (ident(vn), offset(*i as usize));
                stream.enum_begin(None, Some(&l), None)?;
                stream.tagged_begin(None, Some(&vl), Some(&vi))?;
                stream.value(&**v)?;
                stream.tagged_end(None, Some(&vl), Some(&vi))?;
                stream.enum_end(None, Some(&l), None)
            }
            M::TupleVariant(n, i, vn, v) => {
                let l = ident(n);
                stream.enum_begin(None, Some(&l), None)?;
                stream_tuple(stream, Some(&ident(vn)), Some(&offset(*i as usize)), v)?;
                stream.enum_end(None, Some(&l), None)
            }
            M::StructVariant(n, i, vn, v) => {
                let l = ident(n);
                stream.enum_begin(None, Some(&l), None)?;
                stream_record(stream, &ident(vn), Some(&offset(*i as usize)), v)?;
                stream.enum_end(None, Some(&l), None)
            }
            M::Error(e) => sval::stream_display(stream, e),
        }
    }
}

// ---------------------------------------------------------------------------
// Display / Debug of the original
// ---------------------------------------------------------------------------

impl fmt::Debug for ModelValue {
    fn fmt(&self, f: &mut fmt::Formatter) -> fmt::Result {
        match self {
            M::Unit => f.write_str("()"),
            M::Bool(v) => fmt::Debug::fmt(v, f),
            M::I8(v) => fmt::Debug::fmt(v, f),
            M::I16(v) => fmt::Debug::fmt(v, f),
            M::I32(v) => fmt::Debug::fmt(v, f),
            M::I64(v) => fmt::Debug::fmt(v, f),
            M::I128(v) => fmt::Debug::fmt(v, f),
            M::Isize(v) => fmt::Debug::fmt(v, f),
            M::U8(v) => fmt::Debug::fmt(v, f),
            M::U16(v) => fmt::Debug::fmt(v, f),
            M::U32(v) => fmt::Debug::fmt(v, f),
            M::U64(v) => fmt::Debug::fmt(v, f),
            M::U128(v) => fmt::Debug::fmt(v, f),
            M::Usize(v) => fmt::Debug::fmt(v, f),
            M::F32(v) => fmt::Debug::fmt(v, f),
            M::F64(v) => fmt::Debug::fmt(v, f),
            M::Char(v) => fmt::Debug::fmt(v, f),
            M::Str(v) => fmt::Debug::fmt(v, f),
            M::Bytes(v) => fmt::Debug::fmt(v, f),
            M::None => f.write_str("None"),
            M::Some(v) => f.debug_tuple("Some").field(v).finish(),
            M::Seq(v) => f.debug_list().entries(v).finish(),
            M::Tuple(v) => {
                let mut t = f.debug_tuple("");
                for e in v {
                    t.field(e);
                }
                t.finish()
            }
            M::Map(v) => f.debug_map().entries(v.iter().map(|(k, e)| (k, e))).finish(),
            M::UnitStruct(n) => f.write_str(n),
            M::NewtypeStruct(n, v) => f.debug_tuple(n).field(v).finish(),
            M::TupleStruct(n, v) | M::TupleVariant(_, _, n, v) => {
                let mut t = f.debug_tuple(n);
                for e in v {
                    t.field(e);
                }
                t.finish()
            }
            M::Struct(n, v) | M::StructVariant(_, _, n, v) => {
                let mut t = f.debug_struct(n);
                for (k, e) in v {
                    t.field(k, e);
                }
                t.finish()
            }
            M::UnitVariant(_, _, vn) => f.write_str(vn),
            M::NewtypeVariant(_, _, vn, v) => f.debug_tuple(vn).field(v).finish(),
            M::Error(e) => fmt::Debug::fmt(e, f),
        }
    }
}

impl fmt::Display for ModelValue {
    fn fmt(&self, f: &mut fmt::Formatter) -> fmt::Result {
        match self {
            M::Bool(v) => fmt::Display::fmt(v, f),
            M::I8(v) => fmt::Display::fmt(v, f),
            M::I16(v) => fmt::Display::fmt(v, f),
            M::I32(v) => fmt::Display::fmt(v, f),
            M::I64(v) => fmt::Display::fmt(v, f),
            M::I128(v) => fmt::Display::fmt(v, f),
            M::Isize(v) => fmt::Display::fmt(v, f),
            M::U8(v) => fmt::Display::fmt(v, f),
            M::U16(v) => fmt::Display::fmt(v, f),
            M::U32(v) => fmt::Display::fmt(v, f),
            M::U64(v) => fmt::Display::fmt(v, f),
            M::U128(v) => fmt::Display::fmt(v, f),
            M::Usize(v) => fmt::Display::fmt(v, f),
            M::F32(v) => fmt::Display::fmt(v, f),
            M::F64(v) => fmt::Display::fmt(v, f),
            M::Char(v) => fmt::Display::fmt(v, f),
            M::Str(v) => fmt::Display::fmt(v, f),
            M::Error(e) => fmt::Display::fmt(e, f),
            // a user type whose Display is a bracketed form of its Debug
            other => write!(f, "<{:?}>", other),
        }
    }
}

// ---------------------------------------------------------------------------
// classification helpers
// ---------------------------------------------------------------------------

impl ModelValue {
    /// Coarse shape class of the top of the tree (evidence, signatures).
    pub fn shape(&self) -> &'static str {
        match self {
            M::Unit => "unit",
            M::Bool(_) => "bool",
            M::I8(_) => "i8",
            M::I16(_) => "i16",
            M::I32(_) => "i32",
            M::I64(_) => "i64",
            M::I128(_) => "i128",
            M::Isize(_) => "isize",
            M::U8(_) => "u8",
            M::U16(_) => "u16",
            M::U32(_) => "u32",
            M::U64(_) => "u64",
            M::U128(_) => "u128",
            M::Usize(_) => "usize",
            M::F32(_) => "f32",
            M::F64(_) => "f64",
            M::Char(_) => "char",
            M::Str(_) => "str",
            M::Bytes(_) => "bytes",
            M::None => "none",
            M::Some(_) => "some",
            M::Seq(_) => "seq",
            M::Tuple(_) => "tuple",
            M::Map(_) => "map",
            M::UnitStruct(_) => "unit-struct",
            M::NewtypeStruct(..) => "newtype-struct",
            M::TupleStruct(..) => "tuple-struct",
            M::Struct(..) => "struct",
            M::UnitVariant(..) => "unit-variant",
            M::NewtypeVariant(..) => "newtype-variant",
            M::TupleVariant(..) => "tuple-variant",
            M::StructVariant(..) => "struct-variant",
            M::Error(_) => "error",
        }
    }

    pub fn is_primitive(&self) -> bool {
        !matches!(self.shape(), "none" | "some" | "seq" | "tuple" | "map" | "bytes" | "unit-struct" | "newtype-struct"
            | "tuple-struct" | "struct" | "unit-variant" | "newtype-variant" | "tuple-variant" | "struct-variant" | "error" | "unit")
    }

    pub fn children(&self) -> Vec<&ModelValue> {
        match self {
            M::Some(v) | M::NewtypeStruct(_, v) | M::NewtypeVariant(_, _, _, v) => vec![&**v],
            M::Seq(v) | M::Tuple(v) | M::TupleStruct(_, v) | M::TupleVariant(_, _, _, v) => v.iter().collect(),
            M::Map(v) => v.iter().flat_map(|(k, e)| [k, e]).collect(),
            M::Struct(_, v) | M::StructVariant(_, _, _, v) => v.iter().map(|(_, e)| e).collect(),
            _ => Vec::new(),
        }
    }

    /// Visit every node (pre-order).
    pub fn walk<'a>(&'a self, f: &mut dyn FnMut(&'a ModelValue)) {
        f(self);
        for c in self.children() {
            c.walk(f);
        }
    }

    pub fn any(&self, p: &dyn Fn(&ModelValue) -> bool) -> bool {
        let mut hit = false;
        self.walk(&mut |v| hit |= p(v));
        hit
    }

    pub fn nodes(&self) -> usize {
        let mut n = 0;
        self.walk(&mut |_| n += 1);
        n
    }

    /// Shape of a value used as a map key, as named in the C13 signatures.
    pub fn key_shape(&self) -> &'static str {
        match self {
            M::Str(_) => "str",
            M::Char(_) => "char",
            M::Bool(_) => "bool",
            M::F32(_) | M::F64(_) => "float",
            M::I8(_) | M::I16(_) | M::I32(_) | M::I64(_) | M::Isize(_) | M::U8(_) | M::U16(_) | M::U32(_) | M::Usize(_) => "int",
            M::U64(v) => {
                if *v <= i64::MAX as u64 {
                    "int"
                } else {
                    "bigint"
                }
            }
            M::I128(v) => {
                if i64::try_from(*v).is_ok() {
                    "int"
                } else {
                    "bigint"
                }
            }
            M::U128(v) => {
                if i64::try_from(*v).is_ok() {
                    "int"
                } else {
                    "bigint"
                }
            }
            M::Bytes(_) => "bytes",
            M::Seq(_) => "seq",
            M::Tuple(_) | M::TupleStruct(..) => "tuple",
            M::Map(_) => "map",
            M::Struct(..) => "struct",
            M::UnitVariant(..) => "unit-variant",
            M::NewtypeVariant(..) => "newtype-variant",
            M::TupleVariant(..) => "tuple-variant",
            M::StructVariant(..) => "struct-variant",
            M::UnitStruct(_) => "unit-struct",
            M::NewtypeStruct(_, v) => v.key_shape(),
            M::None => "none",
            M::Some(_) => "some",
            M::Unit => "unit",
            M::Error(_) => "error",
        }
    }

    /// Key shapes of every map in the tree (deduplicated, in first-seen order).
    pub fn map_key_shapes(&self) -> Vec<&'static str> {
        let mut out: Vec<&'static str> = Vec::new();
        self.walk(&mut |v| {
            if let M::Map(es) = v {
                for (k, _) in es {
                    let s = k.key_shape();
                    if !out.contains(&s) {
                        out.push(s);
                    }
                }
            }
        });
        out
    }

    /// Integer value, if this is an integer of any width.
    pub fn as_int(&self) -> Option<Result<i128, u128>> {
        Some(match self {
            M::I8(v) => Ok(*v as i128),
            M::I16(v) => Ok(*v as i128),
            M::I32(v) => Ok(*v as i128),
            M::I64(v) => Ok(*v as i128),
            M::I128(v) => Ok(*v),
            M::Isize(v) => Ok(*v as i128),
            M::U8(v) => Ok(*v as i128),
            M::U16(v) => Ok(*v as i128),
            M::U32(v) => Ok(*v as i128),
            M::U64(v) => Ok(*v as i128),
            M::Usize(v) => Ok(*v as i128),
            M::U128(v) => match i128::try_from(*v) {
                Ok(i) => Ok(i),
                Err(_) => Err(*v),
            },
            _ => return None,
        })
    }

    pub fn int_text(&self) -> Option<String> {
        self.as_int().map(|r| match r {
            Ok(i) => i.to_string(),
            Err(u) => u.to_string(),
        })
    }

    /// Short description for replay cases.
    pub fn describe(&self) -> String {
        let s = format!("{:?}", self);
        if s.len() > 600 {
            let mut cut = 600;
            while !s.is_char_boundary(cut) {
                cut -= 1;
            }
            format!("{}… ({} bytes)", &s[..cut], s.len())
        } else {
            s
        }
    }
}

// ---------------------------------------------------------------------------
// JSON image
// ---------------------------------------------------------------------------

#[derive(Clone, Copy, Debug, PartialEq, Eq)]
pub enum Framework {
    Serde,
    Sval,
}

#[derive(Clone, Debug, PartialEq)]
pub enum KeyImage {
    Text(String),
    F32(f32),
    F64(f64),
}

/// What a JSON serializer must write for a value.
#[derive(Clone, Debug, PartialEq)]
pub enum JsonImage {
    Null,
    Bool(bool),
    /// decimal digits (with sign)
    Int(String),
    F32(f32),
    F64(f64),
    Str(String),
    Arr(Vec<JsonImage>),
    Obj(Vec<(KeyImage, JsonImage)>),
}

impl ModelValue {
    /// `Err(reason)` when JSON cannot express the value (`reason` = `map-key:<shape>`).
    /// Serde and sval legitimately differ on unit structs (`null` vs the name), hence `fw`.
    pub fn json_image(&self, fw: Framework) -> Result<JsonImage, String> {
        use JsonImage as J;
        let seq = |v: &Vec<ModelValue>| v.iter().map(|e| e.json_image(fw)).collect::<Result<Vec<_>, _>>().map(J::Arr);
        let rec = |v: &Vec<(&'static str, ModelValue)>| {
            v.iter()
                .map(|(k, e)| e.json_image(fw).map(|e| (KeyImage::Text(k.to_string()), e)))
                .collect::<Result<Vec<_>, _>>()
                .map(J::Obj)
        };
        let variant = |name: &str, inner: JsonImage| J::Obj(vec![(KeyImage::Text(name.to_string()), inner)]);
        Ok(match self {
            M::Unit | M::None => J::Null,
            M::Bool(v) => J::Bool(*v),
            M::F32(v) => {
                if v.is_finite() {
                    J::F32(*v)
                } else {
                    J::Null
                }
            }
            M::F64(v) => {
                if v.is_finite() {
                    J::F64(*v)
                } else {
                    J::Null
                }
            }
            M::Char(v) => J::Str(v.to_string()),
            M::Str(v) => J::Str(v.clone()),
            M::Bytes(v) => J::Arr(v.iter().map(|b| J::Int(b.to_string())).collect()),
            M::Some(v) => v.json_image(fw)?,
            M::Seq(v) | M::Tuple(v) | M::TupleStruct(_, v) => seq(v)?,
            M::Map(v) => {
                let mut out = Vec::new();
                for (k, e) in v {
                    out.push((k.key_image()?, e.json_image(fw)?));
                }
                J::Obj(out)
            }
            M::UnitStruct(n) => match fw {
                Framework::Serde => J::Null,
                Framework::Sval => J::Str(n.to_string()),
            },
            M::NewtypeStruct(_, v) => v.json_image(fw)?,
            M::Struct(_, v) => rec(v)?,
            M::UnitVariant(_, _, vn) => J::Str(vn.to_string()),
            M::NewtypeVariant(_, _, vn, v) => variant(vn, v.json_image(fw)?),
            M::TupleVariant(_, _, vn, v) => variant(vn, seq(v)?),
            M::StructVariant(_, _, vn, v) => variant(vn, rec(v)?),
            M::Error(e) => J::Str(e.msg.clone()),
            int => J::Int(int.int_text().expect("integer")),
        })
    }

    /// The text a JSON object key must carry for this value used as a map key.
    pub fn key_image(&self) -> Result<KeyImage, String> {
        Ok(match self {
            M::Str(v) => KeyImage::Text(v.clone()),
            M::Char(v) => KeyImage::Text(v.to_string()),
            M::Bool(v) => KeyImage::Text(v.to_string()),
            M::F32(v) if v.is_finite() => KeyImage::F32(*v),
            M::F64(v) if v.is_finite() => KeyImage::F64(*v),
            M::UnitVariant(_, _, vn) => KeyImage::Text(vn.to_string()),
            M::NewtypeStruct(_, v) => v.key_image()?,
            other => match other.int_text() {
                Some(t) => KeyImage::Text(t),
                None => return Err(format!("map-key:{}", other.key_shape())),
            },
        })
    }
}

/// A parsed JSON text. Numbers keep their source text, objects keep order and duplicates.
#[derive(Clone, Debug, PartialEq)]
pub enum JsonTree {
    Null,
    Bool(bool),
    Num(String),
    Str(String),
    Arr(Vec<JsonTree>),
    Obj(Vec<(String, JsonTree)>),
}

impl JsonTree {
    pub fn get(&self, key: &str) -> Option<&JsonTree> {
        match self {
            JsonTree::Obj(es) => es.iter().find(|(k, _)| k == key).map(|(_, v)| v),
            _ => None,
        }
    }

    pub fn count(&self, key: &str) -> usize {
        match self {
            JsonTree::Obj(es) => es.iter().filter(|(k, _)| k == key).count(),
            _ => 0,
        }
    }

    pub fn as_str(&self) -> Option<&str> {
        match self {
            JsonTree::Str(s) => Some(s),
            _ => None,
        }
    }

    pub fn as_arr(&self) -> Option<&[JsonTree]> {
        match self {
            JsonTree::Arr(a) => Some(a),
            _ => None,
        }
    }

    pub fn entries(&self) -> &[(String, JsonTree)] {
        match self {
            JsonTree::Obj(es) => es,
            _ => &[],
        }
    }

    /// Integer value of a number token or of a decimal string (OTLP JSON writes int64 as string).
    pub fn as_i128(&self) -> Option<i128> {
        match self {
            JsonTree::Num(s) | JsonTree::Str(s) => s.parse().ok(),
            _ => None,
        }
    }

    pub fn short(&self) -> String {
        let s = format!("{:?}", self);
        if s.len() > 300 {
            let mut cut = 300;
            while !s.is_char_boundary(cut) {
                cut -= 1;
            }
            format!("{}…", &s[..cut])
        } else {
            s
        }
    }
}

struct Parser<'a> {
    b: &'a [u8],
    i: usize,
    depth: usize,
}

/// Strict RFC 8259 parser (one value, optional surrounding whitespace).
pub fn parse_json(text: &str) -> Result<JsonTree, String> {
    let mut p = Parser { b: text.as_bytes(), i: 0, depth: 0 };
    p.ws();
    let v = p.value()?;
    p.ws();
    if p.i != p.b.len() {
        return Err(format!("trailing characters at byte {}", p.i));
    }
    Ok(v)
}

impl<'a> Parser<'a> {
    fn ws(&mut self) {
        while self.i < self.b.len() && matches!(self.b[self.i], b' ' | b'\t' | b'\n' | b'\r') {
            self.i += 1;
        }
    }

    fn err<T>(&self, what: &str) -> Result<T, String> {
        Err(format!("{} at byte {}", what, self.i))
    }

    fn lit(&mut self, word: &str, v: JsonTree) -> Result<JsonTree, String> {
        if self.b[self.i..].starts_with(word.as_bytes()) {
            self.i += word.len();
            Ok(v)
        } else {
            self.err("invalid literal")
        }
    }

    fn value(&mut self) -> Result<JsonTree, String> {
        if self.depth > 512 {
            return self.err("nesting too deep");
        }
        match self.b.get(self.i) {
            None => self.err("unexpected end"),
            Some(b'n') => self.lit("null", JsonTree::Null),
            Some(b't') => self.lit("true", JsonTree::Bool(true)),
            Some(b'f') => self.lit("false", JsonTree::Bool(false)),
            Some(b'"') => self.string().map(JsonTree::Str),
            Some(b'[') => {
                self.i += 1;
                self.depth += 1;
                let mut out = Vec::new();
                self.ws();
                if self.b.get(self.i) == Some(&b']') {
                    self.i += 1;
                } else {
                    loop {
                        self.ws();
                        out.push(self.value()?);
                        self.ws();
                        match self.b.get(self.i) {
                            Some(b',') => self.i += 1,
                            Some(b']') => {
                                self.i += 1;
                                break;
                            }
                            _ => return self.err("expected ',' or ']'"),
                        }
                    }
                }
                self.depth -= 1;
                Ok(JsonTree::Arr(out))
            }
            Some(b'{') => {
                self.i += 1;
                self.depth += 1;
                let mut out = Vec::new();
                self.ws();
                if self.b.get(self.i) == Some(&b'}') {
                    self.i += 1;
                } else {
                    loop {
                        self.ws();
                        if self.b.get(self.i) != Some(&b'"') {
                            return self.err("expected a string key");
                        }
                        let k = self.string()?;
                        self.ws();
                        if self.b.get(self.i) != Some(&b':') {
                            return self.err("expected ':'");
                        }
                        self.i += 1;
                        self.ws();
                        let v = self.value()?;
                        out.push((k, v));
                        self.ws();
                        match self.b.get(self.i) {
                            Some(b',') => self.i += 1,
                            Some(b'}') => {
                                self.i += 1;
                                break;
                            }
                            _ => return self.err("expected ',' or '}'"),
                        }
                    }
                }
                self.depth -= 1;
                Ok(JsonTree::Obj(out))
            }
            Some(c) if *c == b'-' || c.is_ascii_digit() => self.number(),
            Some(_) => self.err("unexpected character"),
        }
    }

    fn number(&mut self) -> Result<JsonTree, String> {
        let start = self.i;
        if self.b.get(self.i) == Some(&b'-') {
            self.i += 1;
        }
        match self.b.get(self.i) {
            Some(b'0') => self.i += 1,
            Some(c) if c.is_ascii_digit() => {
                while self.b.get(self.i).map_or(false, |c| c.is_ascii_digit()) {
                    self.i += 1;
                }
            }
            _ => return self.err("invalid number"),
        }
        if self.b.get(self.i) == Some(&b'.') {
            self.i += 1;
            if !self.b.get(self.i).map_or(false, |c| c.is_ascii_digit()) {
                return self.err("invalid fraction");
            }
            while self.b.get(self.i).map_or(false, |c| c.is_ascii_digit()) {
                self.i += 1;
            }
        }
        if matches!(self.b.get(self.i), Some(b'e') | Some(b'E')) {
            self.i += 1;
            if matches!(self.b.get(self.i), Some(b'+') | Some(b'-')) {
                self.i += 1;
            }
            if !self.b.get(self.i).map_or(false, |c| c.is_ascii_digit()) {
                return self.err("invalid exponent");
            }
            while self.b.get(self.i).map_or(false, |c| c.is_ascii_digit()) {
                self.i += 1;
            }
        }
        Ok(JsonTree::Num(String::from_utf8_lossy(&self.b[start..self.i]).into_owned()))
    }

    fn hex4(&mut self) -> Result<u32, String> {
        if self.i + 4 > self.b.len() {
            return self.err("short \\u escape");
        }
        let s = std::str::from_utf8(&self.b[self.i..self.i + 4]).map_err(|_| "bad \\u escape".to_string())?;
        if !s.bytes().all(|c| c.is_ascii_hexdigit()) {
            return self.err("bad \\u escape");
        }
        self.i += 4;
        Ok(u32::from_str_radix(s, 16).unwrap())
    }

    fn string(&mut self) -> Result<String, String> {
        self.i += 1; // opening quote
        let mut out: Vec<u8> = Vec::new();
        loop {
            let c = match self.b.get(self.i) {
                None => return self.err("unterminated string"),
                Some(c) => *c,
            };
            self.i += 1;
            match c {
                b'"' => break,
                b'\\' => {
                    let e = match self.b.get(self.i) {
                        None => return self.err("unterminated escape"),
                        Some(e) => *e,
                    };
                    self.i += 1;
                    let ch = match e {
                        b'"' => '"',
                        b'\\' => '\\',
                        b'/' => '/',
                        b'b' => '\u{8}',
                        b'f' => '\u{c}',
                        b'n' => '\n',
                        b'r' => '\r',
                        b't' => '\t',
                        b'u' => {
                            let hi = self.hex4()?;
                            if (0xD800..0xDC00).contains(&hi) {
                                if self.b.get(self.i) == Some(&b'\\') && self.b.get(self.i + 1) == Some(&b'u') {
                                    self.i += 2;
                                    let lo = self.hex4()?;
                                    if !(0xDC00..0xE000).contains(&lo) {
                                        return self.err("unpaired surrogate");
                                    }
                                    char::from_u32(0x10000 + ((hi - 0xD800) << 10) + (lo - 0xDC00)).unwrap()
                                } else {
                                    return self.err("unpaired surrogate");
                                }
                            } else if (0xDC00..0xE000).contains(&hi) {
                                return self.err("unpaired surrogate");
                            } else {
                                char::from_u32(hi).unwrap()
                            }
                        }
                        _ => return self.err("invalid escape"),
                    };
                    let mut buf = [0u8; 4];
                    out.extend_from_slice(ch.encode_utf8(&mut buf).as_bytes());
                }
                c if c < 0x20 => return self.err("raw control character in string"),
                c => out.push(c),
            }
        }
        String::from_utf8(out).map_err(|_| format!("invalid UTF-8 in string before byte {}", self.i))
    }
}

fn num_is_int_text(tok: &str, want: &str) -> bool {
    // JSON integers: no leading '+', no leading zeros; allow "-0" == "0"
    tok == want || (want == "0" && tok == "-0")
}

impl KeyImage {
    pub fn matches(&self, key: &str) -> bool {
        match self {
            KeyImage::Text(t) => t == key,
            KeyImage::F32(v) => key.parse::<f32>().map_or(false, |p| p.to_bits() == v.to_bits()) || key.parse::<f64>().map_or(false, |p| p.to_bits() == (*v as f64).to_bits()),
            KeyImage::F64(v) => key.parse::<f64>().map_or(false, |p| p.to_bits() == v.to_bits()),
        }
    }
}

impl JsonImage {
    /// `Err(path: why)` when `tree` does not denote this image.
    pub fn matches(&self, tree: &JsonTree) -> Result<(), String> {
        self.matches_at(tree, "$")
    }

    fn matches_at(&self, tree: &JsonTree, path: &str) -> Result<(), String> {
        use JsonImage as J;
        use JsonTree as T;
        let bad = |why: String| Err(format!("{}: {}", path, why));
        match (self, tree) {
            (J::Null, T::Null) => Ok(()),
            (J::Bool(a), T::Bool(b)) if a == b => Ok(()),
            (J::Int(a), T::Num(b)) => {
                if num_is_int_text(b, a) {
                    Ok(())
                } else {
                    bad(format!("integer {} written as {}", a, b))
                }
            }
            (J::F32(a), T::Num(b)) => {
                let ok = b.parse::<f32>().map_or(false, |p| p.to_bits() == a.to_bits() || (p == 0.0 && *a == 0.0 && !b.starts_with('-') == a.is_sign_positive()))
                    || b.parse::<f64>().map_or(false, |p| p.to_bits() == (*a as f64).to_bits());
                if ok {
                    Ok(())
                } else {
                    bad(format!("f32 {:?} written as {}", a, b))
                }
            }
            (J::F64(a), T::Num(b)) => {
                if b.parse::<f64>().map_or(false, |p| p.to_bits() == a.to_bits()) {
                    Ok(())
                } else {
                    bad(format!("f64 {:?} written as {}", a, b))
                }
            }
            (J::Str(a), T::Str(b)) => {
                if a == b {
                    Ok(())
                } else {
                    bad(format!("string {:?} written as {:?}", a, b))
                }
            }
            (J::Arr(a), T::Arr(b)) => {
                if a.len() != b.len() {
                    return bad(format!("array of {} written with {} elements", a.len(), b.len()));
                }
                for (i, (x, y)) in a.iter().zip(b).enumerate() {
                    x.matches_at(y, &format!("{}[{}]", path, i))?;
                }
                Ok(())
            }
            (J::Obj(a), T::Obj(b)) => {
                if a.len() != b.len() {
                    return bad(format!("object of {} entries written with {}", a.len(), b.len()));
                }
                for (i, ((ka, va), (kb, vb))) in a.iter().zip(b).enumerate() {
                    if !ka.matches(kb) {
                        return bad(format!("entry {} key {:?} written as {:?}", i, ka, kb));
                    }
                    va.matches_at(vb, &format!("{}.{}", path, kb))?;
                }
                Ok(())
            }
            (want, got) => bad(format!("expected {} got {}", want.kind(), got.short())),
        }
    }

    fn kind(&self) -> String {
        let s = format!("{:?}", self);
        s.chars().take(120).collect()
    }
}

// ---------------------------------------------------------------------------
// OTLP AnyValue image
// ---------------------------------------------------------------------------

#[derive(Clone, Debug, PartialEq)]
pub enum AnyImage {
    /// no value set (protobuf) / `null` or absent (JSON)
    Empty,
    Str(String),
    Bool(bool),
    Int(i64),
    Double(f64),
    Bytes(Vec<u8>),
    Array(Vec<AnyImage>),
    KvList(Vec<(KeyImage, AnyImage)>),
}

impl ModelValue {
    /// The OTLP `AnyValue` a property with this value must be exported as (calibration in
    /// DESIGN.md C13): integers within i64 → int, larger → decimal text, floats → double,
    /// sequences / tuples → array, structs / maps → kvlist, enum variants keep the payload and
    /// lose the variant name (unit variant → its name), `None` → empty.
    /// `Err("map-key:<shape>")` when a map key has no textual form.
    pub fn any_image(&self) -> Result<AnyImage, String> {
        use AnyImage as A;
        let seq = |v: &Vec<ModelValue>| v.iter().map(|e| e.any_image()).collect::<Result<Vec<_>, _>>().map(A::Array);
        let rec = |v: &Vec<(&'static str, ModelValue)>| {
            v.iter().map(|(k, e)| e.any_image().map(|e| (KeyImage::Text(k.to_string()), e))).collect::<Result<Vec<_>, _>>().map(A::KvList)
        };
        Ok(match self {
            M::Unit | M::None => A::Empty,
            M::Bool(v) => A::Bool(*v),
            M::F32(v) => A::Double(*v as f64),
            M::F64(v) => A::Double(*v),
            M::Char(v) => A::Str(v.to_string()),
            M::Str(v) => A::Str(v.clone()),
            M::Bytes(v) => A::Bytes(v.clone()),
            M::Some(v) | M::NewtypeStruct(_, v) | M::NewtypeVariant(_, _, _, v) => v.any_image()?,
            M::Seq(v) | M::Tuple(v) | M::TupleStruct(_, v) | M::TupleVariant(_, _, _, v) => seq(v)?,
            M::Map(v) => {
                let mut out = Vec::new();
                for (k, e) in v {
                    out.push((k.any_key()?, e.any_image()?));
                }
                A::KvList(out)
            }
            M::UnitStruct(n) => A::Str(n.to_string()),
            M::Struct(_, v) | M::StructVariant(_, _, _, v) => rec(v)?,
            M::UnitVariant(_, _, vn) => A::Str(vn.to_string()),
            M::Error(e) => A::Str(e.msg.clone()),
            int => match int.as_int().expect("integer") {
                Ok(i) => match i64::try_from(i) {
                    Ok(i) => A::Int(i),
                    Err(_) => A::Str(i.to_string()),
                },
                Err(u) => A::Str(u.to_string()),
            },
        })
    }

    /// Text of a kvlist key: strings as they are, scalars (bool, integers, floats) as their
    /// text; `Err("map-key:<shape>")` for compound keys, which OTLP cannot carry.
    pub fn any_key(&self) -> Result<KeyImage, String> {
        match self {
            M::F32(v) if !v.is_finite() => Ok(KeyImage::Text(v.to_string())),
            M::F64(v) if !v.is_finite() => Ok(KeyImage::Text(v.to_string())),
            other => other.key_image(),
        }
    }
}

// ---------------------------------------------------------------------------
// generators
// ---------------------------------------------------------------------------

macro_rules! gen_int {
    ($name:ident, $t:ty) => {
        pub fn $name(g: &mut Rng) -> $t {
            let bits = <$t>::BITS as u64;
            match g.below(10) {
                0 => <$t>::MIN,
                1 => <$t>::MAX,
                2 => 0,
                3 => 1,
                4 => <$t>::MAX - 1,
                5 => <$t>::MIN + 1,
                6 => {
                    // around a power of two
                    let p = (1 as $t).wrapping_shl(g.below(bits) as u32);
                    match g.below(3) {
                        0 => p.wrapping_sub(1),
                        1 => p,
                        _ => p.wrapping_add(1),
                    }
                }
                7 => {
                    // around a power of ten (formatting width changes)
                    let mut p: $t = 1;
                    for _ in 0..g.below(40) {
                        p = match p.checked_mul(10) {
                            Some(n) => n,
                            None => break,
                        };
                    }
                    if g.bool() {
                        p.wrapping_sub(1)
                    } else {
                        p
                    }
                }
                _ => {
                    let v = ((g.next() as u128) << 64 | g.next() as u128) as $t;
                    // small magnitudes are as interesting as huge ones
                    if g.bool() {
                        v.wrapping_shr(g.below(bits) as u32)
                    } else {
                        v
                    }
                }
            }
        }
    };
}

gen_int!(gen_i8, i8);
gen_int!(gen_i16, i16);
gen_int!(gen_i32, i32);
gen_int!(gen_i64, i64);
gen_int!(gen_i128, i128);
gen_int!(gen_isize, isize);
gen_int!(gen_u8, u8);
gen_int!(gen_u16, u16);
gen_int!(gen_u32, u32);
gen_int!(gen_u64, u64);
gen_int!(gen_u128, u128);
gen_int!(gen_usize, usize);

/// 128-bit values around the 64-bit boundaries matter to sinks (OTLP has no 128-bit integers).
pub fn gen_i128_boundary(g: &mut Rng) -> i128 {
    match g.below(8) {
        0 => i64::MAX as i128,
        1 => i64::MAX as i128 + 1,
        2 => i64::MIN as i128,
        3 => i64::MIN as i128 - 1,
        4 => u64::MAX as i128,
        5 => u64::MAX as i128 + 1,
        _ => gen_i128(g),
    }
}

pub fn gen_u128_boundary(g: &mut Rng) -> u128 {
    match g.below(8) {
        0 => i64::MAX as u128,
        1 => i64::MAX as u128 + 1,
        2 => u64::MAX as u128,
        3 => u64::MAX as u128 + 1,
        4 => i128::MAX as u128,
        5 => i128::MAX as u128 + 1,
        _ => gen_u128(g),
    }
}

pub fn gen_f64(g: &mut Rng) -> f64 {
    const EDGE: &[f64] = &[
        0.0,
        -0.0,
        1.0,
        -1.0,
        0.1,
        0.5,
        1.5,
        f64::NAN,
        f64::INFINITY,
        f64::NEG_INFINITY,
        f64::MIN,
        f64::MAX,
        f64::MIN_POSITIVE,
        f64::EPSILON,
        5e-324,
        1e15,
        1e16,
        1e17,
        9007199254740992.0,
        9007199254740993.0,
        1e21,
        1e-5,
        1e-7,
        123456789.125,
        3.141592653589793,
        -2.2250738585072014e-308,
        4294967296.0,
        2147483648.0,
        -2147483649.0,
    ];
    match g.below(4) {
        0 | 1 => *g.pick(EDGE),
        2 => f64::from_bits(g.next()),
        _ => (g.irange(-1_000_000, 1_000_000) as f64) / [1.0, 10.0, 100.0, 1000.0, 3.0][g.usize(5)],
    }
}

pub fn gen_f32(g: &mut Rng) -> f32 {
    const EDGE: &[f32] = &[
        0.0,
        -0.0,
        1.0,
        -1.0,
        0.1,
        0.5,
        f32::NAN,
        f32::INFINITY,
        f32::NEG_INFINITY,
        f32::MIN,
        f32::MAX,
        f32::MIN_POSITIVE,
        f32::EPSILON,
        1e-45,
        16777216.0,
        16777217.0,
        1e7,
        1e-5,
        3.1415927,
    ];
    match g.below(4) {
        0 | 1 => *g.pick(EDGE),
        2 => f32::from_bits(g.next() as u32),
        _ => (g.irange(-100_000, 100_000) as f32) / [1.0, 10.0, 100.0, 3.0][g.usize(4)],
    }
}

pub fn gen_char(g: &mut Rng) -> char {
    const EDGE: &[char] = &[
        '\0', 'a', 'Z', '0', ' ', '"', '\'', '\\', '/', '\n', '\r', '\t', '\u{8}', '\u{c}', '\u{1b}', '\u{7f}', '\u{80}', '\u{a0}', 'é', 'ß', '日',
        '\u{d7ff}', '\u{e000}', '\u{fffd}', '\u{ffff}', '\u{10000}', '😀', '\u{10ffff}', '\u{2028}', '\u{2029}', '\u{feff}', '{', '}',
    ];
    match g.below(3) {
        0 | 1 => *g.pick(EDGE),
        _ => loop {
            if let Some(c) = char::from_u32(g.below(0x11_0000) as u32) {
                break c;
            }
        },
    }
}

pub fn gen_string(g: &mut Rng) -> String {
    const FIXED: &[&str] = &[
        "",
        " ",
        "text",
        "Hello, World",
        "null",
        "true",
        "NaN",
        "-0",
        "42",
        "1e400",
        "0x10",
        "info",
        "ERROR",
        "span",
        "metric",
        "2024-01-01T00:00:00.000Z",
        "4bf92f3577b34da6a3ce929d0e0e4736",
        "00f067aa0ba902b7",
        "{\"a\":1}",
        "[1,2",
        "a\"b",
        "back\\slash",
        "line1\nline2\r\n\ttabbed",
        "nul\0inside",
        "\u{1b}[31mred\u{1b}[0m",
        "\u{7f}\u{80}\u{9f}",
        "héllo wörld",
        "日本語のテキスト",
        "emoji 😀 pair 👩‍👩‍👧",
        "\u{2028}sep\u{2029}",
        "\u{feff}bom",
        "{not a hole}",
        "}{",
        "tab\there",
        "quote'single",
        "</script>",
        "\u{10ffff}",
    ];
    match g.below(5) {
        0 | 1 => (*g.pick(FIXED)).to_string(),
        2 => {
            let n = g.usize(24);
            (0..n).map(|_| gen_char(g)).collect()
        }
        3 => {
            let n = g.usize(40);
            (0..n).map(|_| (g.below(95) as u8 + 32) as char).collect()
        }
        _ => {
            // occasionally long
            let n = if g.chance(1, 12) { 200 + g.usize(2000) } else { g.usize(80) };
            let mut s = String::new();
            while s.len() < n {
                match g.below(8) {
                    0 => s.push(gen_char(g)),
                    1 => s.push_str(*g.pick(FIXED)),
                    _ => s.push((g.below(26) as u8 + b'a') as char),
                }
            }
            s
        }
    }
}

pub fn gen_bytes(g: &mut Rng) -> Vec<u8> {
    match g.below(4) {
        0 => Vec::new(),
        1 => vec![0, 255, 128, 127, 10, 34, 92],
        2 => b"plain ascii bytes".to_vec(),
        _ => (0..g.usize(48)).map(|_| g.next() as u8).collect(),
    }
}

/// The primitive classes, in a fixed order (index usable as a case coordinate).
pub const PRIM_CLASSES: &[&str] = &[
    "bool", "i8", "i16", "i32", "i64", "i128", "isize", "u8", "u16", "u32", "u64", "u128", "usize", "f32", "f64", "char", "str",
];

pub fn gen_prim_of(g: &mut Rng, class: &str) -> ModelValue {
    match class {
        "bool" => M::Bool(g.bool()),
        "i8" => M::I8(gen_i8(g)),
        "i16" => M::I16(gen_i16(g)),
        "i32" => M::I32(gen_i32(g)),
        "i64" => M::I64(gen_i64(g)),
        "i128" => M::I128(gen_i128_boundary(g)),
        "isize" => M::Isize(gen_isize(g)),
        "u8" => M::U8(gen_u8(g)),
        "u16" => M::U16(gen_u16(g)),
        "u32" => M::U32(gen_u32(g)),
        "u64" => M::U64(gen_u64(g)),
        "u128" => M::U128(gen_u128_boundary(g)),
        "usize" => M::Usize(gen_usize(g)),
        "f32" => M::F32(gen_f32(g)),
        "f64" => M::F64(gen_f64(g)),
        "char" => M::Char(gen_char(g)),
        "str" => M::Str(gen_string(g)),
        other => panic!("unknown primitive class {}", other),
    }
}

pub fn gen_prim(g: &mut Rng) -> ModelValue {
    let c = *g.pick(PRIM_CLASSES);
    gen_prim_of(g, c)
}

/// Which kinds of map keys the generator may produce.
#[derive(Clone, Copy, Debug, PartialEq, Eq)]
pub enum KeyKind {
    Str,
    Char,
    Int,
    BigInt,
    Bool,
    Float,
    UnitVariant,
    NewtypeInt,
    Bytes,
    Seq,
    Tuple,
    Map,
    Struct,
    NewtypeVariant,
}

pub const TEXT_KEYS: &[KeyKind] = &[KeyKind::Str, KeyKind::Char, KeyKind::UnitVariant];
pub const SCALAR_KEYS: &[KeyKind] = &[KeyKind::Int, KeyKind::BigInt, KeyKind::Bool, KeyKind::Float, KeyKind::NewtypeInt];
pub const COMPOUND_KEYS: &[KeyKind] = &[KeyKind::Bytes, KeyKind::Seq, KeyKind::Tuple, KeyKind::Map, KeyKind::Struct, KeyKind::NewtypeVariant];

#[derive(Clone, Debug)]
pub struct GenCfg {
    /// remaining nesting depth (0 = primitives only)
    pub depth: u32,
    /// max elements per collection
    pub max_len: usize,
    /// key kinds maps may use (empty = no maps)
    pub keys: Vec<KeyKind>,
    pub unit_structs: bool,
    pub bytes: bool,
}

impl GenCfg {
    pub fn new(depth: u32, max_len: usize) -> GenCfg {
        GenCfg { depth, max_len, keys: TEXT_KEYS.to_vec(), unit_structs: true, bytes: true }
    }

    pub fn with_keys(mut self, kinds: &[KeyKind]) -> GenCfg {
        self.keys = kinds.to_vec();
        self
    }

    fn deeper(&self) -> GenCfg {
        let mut c = self.clone();
        c.depth = c.depth.saturating_sub(1);
        c
    }
}

fn gen_fields(g: &mut Rng, cfg: &GenCfg) -> Vec<(&'static str, ModelValue)> {
    let n = g.usize(cfg.max_len.min(FIELD_NAMES.len()) + 1);
    let mut names: Vec<&'static str> = FIELD_NAMES.to_vec();
    g.shuffle(&mut names);
    names.into_iter().take(n).map(|k| (k, gen_value(g, &cfg.deeper()))).collect()
}

fn gen_vec(g: &mut Rng, cfg: &GenCfg, min: usize) -> Vec<ModelValue> {
    let n = min + g.usize(cfg.max_len.saturating_sub(min) + 1);
    (0..n).map(|_| gen_value(g, &cfg.deeper())).collect()
}

pub fn gen_key(g: &mut Rng, kind: KeyKind, i: usize) -> ModelValue {
    // `i` keeps keys of one map distinct in their textual form
    match kind {
        KeyKind::Str => M::Str(format!("{}{}", ["k", "key ", "ключ", "a.b", "", "\"q\"", "x\ny"][g.usize(7)], i)),
        KeyKind::Char => M::Char(['a', 'é', '日', '"', '\n', '😀', 'z', '0'][i % 8]),
        KeyKind::Int => match g.below(4) {
            0 => M::U8(i as u8),
            1 => M::I64(-(i as i64) - 1),
            2 => M::I32(i as i32 * 1000 + 7),
            _ => M::U64(i64::MAX as u64 - i as u64),
        },
        KeyKind::BigInt => match g.below(3) {
            0 => M::U64(u64::MAX - i as u64),
            1 => M::U128(u128::MAX - i as u128),
            _ => M::I128(i128::MIN + i as i128),
        },
        KeyKind::Bool => M::Bool(i % 2 == 0),
        KeyKind::Float => M::F64([0.5, -1.25, 1e300, 3.0, 1e-7, -0.0][i % 6] + (i / 6) as f64),
        KeyKind::UnitVariant => M::UnitVariant("Kind", (i % 4) as u32, VARIANT_NAMES[i % 4]),
        KeyKind::NewtypeInt => M::NewtypeStruct("Wrapper", Box::new(M::U32(i as u32))),
        KeyKind::Bytes => M::Bytes(vec![i as u8, 1, 2]),
        KeyKind::Seq => M::Seq(vec![M::U8(i as u8), M::U8(2)]),
        KeyKind::Tuple => M::Tuple(vec![M::U8(i as u8), M::Str("t".into())]),
        KeyKind::Map => M::Map(vec![(M::Str("k".into()), M::U8(i as u8))]),
        KeyKind::Struct => M::Struct("Point", vec![("a", M::U8(i as u8)), ("b", M::Bool(true))]),
        KeyKind::NewtypeVariant => M::NewtypeVariant("Shape", 1, "Second", Box::new(M::U8(i as u8))),
    }
}

/// A seeded tree, bounded by `cfg.depth` / `cfg.max_len`.
pub fn gen_value(g: &mut Rng, cfg: &GenCfg) -> ModelValue {
    if cfg.depth == 0 || g.chance(2, 5) {
        return match g.below(12) {
            0 => M::Unit,
            1 => M::None,
            2 if cfg.bytes => M::Bytes(gen_bytes(g)),
            3 => M::UnitVariant(*g.pick(ENUM_NAMES), 0, VARIANT_NAMES[0]),
            _ => gen_prim(g),
        };
    }
    let name = *g.pick(TYPE_NAMES);
    let en = *g.pick(ENUM_NAMES);
    let vi = g.usize(VARIANT_NAMES.len());
    let vn = VARIANT_NAMES[vi];
    match g.below(14) {
        0 => M::Some(Box::new(gen_value(g, &cfg.deeper()))),
        1 | 2 => M::Seq(gen_vec(g, cfg, 0)),
        3 => {
            let mut c = cfg.clone();
            c.max_len = c.max_len.clamp(1, 6);
            M::Tuple(gen_vec(g, &c, 1))
        }
        4 | 5 if !cfg.keys.is_empty() => {
            let kind = *g.pick(&cfg.keys);
            let cap = match kind {
                KeyKind::Bool => 2,
                KeyKind::Char => 8,
                _ => cfg.max_len,
            };
            let n = g.usize(cap.min(cfg.max_len) + 1);
            M::Map((0..n).map(|i| (gen_key(g, kind, i), gen_value(g, &cfg.deeper()))).collect())
        }
        6 if cfg.unit_structs => M::UnitStruct(name),
        7 => M::NewtypeStruct(name, Box::new(gen_value(g, &cfg.deeper()))),
        8 => M::TupleStruct(name, gen_vec(g, cfg, 2)),
        9 => M::Struct(name, gen_fields(g, cfg)),
        10 => M::UnitVariant(en, vi as u32, vn),
        11 => M::NewtypeVariant(en, vi as u32, vn, Box::new(gen_value(g, &cfg.deeper()))),
        12 => M::TupleVariant(en, vi as u32, vn, gen_vec(g, cfg, 2)),
        13 => M::StructVariant(en, vi as u32, vn, gen_fields(g, cfg)),
        _ => M::Struct(name, gen_fields(g, cfg)),
    }
}

/// A structured value (never a bare primitive at the top).
pub fn gen_structured(g: &mut Rng, cfg: &GenCfg) -> ModelValue {
    for _ in 0..64 {
        let v = gen_value(g, cfg);
        if !v.is_primitive() && !matches!(v, M::Unit | M::None) {
            return v;
        }
    }
    M::Seq(vec![gen_prim(g)])
}

pub fn gen_error(g: &mut Rng) -> ModelError {
    let n = 1 + g.usize(4);
    let msgs: Vec<String> = (0..n)
        .map(|i| match g.below(4) {
            0 => format!("level {} failed", i),
            1 => gen_string(g),
            2 => format!("io error: {} (os error {})", ["not found", "denied", "reset"][g.usize(3)], g.below(200)),
            _ => format!("ошибка {} \"quoted\"\nsecond line", i),
        })
        .collect();
    ModelError::chain(&msgs)
}

#[cfg(test)]
mod tests {
    use super::*;

    #[test]
    fn parser_agrees_with_serde_json_on_generated_values() {
        for i in 0..2000u64 {
            let mut g = Rng::stream(7, &[i]);
            let v = gen_value(&mut g, &GenCfg::new(3, 4).with_keys(&[KeyKind::Str, KeyKind::Int, KeyKind::Float, KeyKind::Bool]));
            let text = serde_json::to_string(&v).unwrap();
            let tree = parse_json(&text).unwrap();
            v.json_image(Framework::Serde).unwrap().matches(&tree).unwrap_or_else(|e| panic!("{} for {:?} -> {}", e, v, text));
        }
    }
}
