/*!
Model values: one generated tree yields an `emit::Value` through any capture mode and an
independently computed expectation. (Filled in by the value-oriented monitors.)
*/
