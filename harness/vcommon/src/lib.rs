/*!
Shared machinery for the runtime monitors: seeded PRNG streams, the lane report
(evaluations / distinct cases / samples / violations / inconclusive notes), argument
parsing, a quiet `catch_unwind`, a global stamp counter, and recording components
(emitter, clock, rng) that the monitors plug into the real `emit` code.

Every monitor binary is one *lane run*: it prints exactly one line
`@@RESULT {json}` on stdout which `bin/check` merges into the evidence file.
Exit codes of a monitor: 0 = ran (violations, if any, are in the JSON),
2 = infrastructure error (the oracle observed nothing / bad arguments).
*/

pub mod model;
pub mod rec;

use std::{
    cell::Cell,
    collections::{BTreeMap, HashSet},
    hash::{Hash, Hasher},
    panic::{self, AssertUnwindSafe},
    sync::{
        atomic::{AtomicU64, Ordering},
        Once,
    },
    time::Instant,
};

pub use serde_json::{json, Value as Json};

// ---------------------------------------------------------------------------
// PRNG
// ---------------------------------------------------------------------------

/// SplitMix64. Streams are derived from (seed, lane, case) so any case can be
/// re-generated on its own.
#[derive(Clone, Debug)]
pub struct Rng(pub u64);

impl Rng {
    pub fn new(seed: u64) -> Self {
        Rng(seed ^ 0x9E37_79B9_7F4A_7C15)
    }

    /// A stream keyed by a seed and any number of sub-keys.
    pub fn stream(seed: u64, keys: &[u64]) -> Self {
        let mut r = Rng::new(seed);
        for k in keys {
            let x = r.next();
            r = Rng(x ^ k.wrapping_mul(0xD6E8_FEB8_6659_FD93));
            r.next();
        }
        r
    }

    pub fn fork(&mut self) -> Rng {
        Rng(self.next())
    }

    pub fn next(&mut self) -> u64 {
        self.0 = self.0.wrapping_add(0x9E37_79B9_7F4A_7C15);
        let mut z = self.0;
        z = (z ^ (z >> 30)).wrapping_mul(0xBF58_476D_1CE4_E5B9);
        z = (z ^ (z >> 27)).wrapping_mul(0x94D0_49BB_1331_11EB);
        z ^ (z >> 31)
    }

    /// Uniform in `0..n` (n > 0).
    pub fn below(&mut self, n: u64) -> u64 {
        debug_assert!(n > 0);
        ((self.next() as u128 * n as u128) >> 64) as u64
    }

    pub fn usize(&mut self, n: usize) -> usize {
        self.below(n as u64) as usize
    }

    /// Uniform in `lo..=hi`.
    pub fn range(&mut self, lo: u64, hi: u64) -> u64 {
        lo + self.below(hi - lo + 1)
    }

    pub fn irange(&mut self, lo: i64, hi: i64) -> i64 {
        lo.wrapping_add(self.below((hi - lo) as u64 + 1) as i64)
    }

    /// True with probability `num/den`.
    pub fn chance(&mut self, num: u64, den: u64) -> bool {
        self.below(den) < num
    }

    pub fn bool(&mut self) -> bool {
        self.next() & 1 == 1
    }

    pub fn pick<'a, T>(&mut self, xs: &'a [T]) -> &'a T {
        &xs[self.usize(xs.len())]
    }

    pub fn shuffle<T>(&mut self, xs: &mut [T]) {
        for i in (1..xs.len()).rev() {
            let j = self.usize(i + 1);
            xs.swap(i, j);
        }
    }

    pub fn f64(&mut self) -> f64 {
        (self.next() >> 11) as f64 / (1u64 << 53) as f64
    }
}

pub fn hash_of<T: Hash + ?Sized>(v: &T) -> u64 {
    // FNV-1a over the std hasher stream: stable across runs (no random state).
    struct Fnv(u64);
    impl Hasher for Fnv {
        fn finish(&self) -> u64 {
            self.0
        }
        fn write(&mut self, bytes: &[u8]) {
            for b in bytes {
                self.0 ^= *b as u64;
                self.0 = self.0.wrapping_mul(0x0000_0100_0000_01B3);
            }
        }
    }
    let mut h = Fnv(0xcbf2_9ce4_8422_2325);
    v.hash(&mut h);
    h.finish()
}

// ---------------------------------------------------------------------------
// Stamps
// ---------------------------------------------------------------------------

static STAMP: AtomicU64 = AtomicU64::new(1);

/// A process-global logical clock. `SeqCst`, so "return stamp < call stamp"
/// implies real-time precedence.
pub fn stamp() -> u64 {
    STAMP.fetch_add(1, Ordering::SeqCst)
}

// ---------------------------------------------------------------------------
// Arguments
// ---------------------------------------------------------------------------

#[derive(Clone, Debug)]
pub struct Args {
    pub seed: u64,
    pub tier: String,
    pub lane: String,
    /// Work multiplier in percent of the tier's nominal size (Miri / sanitizer
    /// lanes pass small values).
    pub scale: u64,
    pub replay: Option<String>,
    pub extra: BTreeMap<String, String>,
}

impl Args {
    /// `--seed N --tier quick|thorough --lane NAME --scale PCT --replay FILE --key value`.
    /// Environment is *not* consulted (Miri isolates it); `bin/check` passes everything in argv.
    pub fn parse() -> Args {
        let mut a = Args {
            seed: 1,
            tier: "quick".into(),
            lane: "native".into(),
            scale: 100,
            replay: None,
            extra: BTreeMap::new(),
        };
        let argv: Vec<String> = std::env::args().skip(1).collect();
        let mut i = 0;
        while i < argv.len() {
            let k = argv[i].clone();
            let v = argv.get(i + 1).cloned().unwrap_or_default();
            match k.as_str() {
                "--seed" => a.seed = v.parse().unwrap_or(1),
                "--tier" => a.tier = v,
                "--lane" => a.lane = v,
                "--scale" => a.scale = v.parse().unwrap_or(100),
                "--replay" => a.replay = Some(v),
                _ if k.starts_with("--") => {
                    a.extra.insert(k[2..].to_string(), v);
                }
                _ => {
                    i += 1;
                    continue;
                }
            }
            i += 2;
        }
        a
    }

    pub fn thorough(&self) -> bool {
        self.tier == "thorough"
    }

    /// `quick` or `thorough` nominal count scaled by `--scale`.
    pub fn n(&self, quick: u64, thorough: u64) -> u64 {
        let base = if self.thorough() { thorough } else { quick };
        (base * self.scale / 100).max(1)
    }

    pub fn get(&self, key: &str) -> Option<&str> {
        self.extra.get(key).map(|s| s.as_str())
    }

    pub fn get_u64(&self, key: &str, default: u64) -> u64 {
        self.get(key).and_then(|v| v.parse().ok()).unwrap_or(default)
    }
}

// ---------------------------------------------------------------------------
// Quiet catch_unwind
// ---------------------------------------------------------------------------

thread_local! {
    static QUIET: Cell<u32> = const { Cell::new(0) };
}

static HOOK: Once = Once::new();

/// Install a panic hook that stays silent while the current thread is inside
/// [`catch`] (or [`quiet`]), and prints as usual otherwise.
pub fn install_quiet_panic_hook() {
    HOOK.call_once(|| {
        let prev = panic::take_hook();
        panic::set_hook(Box::new(move |info| {
            let quiet = QUIET.try_with(|q| q.get() > 0).unwrap_or(false);
            // Panics raised at a location inside emit-rs/emit are always noted on stderr (rate
            // limited), even when quiet: if the process then dies from a panic while unwinding
            // (abort), `bin/check` can attribute the death to that location instead of calling the
            // lane inconclusive.
            if let Some(loc) = info.location() {
                let file = loc.file();
                if file.contains("/repo/") || file.starts_with("repo/") {
                    static NOTED: AtomicU64 = AtomicU64::new(0);
                    if NOTED.fetch_add(1, Ordering::Relaxed) < 40 {
                        eprintln!("@@REPO-PANIC {}:{}", file, loc.line());
                    }
                }
            }
            if !quiet {
                prev(info)
            }
        }));
    });
}

/// Run `f` with panic messages of this thread suppressed.
pub fn quiet<T>(f: impl FnOnce() -> T) -> T {
    install_quiet_panic_hook();
    struct Guard;
    impl Drop for Guard {
        fn drop(&mut self) {
            let _ = QUIET.try_with(|q| q.set(q.get().saturating_sub(1)));
        }
    }
    QUIET.with(|q| q.set(q.get() + 1));
    let _g = Guard;
    f()
}

/// `catch_unwind` that returns the panic message.
pub fn catch<T>(f: impl FnOnce() -> T) -> Result<T, String> {
    quiet(|| match panic::catch_unwind(AssertUnwindSafe(f)) {
        Ok(v) => Ok(v),
        Err(p) => Err(panic_message(&p)),
    })
}

pub fn panic_message(p: &Box<dyn std::any::Any + Send>) -> String {
    if let Some(s) = p.downcast_ref::<&'static str>() {
        (*s).to_string()
    } else if let Some(s) = p.downcast_ref::<String>() {
        s.clone()
    } else {
        "<non-string panic payload>".to_string()
    }
}

// ---------------------------------------------------------------------------
// Report
// ---------------------------------------------------------------------------

const MAX_CASES_PER_SIG: usize = 3;
const MAX_SIGS: usize = 40;
const MAX_SAMPLES: usize = 5;

#[derive(Debug)]
pub struct Violation {
    pub sig: String,
    pub what: String,
    pub count: u64,
    pub cases: Vec<Json>,
}

/// What one lane run measured.
pub struct Report {
    pub property: String,
    pub lane: String,
    pub seed: u64,
    pub tier: String,
    pub rule: String,
    pub evaluations: u64,
    distinct: HashSet<u64>,
    pub samples: Vec<Json>,
    pub observed: BTreeMap<String, u64>,
    pub violations: Vec<Violation>,
    pub inconclusive: Vec<String>,
    pub extra: BTreeMap<String, Json>,
    pub exhaustive: Vec<String>,
    started: Instant,
}

static CHECKPOINTED: std::sync::atomic::AtomicBool = std::sync::atomic::AtomicBool::new(false);

impl Report {
    pub fn new(property: &str, args: &Args, rule: &str) -> Self {
        install_quiet_panic_hook();
        Report {
            property: property.into(),
            lane: args.lane.clone(),
            seed: args.seed,
            tier: args.tier.clone(),
            rule: rule.into(),
            evaluations: 0,
            distinct: HashSet::new(),
            samples: Vec::new(),
            observed: BTreeMap::new(),
            violations: Vec::new(),
            inconclusive: Vec::new(),
            extra: BTreeMap::new(),
            exhaustive: Vec::new(),
            started: Instant::now(),
        }
    }

    /// One generated case was evaluated by the oracle.
    pub fn eval(&mut self) {
        self.evaluations += 1;
    }

    pub fn evals(&mut self, n: u64) {
        self.evaluations += n;
    }

    /// Record the signature of a case that is non-trivial by `rule`.
    pub fn nontrivial<T: Hash + ?Sized>(&mut self, sig: &T) {
        self.distinct.insert(hash_of(sig));
    }

    pub fn distinct_nontrivial(&self) -> u64 {
        self.distinct.len() as u64
    }

    /// Count an event seen at an observation point.
    pub fn observe(&mut self, point: &str, n: u64) {
        *self.observed.entry(point.to_string()).or_insert(0) += n;
    }

    /// Keep up to a handful of actual cases for the evidence file.
    pub fn sample(&mut self, f: impl FnOnce() -> Json) {
        if self.samples.len() < MAX_SAMPLES {
            self.samples.push(f());
        }
    }

    pub fn wants_sample(&self) -> bool {
        self.samples.len() < MAX_SAMPLES
    }

    /// Record a violation. `sig` must be stable and specific (call site / input class /
    /// history shape), `case` must be enough to replay.
    pub fn violation(&mut self, sig: &str, what: &str, case: Json) {
        if let Some(v) = self.violations.iter_mut().find(|v| v.sig == sig) {
            v.count += 1;
            if v.cases.len() < MAX_CASES_PER_SIG {
                v.cases.push(case);
            }
            return;
        }
        if self.violations.len() >= MAX_SIGS {
            // Keep counting under a catch-all so nothing is silently dropped
            let sig = format!("{}:overflow-more-signatures", self.property);
            if let Some(v) = self.violations.iter_mut().find(|v| v.sig == sig) {
                v.count += 1;
            } else {
                self.violations.push(Violation {
                    sig,
                    what: "more distinct violation signatures than the report keeps".into(),
                    count: 1,
                    cases: vec![case],
                });
            }
            return;
        }
        self.violations.push(Violation {
            sig: sig.into(),
            what: what.into(),
            count: 1,
            cases: vec![case],
        });
    }

    pub fn violation_count(&self) -> u64 {
        self.violations.iter().map(|v| v.count).sum()
    }

    pub fn inconclusive(&mut self, why: impl Into<String>) {
        let why = why.into();
        if self.inconclusive.len() < 20 && !self.inconclusive.contains(&why) {
            self.inconclusive.push(why);
        }
    }

    pub fn set(&mut self, key: &str, v: Json) {
        self.extra.insert(key.into(), v);
    }

    pub fn exhaustive(&mut self, what: &str) {
        self.exhaustive.push(what.into());
    }

    pub fn elapsed_s(&self) -> f64 {
        self.started.elapsed().as_secs_f64()
    }

    pub fn to_json(&self) -> Json {
        json!({
            "property": self.property,
            "lane": self.lane,
            "seed": self.seed,
            "tier": self.tier,
            "rule": self.rule,
            "evaluations": self.evaluations,
            "distinct_nontrivial": self.distinct.len(),
            "distinct_hashes": if self.distinct.len() <= 200_000 {
                // lets the driver union distinct cases across lanes / Miri seeds
                Json::from(self.distinct.iter().map(|h| format!("{:x}", h)).collect::<Vec<_>>())
            } else { Json::Null },
            "samples": self.samples,
            "observed": self.observed,
            "violations": self.violations.iter().map(|v| json!({
                "sig": v.sig, "what": v.what, "count": v.count, "cases": v.cases,
            })).collect::<Vec<_>>(),
            "inconclusive": self.inconclusive,
            "extra": self.extra,
            "exhaustive": self.exhaustive,
            "wall_s": self.started.elapsed().as_secs_f64(),
        })
    }

    /// Print the `@@RESULT` line and return the process exit code.
    /// Print what has been gathered so far as a complete `@@RESULT` line and start afresh. A monitor calls this
    /// after a section whose verdicts must survive a later section that hangs until the lane watchdog kills the
    /// process (the driver merges every `@@RESULT` line of a lane).
    pub fn checkpoint(&mut self) {
        if self.evaluations == 0 {
            return;
        }
        let fresh = self.child();
        let done = std::mem::replace(self, fresh);
        use std::io::Write;
        let out = std::io::stdout();
        let mut out = out.lock();
        let _ = writeln!(out, "@@RESULT {}", done.to_json());
        let _ = out.flush();
        CHECKPOINTED.store(true, Ordering::SeqCst);
    }

    pub fn finish(self) -> i32 {
        let observed_total: u64 = self.observed.values().sum();
        let mut code = 0;
        if CHECKPOINTED.load(Ordering::SeqCst) && self.evaluations == 0 && self.violations.is_empty() && self.inconclusive.is_empty() {
            // everything was already printed by a checkpoint
            return 0;
        }
        if (self.evaluations == 0 || observed_total == 0) && !CHECKPOINTED.load(Ordering::SeqCst) {
            eprintln!(
                "monitor observed nothing (evaluations={}, observed events={}): infrastructure error",
                self.evaluations, observed_total
            );
            code = 2;
        }
        use std::io::Write;
        let out = std::io::stdout();
        let mut out = out.lock();
        let _ = writeln!(out, "@@RESULT {}", self.to_json());
        let _ = out.flush();
        code
    }
}

/// Load a replay file written by `bin/check` (`{"property","sig","what","lane","case":{..}}`)
/// and return its `case`.
pub fn load_replay(path: &str) -> Json {
    let text = std::fs::read_to_string(path).expect("replay file readable");
    let v: Json = serde_json::from_str(&text).expect("replay file is JSON");
    v.get("case").cloned().unwrap_or(v)
}

/// Lossy text for arbitrary bytes / strings inside JSON cases (escapes are kept readable).
pub fn show_bytes(b: &[u8]) -> String {
    let mut s = String::new();
    for &c in b {
        if (0x20..0x7f).contains(&c) && c != b'\\' {
            s.push(c as char);
        } else {
            s.push_str(&format!("\\x{:02x}", c));
        }
    }
    s
}

// ---------------------------------------------------------------------------
// Parallel case runner
// ---------------------------------------------------------------------------

impl Report {
    /// A fresh report with the same identity, for a worker thread.
    pub fn child(&self) -> Report {
        Report {
            property: self.property.clone(),
            lane: self.lane.clone(),
            seed: self.seed,
            tier: self.tier.clone(),
            rule: self.rule.clone(),
            evaluations: 0,
            distinct: HashSet::new(),
            samples: Vec::new(),
            observed: BTreeMap::new(),
            violations: Vec::new(),
            inconclusive: Vec::new(),
            extra: BTreeMap::new(),
            exhaustive: Vec::new(),
            started: self.started,
        }
    }

    pub fn merge(&mut self, other: Report) {
        self.evaluations += other.evaluations;
        self.distinct.extend(other.distinct);
        for s in other.samples {
            if self.samples.len() < MAX_SAMPLES {
                self.samples.push(s);
            }
        }
        for (k, v) in other.observed {
            *self.observed.entry(k).or_insert(0) += v;
        }
        for v in other.violations {
            if let Some(mine) = self.violations.iter_mut().find(|m| m.sig == v.sig) {
                mine.count += v.count;
                for c in v.cases {
                    if mine.cases.len() < MAX_CASES_PER_SIG {
                        mine.cases.push(c);
                    }
                }
            } else if self.violations.len() < MAX_SIGS + 1 {
                self.violations.push(v);
            }
        }
        for i in other.inconclusive {
            self.inconclusive(i);
        }
        for (k, v) in other.extra {
            self.extra.entry(k).or_insert(v);
        }
    }
}

/// Number of worker threads to use (`--threads N`, default = available cores, 1 under Miri).
pub fn threads(args: &Args) -> usize {
    if cfg!(miri) {
        return 1;
    }
    let default = std::thread::available_parallelism().map(|n| n.get()).unwrap_or(4);
    args.get_u64("threads", default as u64).max(1) as usize
}

/// Run cases `0..n` over worker threads. Each case gets the worker's private report; the
/// reports are merged into `report` afterwards. Cases must derive all randomness from their
/// index so the assignment to threads doesn't matter.
pub fn par_cases(
    report: &mut Report,
    args: &Args,
    n: u64,
    case: impl Fn(u64, &mut Report) + Sync,
) {
    let threads = threads(args).min(n.max(1) as usize);
    if threads <= 1 {
        for i in 0..n {
            case(i, report);
        }
        return;
    }
    let next = AtomicU64::new(0);
    let children: Vec<Report> = std::thread::scope(|s| {
        let handles: Vec<_> = (0..threads)
            .map(|_| {
                let mut child = report.child();
                let next = &next;
                let case = &case;
                s.spawn(move || {
                    loop {
                        // hand out small blocks to balance uneven cases
                        let start = next.fetch_add(16, Ordering::Relaxed);
                        if start >= n {
                            break;
                        }
                        for i in start..(start + 16).min(n) {
                            case(i, &mut child);
                        }
                    }
                    child
                })
            })
            .collect();
        handles.into_iter().map(|h| h.join().expect("worker")).collect()
    });
    for c in children {
        report.merge(c);
    }
}
