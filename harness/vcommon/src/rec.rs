/*!
Recording components plugged into the real `emit` code: a fake clock, a counting rng
that never repeats, and an emitter that snapshots every event it is handed.
*/

use std::{
    ops::ControlFlow,
    sync::{
        atomic::{AtomicBool, AtomicU64, Ordering},
        Arc, Mutex,
    },
    time::Duration,
};

use emit::{Clock, Emitter, Props, Rng, Timestamp};

use crate::{json, stamp, Json};

/// A clock whose reading is set by the harness. `None` readings are scriptable.
#[derive(Clone, Default)]
pub struct FakeClock(Arc<FakeClockInner>);

#[derive(Default)]
struct FakeClockInner {
    nanos: AtomicU64,
    none: AtomicBool,
    reads: AtomicU64,
    // added to the reading after every read (so start/end readings differ)
    step: AtomicU64,
}

impl FakeClock {
    pub fn new(unix_nanos: u64) -> Self {
        let c = FakeClock::default();
        c.set(unix_nanos);
        c
    }

    pub fn set(&self, unix_nanos: u64) {
        self.0.nanos.store(unix_nanos, Ordering::SeqCst);
    }

    pub fn get(&self) -> u64 {
        self.0.nanos.load(Ordering::SeqCst)
    }

    pub fn advance(&self, nanos: u64) {
        self.0.nanos.fetch_add(nanos, Ordering::SeqCst);
    }

    pub fn set_none(&self, none: bool) {
        self.0.none.store(none, Ordering::SeqCst);
    }

    pub fn set_step(&self, nanos: u64) {
        self.0.step.store(nanos, Ordering::SeqCst);
    }

    pub fn reads(&self) -> u64 {
        self.0.reads.load(Ordering::SeqCst)
    }
}

pub fn ts_from_nanos(unix_nanos: u64) -> Timestamp {
    Timestamp::from_unix(Duration::new(
        unix_nanos / 1_000_000_000,
        (unix_nanos % 1_000_000_000) as u32,
    ))
    .expect("timestamp in range")
}

pub fn nanos_of(ts: &Timestamp) -> u64 {
    let d = ts.to_unix();
    d.as_secs() * 1_000_000_000 + d.subsec_nanos() as u64
}

impl Clock for FakeClock {
    fn now(&self) -> Option<Timestamp> {
        self.0.reads.fetch_add(1, Ordering::SeqCst);
        if self.0.none.load(Ordering::SeqCst) {
            return None;
        }
        let step = self.0.step.load(Ordering::SeqCst);
        let n = self.0.nanos.fetch_add(step, Ordering::SeqCst);
        Some(ts_from_nanos(n))
    }
}

/// An rng that hands out 1, 2, 3, … (never zero, never repeats).
#[derive(Clone)]
pub struct CountingRng(Arc<AtomicU64>);

impl CountingRng {
    pub fn new() -> Self {
        CountingRng(Arc::new(AtomicU64::new(1)))
    }

    pub fn starting_at(n: u64) -> Self {
        CountingRng(Arc::new(AtomicU64::new(n.max(1))))
    }

    pub fn calls(&self) -> u64 {
        self.0.load(Ordering::SeqCst) - 1
    }
}

impl Default for CountingRng {
    fn default() -> Self {
        Self::new()
    }
}

impl Rng for CountingRng {
    fn fill<A: AsMut<[u8]>>(&self, mut arr: A) -> Option<A> {
        let n = self.0.fetch_add(1, Ordering::SeqCst);
        let buf = arr.as_mut();
        for b in buf.iter_mut() {
            *b = 0;
        }
        let bytes = n.to_le_bytes();
        let len = buf.len().min(8);
        buf[..len].copy_from_slice(&bytes[..len]);
        Some(arr)
    }
}

/// An owned snapshot of an event as a destination saw it.
#[derive(Clone, Debug, PartialEq)]
pub struct Captured {
    pub stamp: u64,
    pub mdl: String,
    pub tpl: String,
    pub msg: String,
    /// (start, end) unix nanos; start is `Some` only for ranges.
    pub extent: Option<(Option<u64>, u64)>,
    /// (key, Display text, Debug text) in enumeration order, duplicates kept.
    pub props: Vec<(String, String, String)>,
}

impl Captured {
    pub fn of<P: Props>(evt: &emit::Event<P>) -> Captured {
        let mut props = Vec::new();
        let _ = evt.props().for_each(|k, v| {
            props.push((k.get().to_string(), v.to_string(), format!("{:?}", v)));
            ControlFlow::Continue(())
        });
        Captured {
            stamp: stamp(),
            mdl: evt.mdl().to_string(),
            tpl: evt.tpl().to_string(),
            msg: evt.msg().to_string(),
            extent: evt.extent().map(|e| match e.as_range() {
                Some(r) => (Some(nanos_of(&r.start)), nanos_of(&r.end)),
                None => (None, nanos_of(e.as_point())),
            }),
            props,
        }
    }

    /// First value (Display text) for `key`.
    pub fn get(&self, key: &str) -> Option<&str> {
        self.props
            .iter()
            .find(|(k, _, _)| k == key)
            .map(|(_, v, _)| v.as_str())
    }

    pub fn to_json(&self) -> Json {
        json!({
            "mdl": self.mdl, "tpl": self.tpl, "msg": self.msg, "extent": self.extent,
            "props": self.props.iter().map(|(k, v, _)| json!([k, v])).collect::<Vec<_>>(),
        })
    }
}

/// An emitter that records everything it is handed.
#[derive(Clone, Default)]
pub struct Recorder(Arc<RecorderInner>);

#[derive(Default)]
struct RecorderInner {
    events: Mutex<Vec<Captured>>,
    flushes: AtomicU64,
    flush_result: AtomicBool,
}

impl Recorder {
    pub fn new() -> Self {
        let r = Recorder::default();
        r.0.flush_result.store(true, Ordering::SeqCst);
        r
    }

    pub fn set_flush_result(&self, ok: bool) {
        self.0.flush_result.store(ok, Ordering::SeqCst);
    }

    pub fn take(&self) -> Vec<Captured> {
        std::mem::take(&mut *self.0.events.lock().unwrap())
    }

    pub fn len(&self) -> usize {
        self.0.events.lock().unwrap().len()
    }

    pub fn flushes(&self) -> u64 {
        self.0.flushes.load(Ordering::SeqCst)
    }
}

impl Emitter for Recorder {
    fn emit<E: emit::event::ToEvent>(&self, evt: E) {
        let evt = evt.to_event();
        let c = Captured::of(&evt);
        self.0.events.lock().unwrap().push(c);
    }

    fn blocking_flush(&self, _: Duration) -> bool {
        self.0.flushes.fetch_add(1, Ordering::SeqCst);
        self.0.flush_result.load(Ordering::SeqCst)
    }
}
