/*!
C15 — text forms round-trip and every parser is total.

Oracle: every entry point of every parser is called under `catch_unwind` (a panic is a
violation carrying the input); all entry points of one parser must agree; and the outcome is
compared with an independent reference classifier written from the documented grammars:

* `MustAccept(canonical)` – well-formed text: the parser must return the value whose canonical
  text is `canonical`;
* `MustReject` – the shape departs from the grammar (wrong length, wrong/missing separator or
  zone, non-digit / non-hex where one belongs, zero id, empty path segment, …);
* `Unconstrained` – the statement does not settle it (month 13, all-zero ids inside a
  traceparent, lower-case `t`/`z`, non-ASCII identifiers, level leniency beyond the documented
  forms): only totality is checked.

Workloads: round-trips of values (edges + seeded), calendar parts for every day 1970..=9999,
lexicographic order of formatted timestamps, exhaustive short strings, grammar near-misses
(every single substitution / deletion / insertion / multi-byte replacement of well-formed
texts, plus seeded double edits) and random strings.
*/

use std::str::FromStr;

use emit::{Kind, Level, Path, SpanId, Timestamp, TraceId, Value};
use emit_traceparent::{TraceFlags, Traceparent};
use vcommon::*;

/// Partial / optional states of the formatted types (a traceparent without one of its ids, extents,
/// span contexts, typed values captured and cast back, path storage forms): see the module text.
#[path = "../shared/c15_partial.rs"]
mod partial;

#[derive(Clone, Copy, Debug, PartialEq, Eq, Hash)]
enum P {
    Ts,
    Trace,
    Span,
    Flags,
    Tp,
    Level,
    Kind,
    Path,
}

const ALL: [P; 8] = [P::Ts, P::Trace, P::Span, P::Flags, P::Tp, P::Level, P::Kind, P::Path];

impl P {
    fn name(self) -> &'static str {
        match self {
            P::Ts => "timestamp",
            P::Trace => "trace_id",
            P::Span => "span_id",
            P::Flags => "trace_flags",
            P::Tp => "traceparent",
            P::Level => "level",
            P::Kind => "kind",
            P::Path => "path",
        }
    }

    fn from_name(n: &str) -> Option<P> {
        ALL.iter().copied().find(|p| p.name() == n)
    }

    fn entries(self) -> &'static [&'static str] {
        match self {
            // `value_cast_<carrier>`: the text arrives as a property value that is not a borrowed `&str` - copied into
            // an owned / shared buffer, or the Display output of a foreign type - and is cast to the typed form
            P::Ts => &[
                "try_from_str", "from_str", "parse_display", "value_cast", "value_parse",
                "value_cast_owned", "value_cast_shared", "value_cast_display",
            ],
            P::Trace | P::Span => &[
                "from_str", "try_from_hex", "try_from_hex_slice", "value_cast",
                "value_cast_owned", "value_cast_shared", "value_cast_display",
            ],
            P::Flags => &["from_str", "try_from_hex_slice"],
            P::Tp => &["try_from_str", "from_str"],
            P::Level | P::Kind => &[
                "try_from_str", "from_str", "value_cast", "value_cast_owned", "value_cast_shared", "value_cast_display",
            ],
            // a `Path<'v>` borrows its text from the value, so a Display-backed value cannot be cast to one (None by
            // construction, not a parser verdict): no `value_cast_display` entry for paths
            P::Path => &["is_valid_path", "new_ref", "value_cast", "value_cast_owned", "value_cast_shared"],
        }
    }

    /// Call entry point `e` on `s`; `Some(canonical text)` if accepted.
    fn call(self, e: usize, s: &str) -> Option<String> {
        fn ts(t: Timestamp) -> String {
            format!("{}", t)
        }
        /// Cast the text through carrier `c` (0 owned buffer, 1 shared buffer, 2 Display of a foreign type).
        fn via<T: for<'a> emit::value::FromValue<'a>>(c: usize, s: &str) -> Option<T> {
            struct Foreign<'a>(&'a str);
            impl<'a> std::fmt::Display for Foreign<'a> {
                fn fmt(&self, f: &mut std::fmt::Formatter) -> std::fmt::Result {
                    f.write_str(self.0)
                }
            }
            match c {
                0 => Value::from(s).to_owned().by_ref().cast::<T>(),
                1 => Value::from(s).to_shared().by_ref().cast::<T>(),
                _ => Value::from_display(&Foreign(s)).cast::<T>(),
            }
        }
        match (self, e) {
            (P::Ts, 5..=7) => via::<Timestamp>(e - 5, s).map(ts),
            (P::Trace, 4..=6) => via::<TraceId>(e - 4, s).map(|v| v.to_string()),
            (P::Span, 4..=6) => via::<SpanId>(e - 4, s).map(|v| v.to_string()),
            (P::Level, 3..=5) => via::<Level>(e - 3, s).map(|v| v.to_string()),
            (P::Kind, 3..=5) => via::<Kind>(e - 3, s).map(|v| v.to_string()),
            (P::Path, 3) => Value::from(s).to_owned().by_ref().cast::<Path>().map(|v| v.to_string()),
            (P::Path, 4) => Value::from(s).to_shared().by_ref().cast::<Path>().map(|v| v.to_string()),
            (P::Ts, 0) => Timestamp::try_from_str(s).ok().map(ts),
            (P::Ts, 1) => Timestamp::from_str(s).ok().map(ts),
            (P::Ts, 2) => Timestamp::parse(s).ok().map(ts),
            (P::Ts, 3) => Value::from(s).cast::<Timestamp>().map(ts),
            (P::Ts, 4) => Value::from(s).parse::<Timestamp>().map(ts),
            (P::Trace, 0) => TraceId::from_str(s).ok().map(|v| v.to_string()),
            (P::Trace, 1) => TraceId::try_from_hex(s).ok().map(|v| v.to_string()),
            (P::Trace, 2) => TraceId::try_from_hex_slice(s.as_bytes()).ok().map(|v| v.to_string()),
            (P::Trace, 3) => Value::from(s).cast::<TraceId>().map(|v| v.to_string()),
            (P::Span, 0) => SpanId::from_str(s).ok().map(|v| v.to_string()),
            (P::Span, 1) => SpanId::try_from_hex(s).ok().map(|v| v.to_string()),
            (P::Span, 2) => SpanId::try_from_hex_slice(s.as_bytes()).ok().map(|v| v.to_string()),
            (P::Span, 3) => Value::from(s).cast::<SpanId>().map(|v| v.to_string()),
            (P::Flags, 0) => TraceFlags::from_str(s).ok().map(|v| v.to_string()),
            (P::Flags, 1) => TraceFlags::try_from_hex_slice(s.as_bytes()).ok().map(|v| v.to_string()),
            (P::Tp, 0) => Traceparent::try_from_str(s).ok().map(|v| v.to_string()),
            (P::Tp, 1) => Traceparent::from_str(s).ok().map(|v| v.to_string()),
            (P::Level, 0) => Level::try_from_str(s).ok().map(|v| v.to_string()),
            (P::Level, 1) => Level::from_str(s).ok().map(|v| v.to_string()),
            (P::Level, 2) => Value::from(s).cast::<Level>().map(|v| v.to_string()),
            (P::Kind, 0) => Kind::try_from_str(s).ok().map(|v| v.to_string()),
            (P::Kind, 1) => Kind::from_str(s).ok().map(|v| v.to_string()),
            (P::Kind, 2) => Value::from(s).cast::<Kind>().map(|v| v.to_string()),
            (P::Path, 0) => emit_core::path::is_valid_path(s).then(|| s.to_string()),
            (P::Path, 1) => Path::new_ref(s).ok().map(|v| v.to_string()),
            (P::Path, 2) => Value::from(s).cast::<Path>().map(|v| v.to_string()),
            _ => unreachable!(),
        }
    }
}

// ---------------------------------------------------------------------------
// reference classifiers (independent of the implementation)
// ---------------------------------------------------------------------------

#[derive(Debug, PartialEq)]
enum Expect {
    MustAccept(String),
    MustReject,
    Unconstrained,
}

fn is_leap(y: i64) -> bool {
    (y % 4 == 0 && y % 100 != 0) || y % 400 == 0
}

fn days_in_month(y: i64, m: i64) -> i64 {
    match m {
        1 | 3 | 5 | 7 | 8 | 10 | 12 => 31,
        4 | 6 | 9 | 11 => 30,
        _ => {
            if is_leap(y) {
                29
            } else {
                28
            }
        }
    }
}

/// Howard Hinnant's days_from_civil.
fn days_from_civil(y: i64, m: i64, d: i64) -> i64 {
    let y = if m <= 2 { y - 1 } else { y };
    let era = if y >= 0 { y } else { y - 399 } / 400;
    let yoe = y - era * 400;
    let doy = (153 * (if m > 2 { m - 3 } else { m + 9 }) + 2) / 5 + d - 1;
    let doe = yoe * 365 + yoe / 4 - yoe / 100 + doy;
    era * 146097 + doe - 719468
}

fn civil_from_days(z: i64) -> (i64, i64, i64) {
    let z = z + 719468;
    let era = if z >= 0 { z } else { z - 146096 } / 146097;
    let doe = z - era * 146097;
    let yoe = (doe - doe / 1460 + doe / 36524 - doe / 146096) / 365;
    let y = yoe + era * 400;
    let doy = doe - (365 * yoe + yoe / 4 - yoe / 100);
    let mp = (5 * doy + 2) / 153;
    let d = doy - (153 * mp + 2) / 5 + 1;
    let m = if mp < 10 { mp + 3 } else { mp - 9 };
    (if m <= 2 { y + 1 } else { y }, m, d)
}

fn fmt_ref(unix_nanos: u128, precision: usize) -> String {
    let secs = (unix_nanos / 1_000_000_000) as i64;
    let nanos = (unix_nanos % 1_000_000_000) as u32;
    let (y, m, d) = civil_from_days(secs.div_euclid(86400));
    let rem = secs.rem_euclid(86400);
    let mut s = format!(
        "{:04}-{:02}-{:02}T{:02}:{:02}:{:02}",
        y,
        m,
        d,
        rem / 3600,
        rem / 60 % 60,
        rem % 60
    );
    if precision > 0 {
        let frac = format!("{:09}", nanos);
        s.push('.');
        s.push_str(&frac[..precision.min(9)]);
    }
    s.push('Z');
    s
}

const MAX_NANOS: u128 = 253_402_300_799u128 * 1_000_000_000 + 999_999_999; // 9999-12-31T23:59:59.999999999Z

fn classify_ts(s: &str) -> Expect {
    let b = s.as_bytes();
    let digit = |i: usize| b.get(i).map(|c| c.is_ascii_digit()).unwrap_or(false);
    // shape: dddd-dd-ddTdd:dd:dd(.d{1,9})?Z
    let base_ok = b.len() >= 20
        && (0..4).all(digit)
        && b[4] == b'-'
        && digit(5)
        && digit(6)
        && b[7] == b'-'
        && digit(8)
        && digit(9)
        && digit(11)
        && digit(12)
        && b[13] == b':'
        && digit(14)
        && digit(15)
        && b[16] == b':'
        && digit(17)
        && digit(18);
    if !base_ok {
        // lower-case `t` is allowed by RFC 3339 but not documented here: only settle it when the
        // departure is elsewhere
        if b.len() >= 20 && b[10] == b't' {
            let mut fixed = s.as_bytes().to_vec();
            fixed[10] = b'T';
            if let Ok(f) = std::str::from_utf8(&fixed) {
                if classify_ts(f) != Expect::MustReject {
                    return Expect::Unconstrained;
                }
            }
        }
        return Expect::MustReject;
    }
    let sep_t = b[10];
    let tail = &b[19..];
    let (frac, zone): (&[u8], u8) = if tail.len() == 1 {
        (&[], tail[0])
    } else {
        if tail[0] != b'.' {
            return Expect::MustReject;
        }
        (&tail[1..tail.len() - 1], tail[tail.len() - 1])
    };
    if tail.len() > 1 && (frac.is_empty() || frac.len() > 9 || !frac.iter().all(|c| c.is_ascii_digit())) {
        return Expect::MustReject;
    }
    if sep_t != b'T' || zone != b'Z' {
        if (sep_t == b'T' || sep_t == b't') && (zone == b'Z' || zone == b'z') {
            return Expect::Unconstrained;
        }
        return Expect::MustReject;
    }
    let num = |r: std::ops::Range<usize>| s[r].parse::<i64>().unwrap();
    let (y, mo, d, h, mi, se) = (num(0..4), num(5..7), num(8..10), num(11..13), num(14..16), num(17..19));
    if y < 1970 || mo < 1 || mo > 12 || d < 1 || d > days_in_month(y, mo) || h > 23 || mi > 59 || se > 59 {
        // digits in the right places but not a calendar instant in range: not settled
        return Expect::Unconstrained;
    }
    let mut nanos: u128 = 0;
    for (i, c) in frac.iter().enumerate() {
        nanos += (c - b'0') as u128 * 10u128.pow(8 - i as u32);
    }
    let secs = days_from_civil(y, mo, d) * 86400 + h * 3600 + mi * 60 + se;
    Expect::MustAccept(fmt_ref(secs as u128 * 1_000_000_000 + nanos, 9))
}

fn classify_hex(s: &str, len: usize, nonzero: bool) -> Expect {
    let b = s.as_bytes();
    if b.len() == len && b.iter().all(|c| c.is_ascii_hexdigit()) && (!nonzero || b.iter().any(|c| *c != b'0')) {
        Expect::MustAccept(s.to_ascii_lowercase())
    } else {
        Expect::MustReject
    }
}

fn classify_tp(s: &str) -> Expect {
    let b = s.as_bytes();
    if b.len() != 55 || !s.is_ascii() {
        return Expect::MustReject;
    }
    if &b[0..3] != b"00-" || b[35] != b'-' || b[52] != b'-' {
        return Expect::MustReject;
    }
    let hex = |r: &[u8]| r.iter().all(|c| c.is_ascii_hexdigit());
    if !hex(&b[3..35]) || !hex(&b[36..52]) || !hex(&b[53..55]) {
        return Expect::MustReject;
    }
    if b[3..35].iter().all(|c| *c == b'0') || b[36..52].iter().all(|c| *c == b'0') {
        return Expect::Unconstrained;
    }
    Expect::MustAccept(s.to_ascii_lowercase())
}

fn classify_path(s: &str) -> Expect {
    if s.is_empty() {
        return Expect::MustReject;
    }
    let segs: Vec<&str> = s.split("::").collect();
    if segs.iter().any(|g| g.is_empty() || g.contains(':')) {
        return Expect::MustReject;
    }
    let mut all_simple = true;
    for g in &segs {
        for (i, c) in g.chars().enumerate() {
            if c.is_ascii() {
                if !(c.is_ascii_alphanumeric() || c == '_') {
                    return Expect::MustReject;
                }
                if i == 0 && !c.is_ascii_alphabetic() {
                    all_simple = false;
                }
            } else {
                all_simple = false;
            }
        }
    }
    if all_simple {
        Expect::MustAccept(s.to_string())
    } else {
        Expect::Unconstrained
    }
}

const LEVEL_WORDS: [(&str, &str); 6] = [
    ("DEBUG", "debug"),
    ("DBG", "debug"),
    ("INFORMATION", "info"),
    ("WARNING", "warn"),
    ("WRN", "warn"),
    ("ERROR", "error"),
];

fn classify_level(s: &str) -> Expect {
    // documented forms: any case, any non-empty prefix of the long names / abbreviations,
    // optionally followed by non-letter printable ASCII (`INFO1`, `inf(13)`)
    let letters: String = s.chars().take_while(|c| c.is_ascii_alphabetic()).collect();
    let rest = &s[letters.len()..];
    if letters.is_empty() || !rest.chars().all(|c| c.is_ascii() && !c.is_ascii_control() && !c.is_ascii_alphabetic() && c != ' ') {
        return Expect::Unconstrained;
    }
    let up = letters.to_ascii_uppercase();
    for (w, l) in LEVEL_WORDS {
        if w.starts_with(&up) {
            return Expect::MustAccept(l.to_string());
        }
    }
    Expect::Unconstrained
}

fn classify_kind(s: &str) -> Expect {
    if s.eq_ignore_ascii_case("span") {
        Expect::MustAccept("span".into())
    } else if s.eq_ignore_ascii_case("metric") {
        Expect::MustAccept("metric".into())
    } else {
        Expect::Unconstrained
    }
}

fn classify(p: P, s: &str) -> Expect {
    match p {
        P::Ts => classify_ts(s),
        P::Trace => classify_hex(s, 32, true),
        P::Span => classify_hex(s, 16, true),
        P::Flags => classify_hex(s, 2, false),
        P::Tp => classify_tp(s),
        P::Level => classify_level(s),
        P::Kind => classify_kind(s),
        P::Path => classify_path(s),
    }
}

// ---------------------------------------------------------------------------
// the check
// ---------------------------------------------------------------------------

fn input_class(p: P, s: &str) -> &'static str {
    if !s.is_ascii() {
        "non-ascii"
    } else if s.is_empty() {
        "empty"
    } else {
        match p {
            P::Ts if s.len() < 20 => "short",
            P::Ts if s.len() > 30 => "long",
            _ => "ascii",
        }
    }
}

/// Evaluate one input; `cat` is the generator category. Returns true if accepted.
fn check(r: &mut Report, p: P, s: &str, cat: &str, nontrivial: bool) -> bool {
    r.eval();
    r.observe(&format!("{}:calls", p.name()), p.entries().len() as u64);
    if nontrivial {
        r.nontrivial(&(p, s));
    }
    let case = || json!({"parser": p.name(), "input": s, "category": cat});
    let mut outcomes: Vec<Option<String>> = Vec::new();
    for (e, ename) in p.entries().iter().enumerate() {
        match catch(|| p.call(e, s)) {
            Ok(o) => outcomes.push(o),
            Err(msg) => {
                r.violation(
                    &format!("C15:panic:{}:{}:{}", p.name(), ename, input_class(p, s)),
                    &format!("{}::{} panicked on {:?}: {}", p.name(), ename, s, msg),
                    case(),
                );
                return false;
            }
        }
    }
    if outcomes.iter().any(|o| *o != outcomes[0]) {
        r.violation(
            &format!("C15:entry-points-disagree:{}", p.name()),
            &format!("entry points of {} disagree on {:?}: {:?}", p.name(), s, outcomes),
            case(),
        );
    }
    let got = &outcomes[0];
    match classify(p, s) {
        Expect::MustAccept(want) => {
            r.observe(&format!("{}:must-accept", p.name()), 1);
            match got {
                None => r.violation(
                    &format!("C15:rejects-well-formed:{}", p.name()),
                    &format!("{} rejected well-formed {:?}", p.name(), s),
                    case(),
                ),
                Some(g) if *g != want => r.violation(
                    &format!("C15:wrong-value:{}", p.name()),
                    &format!("{} parsed {:?} as {:?}, expected {:?}", p.name(), s, g, want),
                    case(),
                ),
                _ => {}
            }
        }
        Expect::MustReject => {
            r.observe(&format!("{}:must-reject", p.name()), 1);
            if let Some(g) = got {
                r.violation(
                    &format!("C15:accepts-malformed:{}:{}", p.name(), cat),
                    &format!("{} accepted malformed {:?} as {:?}", p.name(), s, g),
                    case(),
                );
            }
        }
        Expect::Unconstrained => r.observe(&format!("{}:unconstrained", p.name()), 1),
    }
    got.is_some()
}

// ---------------------------------------------------------------------------
// generators
// ---------------------------------------------------------------------------

fn alphabet(p: P) -> &'static [&'static str] {
    match p {
        P::Ts => &["0", "1", "9", "-", "T", ":", ".", "Z", "+", " ", "t", "z", "x", "é", "日"],
        P::Trace | P::Span | P::Flags => &["0", "1", "9", "a", "f", "A", "F", "g", "G", "-", "+", " ", "é", "日"],
        P::Tp => &["0", "1", "a", "f", "F", "g", "-", "+", " ", "é"],
        P::Level => &["i", "I", "n", "N", "f", "F", "o", "O", "d", "e", "w", "r", "1", "(", " ", "é", "b", "g"],
        P::Kind => &["s", "S", "p", "a", "n", "m", "e", "t", "r", "i", "c", " ", "é"],
        P::Path => &["a", "B", "_", "1", ":", " ", "*", "é", "日", "."],
    }
}

fn rand_nanos(g: &mut Rng) -> u128 {
    match g.below(6) {
        0 => g.below(1_000_000_000) as u128,
        1 => MAX_NANOS - g.below(1_000_000_000_000) as u128,
        2 => {
            // around a power of ten
            let p = 10u128.pow(g.below(21) as u32);
            (p + g.below(3) as u128).saturating_sub(1).min(MAX_NANOS)
        }
        3 => {
            // around a day boundary
            let day = g.below(2_932_897) as u128;
            (day * 86_400_000_000_000 + g.below(3) as u128).saturating_sub(1).min(MAX_NANOS)
        }
        _ => ((g.next() as u128) << 64 | g.next() as u128) % (MAX_NANOS + 1),
    }
}

fn well_formed(p: P, g: &mut Rng) -> String {
    match p {
        P::Ts => {
            let n = rand_nanos(g);
            fmt_ref(n, g.below(10) as usize)
        }
        P::Trace => {
            let v = rand_u128(g);
            let s = format!("{:032x}", v);
            if g.chance(1, 4) {
                s.to_ascii_uppercase()
            } else {
                s
            }
        }
        P::Span => {
            let v = rand_u64(g);
            let s = format!("{:016x}", v);
            if g.chance(1, 4) {
                s.to_ascii_uppercase()
            } else {
                s
            }
        }
        P::Flags => format!("{:02x}", g.below(256)),
        P::Tp => format!("00-{:032x}-{:016x}-{:02x}", rand_u128(g), rand_u64(g), g.below(256)),
        P::Level => {
            let (w, _) = LEVEL_WORDS[g.usize(6)];
            let n = 1 + g.usize(w.len());
            let mut s: String = w[..n]
                .chars()
                .map(|c| if g.bool() { c.to_ascii_lowercase() } else { c })
                .collect();
            match g.below(4) {
                0 => s.push_str(&format!("{}", g.below(30))),
                1 => s.push_str(&format!("({})", g.below(30))),
                _ => {}
            }
            s
        }
        P::Kind => {
            let w = if g.bool() { "span" } else { "metric" };
            w.chars().map(|c| if g.chance(1, 3) { c.to_ascii_uppercase() } else { c }).collect()
        }
        P::Path => {
            let n = 1 + g.usize(4);
            let mut segs = Vec::new();
            for _ in 0..n {
                let len = 1 + g.usize(4);
                let mut s = String::new();
                for i in 0..len {
                    let pool: &[u8] = if i == 0 { b"abXz" } else { b"ab1_Z9" };
                    s.push(*g.pick(pool) as char);
                }
                segs.push(s);
            }
            segs.join("::")
        }
    }
}

fn rand_u128(g: &mut Rng) -> u128 {
    match g.below(5) {
        0 => 1,
        1 => u128::MAX,
        2 => 1u128 << g.below(128),
        _ => (((g.next() as u128) << 64) | g.next() as u128).max(1),
    }
}

fn rand_u64(g: &mut Rng) -> u64 {
    match g.below(5) {
        0 => 1,
        1 => u64::MAX,
        2 => 1u64 << g.below(64),
        _ => g.next().max(1),
    }
}

/// Every single edit of `w` over the parser's alphabet.
fn near_misses(p: P, w: &str, full_ascii: bool, out: &mut Vec<String>) {
    let chars: Vec<char> = w.chars().collect();
    let alpha = alphabet(p);
    for i in 0..=chars.len() {
        // insertion
        for a in alpha {
            let mut s: String = chars[..i].iter().collect();
            s.push_str(a);
            s.extend(chars[i..].iter());
            out.push(s);
        }
        if i < chars.len() {
            // deletion
            let mut s: String = chars[..i].iter().collect();
            s.extend(chars[i + 1..].iter());
            out.push(s);
            // substitution (includes multi-byte replacements)
            for a in alpha.iter().chain(["😀"].iter()) {
                let mut s: String = chars[..i].iter().collect();
                s.push_str(a);
                s.extend(chars[i + 1..].iter());
                if s != w {
                    out.push(s);
                }
            }
            // the table-driven parsers (hex ids, flags, traceparent) index a table by byte value:
            // substitute EVERY ASCII byte, control characters included, at every position
            if full_ascii && matches!(p, P::Trace | P::Span | P::Flags | P::Tp) {
                for b in 0u8..128 {
                    let mut s: String = chars[..i].iter().collect();
                    s.push(b as char);
                    s.extend(chars[i + 1..].iter());
                    if s != w {
                        out.push(s);
                    }
                }
            }
        }
    }
}

fn random_string(p: P, g: &mut Rng) -> String {
    let len = g.usize(65);
    let alpha = alphabet(p);
    let mut s = String::new();
    for _ in 0..len {
        match g.below(10) {
            0..=6 => s.push_str(*g.pick(alpha)),
            7 => s.push((g.below(95) as u8 + 32) as char),
            8 => s.push(g.below(32) as u8 as char),
            _ => {
                let c = char::from_u32(g.below(0x11_0000) as u32).unwrap_or('\u{fffd}');
                s.push(c);
            }
        }
    }
    s
}

fn exhaustive_short(r: &mut Report, p: P, max_len: usize) {
    let alpha = alphabet(p);
    let mut idx = vec![0usize; 0];
    // length 0
    check(r, p, "", "exhaustive-short", false);
    for len in 1..=max_len {
        idx.clear();
        idx.resize(len, 0);
        loop {
            let s: String = idx.iter().map(|i| alpha[*i]).collect();
            let accepted = check(r, p, &s, "exhaustive-short", false);
            if accepted {
                r.nontrivial(&(p, s.as_str()));
            }
            // increment
            let mut k = len;
            loop {
                if k == 0 {
                    break;
                }
                k -= 1;
                idx[k] += 1;
                if idx[k] < alpha.len() {
                    break;
                }
                idx[k] = 0;
                if k == 0 {
                    k = usize::MAX;
                    break;
                }
            }
            if k == usize::MAX {
                break;
            }
        }
    }
}

// ---------------------------------------------------------------------------
// round trips
// ---------------------------------------------------------------------------

fn roundtrip_ts(r: &mut Report, nanos: u128) {
    let ts = match Timestamp::from_unix(std::time::Duration::new(
        (nanos / 1_000_000_000) as u64,
        (nanos % 1_000_000_000) as u32,
    )) {
        Some(t) => t,
        None => {
            r.violation(
                "C15:from_unix-rejects-in-range",
                &format!("Timestamp::from_unix rejected in-range instant {}", nanos),
                json!({"roundtrip": "timestamp", "unix_nanos": nanos.to_string()}),
            );
            return;
        }
    };
    for p in 0..=10usize {
        r.eval();
        r.observe("timestamp:roundtrips", 1);
        let case = || json!({"roundtrip": "timestamp", "unix_nanos": nanos.to_string(), "precision": p});
        let res = catch(|| {
            let s = if p == 10 { format!("{}", ts) } else { format!("{:.*}", p, ts) };
            let back = Timestamp::try_from_str(&s).ok();
            let back2 = Value::from(&*s).cast::<Timestamp>();
            (s, back, back2)
        });
        let (s, back, back2) = match res {
            Ok(x) => x,
            Err(m) => {
                r.violation(
                    &format!("C15:panic:timestamp:roundtrip:precision-{}", p.min(9)),
                    &format!("format/parse round trip panicked at precision {}: {}", p, m),
                    case(),
                );
                continue;
            }
        };
        let pp = p.min(9);
        let want_text = fmt_ref(nanos, pp);
        if s != want_text {
            r.violation(
                "C15:format:timestamp",
                &format!("formatted {:?}, reference says {:?}", s, want_text),
                case(),
            );
        }
        let trunc = nanos - nanos % 10u128.pow(9 - pp as u32);
        let want = Timestamp::from_unix(std::time::Duration::new(
            (trunc / 1_000_000_000) as u64,
            (trunc % 1_000_000_000) as u32,
        ));
        if back != want || back2 != want {
            r.violation(
                &format!("C15:roundtrip:timestamp:precision-{}", pp),
                &format!("parse(format(t, {})) = {:?} / {:?}, expected {:?} (text {:?})", p, back, back2, want, s),
                case(),
            );
        }
    }
    r.nontrivial(&("ts-rt", nanos));
}

fn order_check(r: &mut Report, g: &mut Rng, n: usize) {
    let mut v: Vec<u128> = (0..n).map(|_| rand_nanos(g)).collect();
    // add close neighbours so truncation matters
    for i in 0..n / 4 {
        let d = 10u128.pow(g.below(10) as u32);
        v.push((v[i] + d).min(MAX_NANOS));
    }
    v.sort();
    for p in 0..=9usize {
        let texts: Vec<String> = v
            .iter()
            .map(|n| {
                let ts = Timestamp::from_unix(std::time::Duration::new(
                    (*n / 1_000_000_000) as u64,
                    (*n % 1_000_000_000) as u32,
                ))
                .unwrap();
                format!("{:.*}", p, ts)
            })
            .collect();
        for i in 1..v.len() {
            r.eval();
            r.observe("timestamp:order-pairs", 1);
            let unit = 10u128.pow(9 - p as u32);
            let (a, b) = (v[i - 1] / unit, v[i] / unit);
            if a.cmp(&b) != texts[i - 1].cmp(&texts[i]) {
                r.violation(
                    "C15:order:timestamp",
                    &format!(
                        "instants {} vs {} order {:?} but texts {:?} vs {:?} order {:?}",
                        v[i - 1],
                        v[i],
                        a.cmp(&b),
                        texts[i - 1],
                        texts[i],
                        texts[i - 1].cmp(&texts[i])
                    ),
                    json!({"order": [v[i-1].to_string(), v[i].to_string()], "precision": p}),
                );
            }
        }
    }
}

/// Calendar parts both ways for days `from..to` since the epoch, three times of day.
fn parts_days(r: &mut Report, from: i64, to: i64) {
    for day in from..to {
        let (y, m, d) = civil_from_days(day);
        for (k, sod) in [0i64, 43_200 + 61, 86_399].iter().enumerate() {
            r.eval();
            let secs = day * 86400 + sod;
            let nanos = if k == 2 { 999_999_999 } else { k as u32 * 7 };
            let case = || json!({"parts": {"day": day, "second_of_day": sod, "nanos": nanos}});
            let res = catch(|| {
                let ts = Timestamp::from_unix(std::time::Duration::new(secs as u64, nanos)).unwrap();
                let parts = ts.to_parts();
                let back = Timestamp::from_parts(parts);
                (ts, parts, back)
            });
            let (ts, parts, back) = match res {
                Ok(x) => x,
                Err(msg) => {
                    r.violation("C15:panic:timestamp:parts", &format!("to_parts/from_parts panicked: {}", msg), case());
                    continue;
                }
            };
            let ok = parts.years as i64 == y
                && parts.months as i64 == m
                && parts.days as i64 == d
                && parts.hours as i64 == sod / 3600
                && parts.minutes as i64 == sod / 60 % 60
                && parts.seconds as i64 == sod % 60
                && parts.nanos == nanos;
            if !ok {
                r.violation(
                    "C15:parts:to_parts",
                    &format!("to_parts({}) = {:?}, reference {}-{}-{} sod {}", secs, parts, y, m, d, sod),
                    case(),
                );
            }
            if back != Some(ts) {
                r.violation(
                    "C15:parts:from_parts",
                    &format!("from_parts(to_parts(t)) = {:?}, expected {:?}", back, ts),
                    case(),
                );
            }
        }
        r.observe("timestamp:days-converted", 1);
    }
}

fn roundtrip_ids(r: &mut Report, g: &mut Rng) {
    r.eval();
    let t = rand_u128(g);
    let s = rand_u64(g);
    let f = g.below(256) as u8;
    let case = || json!({"roundtrip": "ids", "trace": format!("{:032x}", t), "span": format!("{:016x}", s), "flags": f});
    let res = catch(|| {
        let tid = TraceId::from_u128(t).unwrap();
        let sid = SpanId::from_u64(s).unwrap();
        let fl = TraceFlags::from_u8(f);
        let tp = Traceparent::new(Some(tid), Some(sid), fl);
        let ttext = tid.to_string();
        let stext = sid.to_string();
        let tptext = tp.to_string();
        let mut bad = Vec::new();
        if ttext != format!("{:032x}", t) {
            bad.push(format!("trace id text {:?}", ttext));
        }
        if stext != format!("{:016x}", s) {
            bad.push(format!("span id text {:?}", stext));
        }
        for cand in [ttext.clone(), ttext.to_ascii_uppercase()] {
            if TraceId::from_str(&cand).ok() != Some(tid)
                || TraceId::try_from_hex(&cand).ok() != Some(tid)
                || Value::from(&*cand).cast::<TraceId>() != Some(tid)
            {
                bad.push(format!("trace id {:?} does not parse back", cand));
            }
        }
        for cand in [stext.clone(), stext.to_ascii_uppercase()] {
            if SpanId::from_str(&cand).ok() != Some(sid)
                || SpanId::try_from_hex(&cand).ok() != Some(sid)
                || Value::from(&*cand).cast::<SpanId>() != Some(sid)
            {
                bad.push(format!("span id {:?} does not parse back", cand));
            }
        }
        if Value::from(t).cast::<TraceId>() != Some(tid) || Value::from(s).cast::<SpanId>() != Some(sid) {
            bad.push("integer value does not cast to the id".to_string());
        }
        if tid.to_u128() != t || sid.to_u64() != s || TraceId::from_bytes(tid.to_bytes()) != Some(tid) || SpanId::from_bytes(sid.to_bytes()) != Some(sid) {
            bad.push("numeric / byte round trip".to_string());
        }
        if tptext != format!("00-{:032x}-{:016x}-{:02x}", t, s, f) {
            bad.push(format!("traceparent text {:?}", tptext));
        }
        match Traceparent::try_from_str(&tptext) {
            Ok(back) => {
                if back != tp || back.trace_id() != Some(&tid) || back.span_id() != Some(&sid) || back.trace_flags().to_u8() != f {
                    bad.push(format!("traceparent {:?} parsed back as {}", tptext, back));
                }
            }
            Err(e) => bad.push(format!("traceparent {:?} rejected: {}", tptext, e)),
        }
        bad
    });
    r.observe("ids:roundtrips", 1);
    r.nontrivial(&("ids-rt", t, s, f));
    match res {
        Ok(bad) => {
            for b in bad {
                r.violation("C15:roundtrip:ids", &b, case());
            }
        }
        Err(m) => r.violation("C15:panic:ids:roundtrip", &format!("id round trip panicked: {}", m), case()),
    }
}

/// The `&[u8]` entry points take arbitrary bytes, not only UTF-8: every byte value at every position of a
/// well-formed id / flags text must be rejected unless it is a hex digit (and the id stays non-zero).
fn raw_byte_substitutions(r: &mut Report, g: &mut Rng) {
    let t = format!("{:032x}", rand_u128(g) | 1);
    let s = format!("{:016x}", rand_u64(g) | 1);
    let f = format!("{:02x}", g.below(256));
    for (name, text) in [("trace_id", t), ("span_id", s), ("trace_flags", f)] {
        let orig = text.as_bytes().to_vec();
        for i in 0..orig.len() {
            for b in 0u16..256 {
                let b = b as u8;
                let mut bytes = orig.clone();
                bytes[i] = b;
                r.eval();
                r.observe(&format!("{}:raw-byte-substitutions", name), 1);
                let got = catch(|| match name {
                    "trace_id" => TraceId::try_from_hex_slice(&bytes).ok().map(|v| v.to_string()),
                    "span_id" => SpanId::try_from_hex_slice(&bytes).ok().map(|v| v.to_string()),
                    _ => TraceFlags::try_from_hex_slice(&bytes).ok().map(|v| v.to_string()),
                });
                let case = || json!({"parser": name, "entry": "try_from_hex_slice", "bytes": show_bytes(&bytes), "position": i, "byte": b});
                let want = if b.is_ascii_hexdigit() && (name == "trace_flags" || bytes.iter().any(|c| *c != b'0')) {
                    Some(String::from_utf8(bytes.clone()).unwrap().to_ascii_lowercase())
                } else {
                    None
                };
                match got {
                    Err(m) => r.violation(&format!("C15:panic:{}:try_from_hex_slice:raw-byte", name), &format!("try_from_hex_slice panicked on {}: {}", show_bytes(&bytes), m), case()),
                    Ok(g) if g != want => r.violation(
                        &format!("C15:{}:{}:raw-byte", if want.is_none() { "accepts-malformed" } else { "rejects-well-formed" }, name),
                        &format!("{}::try_from_hex_slice({}) = {:?}, expected {:?}", name, show_bytes(&bytes), g, want),
                        case(),
                    ),
                    _ => {}
                }
            }
        }
    }
}

fn fixed_roundtrips(r: &mut Report) {
    // all 256 flag bytes
    for f in 0..=255u8 {
        r.eval();
        let fl = TraceFlags::from_u8(f);
        let text = fl.to_string();
        let ok = text == format!("{:02x}", f)
            && TraceFlags::from_str(&text).ok() == Some(fl)
            && TraceFlags::from_str(&text.to_ascii_uppercase()).ok() == Some(fl)
            && fl.to_u8() == f
            && fl.is_sampled() == (f & 1 == 1);
        r.observe("flags:roundtrips", 1);
        r.nontrivial(&("flags-rt", f));
        if !ok {
            r.violation("C15:roundtrip:flags", &format!("flags {:02x} do not round trip (text {:?})", f, text), json!({"flags": f}));
        }
    }
    r.exhaustive("all 256 trace flag bytes");
    for l in [Level::Debug, Level::Info, Level::Warn, Level::Error] {
        r.eval();
        let text = l.to_string();
        let ok = Level::from_str(&text).ok() == Some(l)
            && Level::try_from_str(&text.to_ascii_uppercase()).ok() == Some(l)
            && Value::from(&*text).cast::<Level>() == Some(l)
            && Value::from_any(&l).cast::<Level>() == Some(l);
        r.observe("level:roundtrips", 1);
        r.nontrivial(&("level-rt", text.as_str()));
        if !ok {
            r.violation("C15:roundtrip:level", &format!("level {} does not round trip", text), json!({"level": text}));
        }
    }
    for k in [Kind::Span, Kind::Metric] {
        r.eval();
        let text = k.to_string();
        let ok = Kind::from_str(&text).ok() == Some(k)
            && Kind::try_from_str(&text.to_ascii_uppercase()).ok() == Some(k)
            && Value::from(&*text).cast::<Kind>() == Some(k)
            && Value::from_any(&k).cast::<Kind>() == Some(k);
        r.observe("kind:roundtrips", 1);
        r.nontrivial(&("kind-rt", text.as_str()));
        if !ok {
            r.violation("C15:roundtrip:kind", &format!("kind {} does not round trip", text), json!({"kind": text}));
        }
    }
    r.exhaustive("all levels and kinds");
    // exhaustive two-character flag strings over all of ASCII
    for a in 0..128u8 {
        for b in 0..128u8 {
            let s: String = [a as char, b as char].iter().collect();
            let acc = check(r, P::Flags, &s, "exhaustive-ascii-2", false);
            if acc {
                r.nontrivial(&(P::Flags, s.as_str()));
            }
        }
    }
    r.exhaustive("all 16384 two-character ASCII strings through the trace flags parser");
}

fn main() {
    let args = Args::parse();
    let mut r = Report::new(
        "C15",
        &args,
        "one evaluation = one input through every entry point of one parser (or one value round trip / calendar conversion / ordered pair); \
         non-trivial = distinct (parser, input) pairs that are well-formed or exactly one edit away from a well-formed text, plus distinct round-tripped values \
         (fully populated ones and partial ones: traceparents without one or both ids, span contexts, extents, tracestates, path forms)",
    );

    if let Some(path) = &args.replay {
        let case = load_replay(path);
        if let (Some(p), Some(input)) = (case.get("parser").and_then(|v| v.as_str()).and_then(P::from_name), case.get("input").and_then(|v| v.as_str())) {
            check(&mut r, p, input, "replay", true);
            check(&mut r, p, input, "replay-again", true);
        } else if let Some(m) = partial::TpModel::from_case(&case) {
            let ids = (m.trace.unwrap_or(1), m.span.unwrap_or(1));
            partial::judge_tp(&mut r, m, ids, "replay", None);
        } else if case.get("partial").is_some() {
            // the other partial-state sections are small and deterministic: rerun them
            partial::fixed(&mut r);
            if let (Some(a), Some(b)) = (
                case.get("start").and_then(|v| v.as_str()).and_then(|v| v.parse::<u128>().ok()),
                case.get("end").and_then(|v| v.as_str()).and_then(|v| v.parse::<u128>().ok()),
            ) {
                partial::extents_over(&mut r, a, b, "replay");
            }
        } else if let Some(n) = case.get("unix_nanos").and_then(|v| v.as_str()).and_then(|v| v.parse::<u128>().ok()) {
            roundtrip_ts(&mut r, n);
            roundtrip_ts(&mut r, n.saturating_sub(1));
        } else {
            // anything else: rerun the deterministic fixed sections
            fixed_roundtrips(&mut r);
            parts_days(&mut r, 0, 2_932_897);
        }
        std::process::exit(r.finish());
    }

    let seed = args.seed;

    // 1. fixed / exhaustive sections
    fixed_roundtrips(&mut r);
    for p in ALL {
        let max = match p {
            P::Path | P::Level => 4,
            _ => 3,
        };
        exhaustive_short(&mut r, p, if cfg!(miri) { 1 } else { max });
        r.exhaustive(&format!("all strings of length <= {} over the {} alphabet", max, p.name()));
    }

    // 2. calendar parts for every day 1970-01-01 ..= 9999-12-31
    let total_days: i64 = 2_932_897;
    let day_blocks = if cfg!(miri) { 2 } else { 512 };
    par_cases(&mut r, &args, day_blocks, |i, r| {
        let from = total_days * i as i64 / day_blocks as i64;
        let to = total_days * (i as i64 + 1) / day_blocks as i64;
        if cfg!(miri) {
            parts_days(r, from, from + 40);
        } else {
            parts_days(r, from, to);
        }
    });
    if !cfg!(miri) {
        r.exhaustive("calendar parts both ways for every day 1970-01-01..=9999-12-31 at three times of day");
    }

    // 3. timestamp round trips: edges + seeded
    let mut edges: Vec<u128> = vec![0, 1, 999_999_999, 1_000_000_000, MAX_NANOS, MAX_NANOS - 1, MAX_NANOS - 999_999_999];
    for e in 0..22 {
        let p = 10u128.pow(e);
        for d in [p - 1, p, p + 1] {
            if d <= MAX_NANOS {
                edges.push(d);
            }
        }
    }
    for (y, m, d) in [(1972, 2, 29), (2000, 2, 29), (2100, 2, 28), (2100, 3, 1), (1999, 12, 31), (2000, 1, 1), (2400, 2, 29), (9999, 12, 31), (2038, 1, 19)] {
        let day = days_from_civil(y, m, d) as u128;
        edges.push(day * 86_400_000_000_000);
        edges.push(day * 86_400_000_000_000 + 86_399_999_999_999);
    }
    for e in edges {
        roundtrip_ts(&mut r, e);
    }
    let n_rt = args.n(300_000, 3_000_000);
    par_cases(&mut r, &args, n_rt, |i, r| {
        let mut g = Rng::stream(seed, &[15, 1, i]);
        roundtrip_ts(r, rand_nanos(&mut g));
        roundtrip_ids(r, &mut g);
    });

    // 3a. partial / optional states: traceparents without one or both ids x all flags, values the crate builds for
    // incoming contexts, tracestates, span contexts, extents, timestamp edge constants, captured typed values, path forms
    partial::fixed(&mut r);
    let n_partial = args.n(150_000, 3_000_000);
    par_cases(&mut r, &args, n_partial, |i, r| {
        let mut g = Rng::stream(seed, &[15, 6, i]);
        partial::seeded(r, &mut g);
    });

    // 3b. every byte value at every position, through the byte-slice entry points
    let n_raw = args.n(8, 200);
    par_cases(&mut r, &args, n_raw, |i, r| {
        let mut g = Rng::stream(seed, &[15, 5, i]);
        raw_byte_substitutions(r, &mut g);
    });

    // 4. lexicographic order
    let n_ord = args.n(8, 200);
    par_cases(&mut r, &args, n_ord, |i, r| {
        let mut g = Rng::stream(seed, &[15, 2, i]);
        order_check(r, &mut g, if cfg!(miri) { 40 } else { 2_000 });
    });

    // 5. grammar near-misses
    let n_nm = args.n(3_000, 40_000);
    par_cases(&mut r, &args, n_nm, |i, r| {
        let mut g = Rng::stream(seed, &[15, 3, i]);
        let p = ALL[(i % 8) as usize];
        let w = well_formed(p, &mut g);
        check(r, p, &w, "well-formed", true);
        if r.wants_sample() && i < 8 {
            let w2 = w.clone();
            r.sample(move || json!({"parser": p.name(), "well_formed": w2, "category": "seed text for near-misses"}));
        }
        let mut nm = Vec::new();
        near_misses(p, &w, i % 64 < 8, &mut nm);
        for s in &nm {
            check(r, p, s, "near-miss-1", true);
        }
        // seeded double edits
        for _ in 0..(nm.len() / 8).max(4) {
            let a = g.pick(&nm).clone();
            let mut nm2 = Vec::new();
            if a.chars().count() <= 70 {
                near_misses(p, &a, false, &mut nm2);
                if !nm2.is_empty() {
                    let s = g.pick(&nm2).clone();
                    check(r, p, &s, "near-miss-2", false);
                }
            }
        }
    });

    // 6. random strings
    let n_rand = args.n(3_000_000, 200_000_000);
    let blocks = (n_rand / 1000).max(1);
    par_cases(&mut r, &args, blocks, |i, r| {
        let mut g = Rng::stream(seed, &[15, 4, i]);
        for k in 0..1000 {
            let p = ALL[((i + k) % 8) as usize];
            let s = random_string(p, &mut g);
            check(r, p, &s, "random", false);
            if k == 0 && i < 2 {
                let s2 = s.clone();
                r.sample(move || json!({"parser": p.name(), "input": s2, "category": "random"}));
            }
        }
    });

    std::process::exit(r.finish());
}
