/*!
C01 — an event is emitted iff the effective filter accepts the fully built event.

A case is (leaf tables, ambient context, filter tree F, optional call-site filter tree W, destination
tree D) evaluated on several seeded events through every emission path: `Runtime::emit`,
`emit_core::emit`, `Emitter for Runtime`, `emit!(evt: …)` / `emit!("…")` call sites with and without
`when:`, an `AmbientSlot` runtime, and direct `Emitter::emit`. A reference interpreter over a model
event computes, from the property statement alone, the delivery multiset of every recording leaf,
the snapshot each leaf must see (module, template, rendered message, extent = own or the clock's
reading, ordered props = own ++ ambient) and the answer of every filter tree. Filter leaves are
predicates over the whole event and record what they were shown, so a filter evaluated on a
partially built event is seen directly.

Trees: dynamic random trees (every node behind `Box<dyn Erased… + Send + Sync>`) and a table of
statically typed generic compositions, each of which is also evaluated through erased views.
*/

#[path = "../shared/c01_model.rs"]
mod c01_model;
#[path = "../shared/c01_trees.rs"]
mod c01_trees;
#[path = "../shared/c01_reentrant.rs"]
mod c01_reentrant;
#[cfg(not(miri))]
#[path = "../shared/c01_shared_rt.rs"]
mod c01_shared_rt;

use std::{
    collections::BTreeMap,
    ops::ControlFlow,
    sync::{Arc, OnceLock},
    time::Duration,
};

use emit::{
    clock::ErasedClock,
    ctxt::ErasedCtxt,
    emitter::ErasedEmitter,
    filter::ErasedFilter,
    platform::thread_local_ctxt::ThreadLocalCtxt,
    runtime::{AmbientSlot, Runtime},
    Ctxt, Emitter, Empty, Filter, Path, Props,
};
use vcommon::*;

use c01_model::*;
use c01_trees::*;

const KEYS: [&str; 8] = ["a", "b", "c", "k1", "lvl", "é", "n", "f"];
/// values for `lvl`: documented level spellings and texts that are no level at all
const LVL_STRS: [&str; 9] = ["error", "warn", "info", "debug", "verbose", "WRN", "x", "", "Err1"];
const MDLS: [&str; 5] = ["m", "m::a", "m::b", "app::é", "other"];
const STRS: [&str; 4] = ["x", "y", "warn", ""];
const TEXTS: [&str; 4] = ["evt ", "x=", " and ", "é "];
const OWN_TS: [u64; 5] = [0, 1, 999_999_999, 1_000_000_000, 1_700_000_000_123_456_789];
const CLOCK_BASE: u64 = 4_000_000_000_000_000_000;

/// keys that only ever occur in ambient properties, never among an event's own
const AMB_KEYS: [&str; 2] = ["amb", "trace"];

const N_FLEAVES: usize = 8;
const N_RECS: usize = 4;
const N_NENVS: usize = 3;

// ---------------------------------------------------------------------------
// generators
// ---------------------------------------------------------------------------

fn gen_val(g: &mut Rng) -> MVal {
    match g.below(3) {
        0 => MVal::I(g.irange(-2, 5)),
        1 => MVal::B(g.bool()),
        _ => MVal::S(g.pick(&STRS).to_string()),
    }
}

/// A value for `key`: the same key carries values of different types / castability in an
/// event's own properties and in the ambient ones (a `lvl` that is no level, an `n` that is text).
fn gen_val_for(g: &mut Rng, key: &str) -> MVal {
    match key {
        "lvl" if g.chance(7, 10) => MVal::S(g.pick(&LVL_STRS).to_string()),
        "n" => match g.below(10) {
            0..=3 => MVal::I(g.irange(-2, 5)),
            4..=5 => MVal::S("text".to_string()),
            6 => MVal::S("5".to_string()),
            _ => gen_val(g),
        },
        // floats only ever live under `f`, and no integer does (int <-> float casts are C19's)
        "f" => match g.below(4) {
            0..=1 => MVal::F(g.irange(-2, 3) as i32),
            2 => MVal::S("text".to_string()),
            _ => MVal::B(g.bool()),
        },
        _ => gen_val(g),
    }
}

fn gen_key(g: &mut Rng) -> String {
    g.pick(&KEYS).to_string()
}

fn gen_props(g: &mut Rng, max: usize, unique: bool) -> MProps {
    let n = g.usize(max + 1);
    let mut out: MProps = Vec::new();
    for _ in 0..n {
        let k = gen_key(g);
        if unique && out.iter().any(|(pk, _)| *pk == k) {
            continue;
        }
        let v = gen_val_for(g, &k);
        out.push((k, v));
    }
    out
}

fn gen_ts(g: &mut Rng) -> u64 {
    match g.below(12) {
        0 => 0,      // Timestamp::MIN
        1 => TS_MAX, // Timestamp::MAX
        _ => *g.pick(&OWN_TS),
    }
}

/// Extents of every shape: absent, point, forward / empty / BACKWARDS range, MIN / MAX ends.
fn gen_ext(g: &mut Rng) -> MExt {
    match g.below(12) {
        0..=3 => MExt::None,
        4..=6 => MExt::Point(gen_ts(g)),
        7 => {
            let a = gen_ts(g);
            MExt::Range(a, a)
        }
        8..=9 => {
            // end before start: a span whose clock stepped back
            let (a, b) = (gen_ts(g), gen_ts(g));
            MExt::Range(a.max(b), a.min(b))
        }
        _ => {
            let (a, b) = (gen_ts(g), gen_ts(g));
            MExt::Range(a.min(b), a.max(b))
        }
    }
}

fn gen_clock(g: &mut Rng) -> Option<u64> {
    if g.chance(1, 4) {
        None
    } else {
        Some(CLOCK_BASE + g.below(3))
    }
}

fn gen_event(g: &mut Rng) -> MEvent {
    let mut tpl = Vec::new();
    for _ in 0..g.usize(5) {
        if g.bool() {
            tpl.push(TPart::Text(g.pick(&TEXTS).to_string()));
        } else if g.chance(1, 8) {
            tpl.push(TPart::Hole("zz".to_string()));
        } else {
            tpl.push(TPart::Hole(gen_key(g)));
        }
    }
    MEvent { mdl: g.pick(&MDLS).to_string(), tpl, ext: gen_ext(g), props: gen_props(g, 6, false) }
}

/// Leaves that read properties through typed lookups (`pull::<T>`) and the stock level filters.
fn gen_typed_leaf(g: &mut Rng) -> FLeaf {
    match g.below(12) {
        0..=1 => return FLeaf::MinLevel(g.usize(4), if g.chance(1, 3) { Some(g.usize(4)) } else { None }),
        2 => {
            let n = 1 + g.usize(3);
            let regs = (0..n).map(|_| (g.pick(&["m", "m::a", "app", "other", "m::b::c"]).to_string(), g.usize(4))).collect();
            return FLeaf::PathMap(regs, if g.bool() { Some(g.usize(4)) } else { None });
        }
        _ => {}
    }
    let (key, ty) = match g.below(12) {
        0..=2 => ("lvl", Ty::Level),
        3 => ("lvl", if g.bool() { Ty::Str } else { Ty::String }),
        4..=5 => ("n", Ty::I64),
        6 => ("n", if g.bool() { Ty::U64 } else { Ty::Str }),
        7..=8 => ("f", Ty::F64),
        9 => (*g.pick(&["a", "b", "c"]), Ty::I64),
        10 => (*g.pick(&["a", "b", "c"]), Ty::Bool),
        _ => (*g.pick(&["a", "b", "k1"]), Ty::String),
    };
    // what the typed read must yield for the leaf to accept: a value of that type from the key's
    // pool, or nothing at all
    let want = if g.chance(1, 4) {
        None
    } else {
        let mut found = None;
        for _ in 0..8 {
            if let Some(t) = gen_val_for(g, key).cast(ty) {
                found = Some(t);
                break;
            }
        }
        found
    };
    FLeaf::Pull(key.to_string(), ty, want)
}

fn gen_fleaf(g: &mut Rng) -> FLeaf {
    // leaves that decide on ambient-only properties, and stateful ones
    match g.below(100) {
        0..=7 => return FLeaf::HasKey(g.pick(&AMB_KEYS).to_string()),
        8..=13 => return FLeaf::LacksKey(g.pick(&AMB_KEYS).to_string()),
        14..=17 => return FLeaf::FirstEq(g.pick(&AMB_KEYS).to_string(), gen_val(g).text()),
        18..=20 => return FLeaf::LacksKey(gen_key(g)),
        21..=28 => return FLeaf::Budget(g.below(40)),
        29..=52 => return gen_typed_leaf(g),
        // leaves that decide on keys of the renamed-key call sites
        // leaves that decide on the extent beyond its kind
        63..=72 => {
            return match g.below(8) {
                0 => FLeaf::StartPresent,
                1..=2 => FLeaf::StartEq(gen_ts(g)),
                3 => FLeaf::HasLen(g.bool()),
                4 => FLeaf::LenEq(*g.pick(&[0u64, 1, 999_999_998, 999_999_999, 1_000_000_000])),
                5..=6 => FLeaf::Backwards,
                _ => FLeaf::TsEq(gen_ts(g)),
            };
        }
        53..=62 => {
            let k = g.pick(&SITE_KEYS).to_string();
            return match g.below(5) {
                0..=1 => FLeaf::HasKey(k),
                2 => FLeaf::LacksKey(k),
                3 => FLeaf::FirstEq(k, gen_val(g).text()),
                _ => {
                    let ty = *g.pick(&[Ty::I64, Ty::Bool, Ty::Str, Ty::String]);
                    let want = if g.chance(1, 4) { None } else { (0..8).find_map(|_| gen_val(g).cast(ty)) };
                    FLeaf::Pull(k, ty, want)
                }
            };
        }
        _ => {}
    }
    match g.below(100) {
        0..=7 => FLeaf::Const(g.bool()),
        8..=32 => FLeaf::HasKey(gen_key(g)),
        33..=54 => FLeaf::FirstEq(gen_key(g), gen_val(g).text()),
        55..=64 => FLeaf::MdlEq(g.pick(&MDLS).to_string()),
        65..=74 => FLeaf::ExtKind(g.below(3) as u8),
        75..=82 => {
            if g.bool() {
                FLeaf::TsEq(*g.pick(&OWN_TS))
            } else {
                FLeaf::TsEq(CLOCK_BASE + g.below(3))
            }
        }
        83..=89 => FLeaf::Count(g.usize(9)),
        _ => FLeaf::KeyAt(g.usize(7), gen_key(g)),
    }
}

fn gen_f(g: &mut Rng, depth: u32) -> FTree {
    if depth == 0 || g.chance(1, 4) {
        return match g.below(10) {
            0 => FTree::Empty,
            1 => FTree::Always,
            2..=5 => FTree::Leaf(g.usize(N_FLEAVES), false),
            _ => FTree::Leaf(g.usize(N_FLEAVES), true),
        };
    }
    let sub = |g: &mut Rng| Box::new(gen_f(g, depth - 1));
    match g.below(14) {
        0..=3 => FTree::And(sub(g), sub(g)),
        4..=7 => FTree::Or(sub(g), sub(g)),
        8 => FTree::Some(sub(g)),
        9 => FTree::None,
        10 => FTree::Boxed(sub(g)),
        11 => FTree::Arced(sub(g)),
        12 => FTree::Ref(sub(g)),
        _ => FTree::Dyn(sub(g)),
    }
}

fn gen_wrap_kind(g: &mut Rng) -> WrapKind {
    match g.below(8) {
        0..=1 => WrapKind::Pass,
        2 => WrapKind::Drop,
        3 => WrapKind::Twice,
        4..=5 => {
            let k = gen_key(g);
            let v = gen_val_for(g, &k);
            WrapKind::AddProp(k, v)
        }
        _ => WrapKind::StripExtent,
    }
}

fn gen_e(g: &mut Rng, depth: u32) -> ETree {
    if depth == 0 || g.chance(1, 5) {
        return match g.below(10) {
            0 => ETree::Empty,
            1..=5 => ETree::Leaf(g.usize(N_RECS), false),
            _ => ETree::Leaf(g.usize(N_RECS), true),
        };
    }
    let sub = |g: &mut Rng| Box::new(gen_e(g, depth - 1));
    match g.below(20) {
        0..=6 => ETree::And(sub(g), sub(g)),
        7 => ETree::Some(sub(g)),
        8 => ETree::None,
        9 => ETree::Boxed(sub(g)),
        10 => ETree::Arced(sub(g)),
        11 => ETree::Ref(sub(g)),
        12 => ETree::Dyn(sub(g)),
        13..=15 => {
            let inner = sub(g);
            let fd = g.below(3) as u32;
            ETree::WrapFilter(inner, gen_f(g, fd), g.chance(1, 3))
        }
        16..=17 => {
            let inner = sub(g);
            ETree::WrapFn(inner, gen_wrap_kind(g))
        }
        _ => {
            let inner = sub(g);
            let fd = g.below(3) as u32;
            ETree::Rt(inner, gen_f(g, fd), g.usize(N_NENVS))
        }
    }
}

fn gen_cx(g: &mut Rng) -> Cx {
    Cx::new(
        (0..N_FLEAVES).map(|_| gen_fleaf(g)).collect(),
        (0..N_RECS).map(|_| !g.chance(1, 5)).collect(),
        (0..N_NENVS).map(|_| NEnv { ambient: gen_ambient(g, 2, false), clock: gen_clock(g) }).collect(),
    )
}

/// Ambient properties: keys shared with events' own plus, half of the time, ambient-only keys.
fn gen_ambient(g: &mut Rng, max: usize, unique: bool) -> MProps {
    let mut props = gen_props(g, max, unique);
    for k in AMB_KEYS {
        if g.chance(2, 5) {
            let at = g.usize(props.len() + 1);
            props.insert(at, (k.to_string(), gen_val(g)));
        }
    }
    props
}

#[derive(Clone, Copy, Debug, PartialEq)]
enum CtxtKind {
    Fixed,
    ThreadLocal,
    Empty,
}


// ---------------------------------------------------------------------------
// hand-written macro call sites whose properties are renamed with #[emit::key]: the macro's
// property list is ordered by IDENTIFIER while the keys sort elsewhere, and `get` / `pull` (what
// filters use) and `for_each` (what destinations enumerate) are separate code paths
// ---------------------------------------------------------------------------

/// keys filters may look for at those sites: renamed keys, unrenamed neighbours, and identifiers
/// that are NOT keys once renamed
const SITE_KEYS: [&str; 14] = ["user.name", "request_id", "a", "b", "m.mid", "alpha", "omega", "zz.last", "b0", "b1", "opt", "kept", "name", "z"];

/// The values one event feeds into a call site.
#[derive(Clone, Debug)]
struct SiteVals {
    m: [MVal; 6],
    o: [Option<MVal>; 6],
}

fn gen_site_vals(g: &mut Rng) -> SiteVals {
    SiteVals {
        m: [gen_val(g), gen_val(g), gen_val(g), gen_val(g), gen_val(g), gen_val(g)],
        o: [(); 6].map(|_| if g.bool() { Some(gen_val(g)) } else { None }),
    }
}

macro_rules! renamed_sites {
    ($v:ident; $( $idx:literal : $emit:ident / $evt:ident, $lvl:expr, $tpl:tt, model [$( ($key:literal, $val:expr) ),*], { $($props:tt)* } ; )*) => {
        const N_RENAMED_SITES: usize = [$($idx),*].len();

        /// The final (key, value) pairs the site attaches, in no particular order; absent optional /
        /// cfg'd-out properties are left out. `lvl` is what the level macros add.
        fn renamed_site_model(site: usize, $v: &SiteVals) -> (&'static str, Vec<(String, MVal)>) {
            match site {
                $( $idx => {
                    let mut out: Vec<(String, MVal)> = Vec::new();
                    $( if let Some(val) = $val { out.push(($key.to_string(), val)); } )*
                    if let Some(l) = $lvl { out.push(("lvl".to_string(), MVal::Lvl(l))); }
                    ($tpl, out)
                } )*
                _ => unreachable!(),
            }
        }

        /// The site's own property list as the macro builds it, enumerated: (key, text) in its order.
        fn renamed_site_readback(site: usize, $v: &SiteVals) -> Vec<(String, String)> {
            let mut out = Vec::new();
            match site {
                $( $idx => {
                    let e = emit::$evt!($tpl, $($props)*);
                    let _ = e.props().for_each(|k, v| {
                        out.push((k.get().to_string(), v.to_string()));
                        ControlFlow::Continue(())
                    });
                } )*
                _ => unreachable!(),
            }
            out
        }

        /// Emit through the site: directly (`emit!` / level macro) or as `emit!(evt: evt!(..))`.
        fn renamed_site_emit<E: Emitter, F: Filter, C: Ctxt, T: emit::Clock, R: emit::rng::Rng, W: Filter>(
            site: usize,
            via_evt: bool,
            rt: &Runtime<E, F, C, T, R>,
            when: Option<&W>,
            mdl: &str,
            ext: MExt,
            base: &[(String, MVal)],
            $v: &SiteVals,
        ) {
            let mdl = Path::new_ref_raw(mdl);
            let ext = ext.real();
            match (site, via_evt, when) {
                $(
                    ($idx, false, Some(w)) => emit::$emit!(rt: rt, mdl: mdl, extent: ext, props: base, when: w, $tpl, $($props)*),
                    ($idx, false, None) => emit::$emit!(rt: rt, mdl: mdl, extent: ext, props: base, $tpl, $($props)*),
                    ($idx, true, Some(w)) => emit::emit!(rt: rt, when: w, evt: emit::$evt!(mdl: mdl, extent: ext, props: base, $tpl, $($props)*)),
                    ($idx, true, None) => emit::emit!(rt: rt, evt: emit::$evt!(mdl: mdl, extent: ext, props: base, $tpl, $($props)*)),
                )*
                _ => unreachable!(),
            }
        }
    };
}

renamed_sites! { v;
    // identifiers: name, request_id          keys: user.name, request_id   (renamed key sorts last)
    0: emit / evt, None::<usize>, "renamed site zero",
        model [("user.name", Some(v.m[0].clone())), ("request_id", Some(v.m[1].clone()))],
        { #[emit::key("user.name")] #[emit::as_value] name: v.m[0], #[emit::as_value] request_id: v.m[1] };
    // identifiers: b, z                      keys: b, a                    (renamed key sorts first)
    1: emit / evt, None::<usize>, "renamed site one",
        model [("a", Some(v.m[0].clone())), ("b", Some(v.m[1].clone()))],
        { #[emit::key("a")] #[emit::as_value] z: v.m[0], #[emit::as_value] b: v.m[1] };
    // identifiers: alpha, lvl, omega, zed    keys: alpha, lvl, omega, m.mid (renamed key sorts in the middle)
    2: warn / warn_evt, Some(2usize), "renamed site two",
        model [("alpha", Some(v.m[0].clone())), ("m.mid", Some(v.m[1].clone())), ("omega", Some(v.m[2].clone()))],
        { #[emit::as_value] alpha: v.m[0], #[emit::key("m.mid")] #[emit::as_value] zed: v.m[1], #[emit::as_value] omega: v.m[2] };
    // six properties: two renamed, an optional one, one cfg'd out, one cfg'd in
    3: emit / evt, None::<usize>, "renamed site three",
        model [("zz.last", Some(v.m[0].clone())), ("b1", Some(v.m[1].clone())), ("b0", Some(v.m[2].clone())), ("opt", v.o[3].clone()), ("kept", Some(v.m[5].clone()))],
        { #[emit::key("zz.last")] #[emit::as_value] a1: v.m[0], #[emit::as_value] b1: v.m[1], #[emit::key("b0")] #[emit::as_value] y1: v.m[2],
          #[emit::optional] #[emit::as_value] opt: v.o[3].as_ref(), #[cfg(any())] #[emit::as_value] gone: v.m[4], #[cfg(all())] #[emit::as_value] kept: v.m[5] };
    // every property renamed, one of them optional, keys in reverse identifier order
    4: error / error_evt, Some(3usize), "renamed site four",
        model [("request_id", Some(v.m[0].clone())), ("a", Some(v.m[1].clone())), ("opt", v.o[2].clone())],
        { #[emit::key("request_id")] #[emit::as_value] aaa: v.m[0], #[emit::key("a")] #[emit::as_value] second: v.m[1],
          #[emit::optional] #[emit::key("opt")] #[emit::as_value] third: v.o[2].as_ref() };
    // renamed keys that swap places with each other's identifiers
    5: debug / debug_evt, Some(0usize), "renamed site five",
        model [("b", Some(v.m[0].clone())), ("a", Some(v.m[1].clone())), ("user.name", Some(v.m[2].clone())), ("z", Some(v.m[3].clone()))],
        { #[emit::key("b")] #[emit::as_value] a: v.m[0], #[emit::key("a")] #[emit::as_value] b: v.m[1], #[emit::key("user.name")] #[emit::as_value] m: v.m[2], #[emit::as_value] z: v.m[3] };
}

fn leaf_key(l: &FLeaf) -> Option<&str> {
    match l {
        FLeaf::HasKey(k) | FLeaf::LacksKey(k) | FLeaf::FirstEq(k, _) | FLeaf::Pull(k, _, _) | FLeaf::KeyAt(_, k) => Some(k.as_str()),
        _ => None,
    }
}

/// The model event a renamed-key site hands to the pipeline: the site's own properties in the
/// order the macro enumerates them (read back; it must be exactly the final key set), then the
/// base properties. `Err` names what is wrong with the enumeration.
fn renamed_site_event(site: usize, raw: &MEvent, v: &SiteVals) -> Result<MEvent, String> {
    let (tpl, model) = renamed_site_model(site, v);
    let seen = renamed_site_readback(site, v);
    let mut a: Vec<(String, String)> = model.iter().map(|(k, v)| (k.clone(), v.text())).collect();
    let mut b = seen.clone();
    a.sort();
    b.sort();
    if a != b {
        return Err(format!("the site's property list enumerates {:?}, its final keys and values are {:?}", seen, a));
    }
    let mut props: MProps = seen.iter().map(|(k, _)| model.iter().find(|(mk, _)| mk == k).unwrap().clone()).collect();
    props.extend(raw.props.iter().cloned());
    Ok(MEvent { mdl: raw.mdl.clone(), tpl: vec![TPart::Text(tpl.to_string())], ext: raw.ext, props })
}

// ---------------------------------------------------------------------------
// comparing what was observed with what the model expects
// ---------------------------------------------------------------------------

fn group(v: &[(usize, Snap)]) -> BTreeMap<usize, Vec<Snap>> {
    let mut m: BTreeMap<usize, Vec<Snap>> = BTreeMap::new();
    for (id, s) in v {
        m.entry(*id).or_default().push(s.clone());
    }
    for s in m.values_mut() {
        s.sort();
    }
    m
}

/// `Some((class, detail))` when the delivery multisets differ.
fn compare_deliveries(got: &[(usize, Snap)], want: &[(usize, Snap)]) -> Option<(String, String)> {
    let g = group(got);
    let w = group(want);
    for id in 0..N_RECS {
        let e = Vec::new();
        let gs = g.get(&id).unwrap_or(&e);
        let ws = w.get(&id).unwrap_or(&e);
        if gs == ws {
            continue;
        }
        let class = if ws.is_empty() {
            "unexpected-delivery".to_string()
        } else if gs.is_empty() {
            "missing-delivery".to_string()
        } else if gs.len() != ws.len() {
            if gs.len() > ws.len() { "delivered-too-often".to_string() } else { "delivered-too-rarely".to_string() }
        } else {
            let (a, b) = gs.iter().zip(ws.iter()).find(|(a, b)| a != b).unwrap();
            let d = a.diff(b);
            if d.starts_with("extent") { format!("{}:{}", d, b.ext.shape()) } else { format!("snapshot:{}", d) }
        };
        let detail = format!(
            "leaf {} received {} event(s) {:?}, the model expects {} {:?}",
            id,
            gs.len(),
            gs.iter().map(|s| s.json().to_string()).collect::<Vec<_>>(),
            ws.len(),
            ws.iter().map(|s| s.json().to_string()).collect::<Vec<_>>()
        );
        return Some((class, clip(detail)));
    }
    None
}

fn clip(mut s: String) -> String {
    if s.len() > 900 {
        let mut n = 900;
        while !s.is_char_boundary(n) {
            n -= 1;
        }
        s.truncate(n);
        s.push_str(" …");
    }
    s
}

/// The evaluations logged by the filter leaves must be exactly those Rust's `&&` / `||` over the
/// same trees make: per leaf the same number of `matches` calls (short circuit is part of the
/// logical definition of `and_when` / `or_when`), each shown the event fully built for the position
/// the leaf sits in, each answered per the leaf's predicate and state. `trees` are the filter trees
/// in play (for naming the combinator that failed to short-circuit), `ev` the event they judge.
/// Returns (signature class, detail).
fn check_evaluations(log: &Log, cx: &Cx, want: &[(usize, Snap, bool)], trees: &[&FTree], ev: &MEvent) -> Option<(String, String)> {
    let seen = log.fseen.lock().unwrap();
    for idx in 0..cx.fleaves.len() {
        let got_n = seen.iter().filter(|(i, _, _)| *i == idx).count();
        let want_n = want.iter().filter(|(i, _, _)| *i == idx).count();
        if got_n > want_n {
            let class = match trees.iter().find_map(|t| t.decided_left_of(idx, cx, ev)) {
                Some(k) => format!("short-circuit:{}", k),
                None => "evaluated-too-often".to_string(),
            };
            return Some((class, format!("filter leaf {} ({:?}) was evaluated {} time(s), `&&`/`||` over the same tree evaluate it {} time(s)", idx, cx.fleaves[idx], got_n, want_n)));
        }
        if got_n < want_n {
            return Some(("not-evaluated".to_string(), format!("filter leaf {} ({:?}) was evaluated {} time(s), `&&`/`||` over the same tree evaluate it {} time(s)", idx, cx.fleaves[idx], got_n, want_n)));
        }
    }
    let mut g: Vec<&(usize, Snap, bool)> = seen.iter().collect();
    let mut w: Vec<&(usize, Snap, bool)> = want.iter().collect();
    g.sort();
    w.sort();
    for (a, b) in g.iter().zip(w.iter()) {
        if a != b {
            let class = if a.1 != b.1 {
                let d = a.1.diff(&b.1);
                if d.starts_with("extent") { format!("saw:{}:{}", d, b.1.ext.shape()) } else { format!("saw:{}", d) }
            } else {
                "answer".to_string()
            };
            return Some((
                class,
                clip(format!("filter leaf {} ({:?}) was shown {} and answered {}; it must be shown {} and answer {}", a.0, cx.fleaves[a.0], a.1.json(), a.2, b.1.json(), b.2)),
            ));
        }
    }
    None
}

// ---------------------------------------------------------------------------
// one dynamic case
// ---------------------------------------------------------------------------

struct Case {
    seed: u64,
    index: u64,
    cx: Cx,
    f: FTree,
    w: Option<FTree>,
    d: ETree,
    ambient: MProps,
    kind: CtxtKind,
    events: Vec<(MEvent, Option<u64>)>,
    flush_timeout: Duration,
    /// a statically typed (non-erased) filter over table leaves: shape and leaf indices
    typed_shape: u64,
    typed_leaves: [usize; 3],
    /// per event: what it feeds into the renamed-key call sites
    site_vals: Vec<SiteVals>,
}

fn gen_case(seed: u64, index: u64) -> Case {
    let mut g = Rng::stream(seed, &[1, 1, index]);
    let small = cfg!(miri);
    let cx = gen_cx(&mut g);
    let kind = match g.below(20) {
        0..=9 => CtxtKind::Fixed,
        10..=16 => CtxtKind::ThreadLocal,
        _ => CtxtKind::Empty,
    };
    let ambient = match kind {
        CtxtKind::Fixed => gen_ambient(&mut g, 4, false),
        CtxtKind::ThreadLocal => gen_ambient(&mut g, 4, true),
        CtxtKind::Empty => Vec::new(),
    };
    let max_depth = if small { 3 } else { 5 };
    let fd = g.below(max_depth + 1) as u32;
    let f = gen_f(&mut g, fd);
    let w = if g.bool() {
        let wd = g.below(max_depth) as u32;
        Some(gen_f(&mut g, wd))
    } else {
        None
    };
    let dd = g.below(max_depth + 1) as u32;
    let d = gen_e(&mut g, dd);
    let k = if small { 2 } else { 6 };
    let events = (0..k).map(|_| (gen_event(&mut g), gen_clock(&mut g))).collect();
    let flush_timeout = Duration::from_millis(g.below(10_000));
    let typed_shape = g.below(3);
    let typed_leaves = [g.usize(N_FLEAVES), g.usize(N_FLEAVES), g.usize(N_FLEAVES)];
    let site_vals = (0..k).map(|_| gen_site_vals(&mut g)).collect();
    Case { seed, index, cx, f, w, d, ambient, kind, events, flush_timeout, typed_shape, typed_leaves, site_vals }
}

impl Case {
    fn json(&self, path: &str, ev: Option<usize>) -> Json {
        json!({
            "section": "dynamic", "seed": self.seed, "index": self.index, "path": path, "event_index": ev,
            "event": ev.map(|i| format!("{:?}", self.events[i])),
            "ctxt": format!("{:?}", self.kind), "ambient": format!("{:?}", self.ambient),
            "filter": format!("{:?}", self.f), "when": format!("{:?}", self.w), "destinations": format!("{:?}", self.d),
            "filter_leaves": format!("{:?}", self.cx.fleaves), "flush_ok": format!("{:?}", self.cx.flush_ok),
            "nested_envs": format!("{:?}", self.cx.nenvs),
        })
    }
}

fn tl_ctxt() -> ThreadLocalCtxt {
    static TL: OnceLock<ThreadLocalCtxt> = OnceLock::new();
    *TL.get_or_init(ThreadLocalCtxt::new)
}

/// Exits the thread-local frame even when a path panics.
struct TlGuard(Option<<ThreadLocalCtxt as Ctxt>::Frame>);

impl Drop for TlGuard {
    fn drop(&mut self) {
        if let Some(mut frame) = self.0.take() {
            tl_ctxt().exit(&mut frame);
            tl_ctxt().close(frame);
        }
    }
}

fn dyn_case(r: &mut Report, seed: u64, index: u64) {
    let case = gen_case(seed, index);
    match case.kind {
        CtxtKind::Fixed => {
            let ctxt = FixedCtxt::new(case.ambient.clone());
            let probe = ctxt.clone();
            let amb = case.ambient.clone();
            drive(r, &case, ctxt, &|| Some(probe.calls()), &amb);
        }
        CtxtKind::Empty => drive(r, &case, Empty, &|| None, &Vec::new()),
        CtxtKind::ThreadLocal => {
            let ctxt = tl_ctxt();
            // one or two nested frames with disjoint keys (overriding is C03's business)
            let split = case.ambient.len() / 2;
            let mut outer = ctxt.open_root(&case.ambient[..split]);
            ctxt.enter(&mut outer);
            let _g1 = TlGuard(Some(outer));
            let mut inner = ctxt.open_push(&case.ambient[split..]);
            ctxt.enter(&mut inner);
            let _g2 = TlGuard(Some(inner));
            // the ambient order is the context's own (hash map); read it back once and only
            // judge the case if it holds exactly what was pushed
            let mut seen: MProps = Vec::new();
            let mut texts = Vec::new();
            ctxt.with_current(|c| {
                let _ = c.for_each(|k, v| {
                    texts.push((k.get().to_string(), v.to_string()));
                    ControlFlow::Continue(())
                });
            });
            for (k, t) in &texts {
                if let Some((_, v)) = case.ambient.iter().find(|(ak, av)| ak == k && av.text() == *t) {
                    seen.push((k.clone(), v.clone()));
                }
            }
            if seen.len() != case.ambient.len() || texts.len() != case.ambient.len() {
                r.observe("thread-local-ctxt:not-judged", 1);
                return;
            }
            drive(r, &case, ctxt, &|| None, &seen);
        }
    }
}

/// Outcome of running one path under `catch`.
struct Ran {
    deliveries: Vec<(usize, Snap)>,
    clock_reads: u64,
    ctxt_calls: Option<u64>,
}

fn drive<C>(r: &mut Report, case: &Case, ctxt: C, ctxt_calls: &dyn Fn() -> Option<u64>, ambient: &MProps)
where
    C: Ctxt + Clone + Send + Sync + 'static,
    C::Frame: Send + 'static,
{
    let cx = &case.cx;
    let log = cx.log.clone();
    let clk = Clk::new(None);
    let rt = Runtime::build(build_e(&case.d, cx), build_f(&case.f, cx), ctxt.clone(), clk.clone(), Empty);
    let w_real: Option<DynF> = case.w.as_ref().map(|w| build_f(w, cx));
    let slot = AmbientSlot::new();
    let slot_ok = slot
        .init(Runtime::build(build_e(&case.d, cx), build_f(&case.f, cx), ctxt.clone(), clk.clone(), Empty))
        .is_some();
    if !slot_ok {
        r.violation("C01:ambient-slot:init-refused", "a fresh AmbientSlot refused its first init", case.json("slot-init", None));
    }
    let srt = slot.get();

    let mut shape = String::new();
    case.f.shape(&mut shape);
    shape.push('|');
    if let Some(w) = &case.w {
        w.shape(&mut shape);
    }
    shape.push('|');
    case.d.shape(&mut shape);

    let mut accepts = 0u64;
    let mut rejects = 0u64;
    let mut delivered = 0u64;

    for (ei, (raw, clock)) in case.events.iter().enumerate() {
        clk.set(*clock);
        let full = raw.built(ambient, *clock);
        r.observe(&format!("event-extent:{}", raw.ext.shape()), 1);

        // ---- the filter trees evaluated directly on the built event, through several views
        for (which, tree) in [("runtime-filter", Some(&case.f)), ("call-site-filter", case.w.as_ref())] {
            let Some(tree) = tree else { continue };
            let real: &DynF = if which == "runtime-filter" { rt.filter() } else { w_real.as_ref().unwrap() };
            for view in ["box-dyn", "ref-dyn", "ref-dyn-plain", "erased-event"] {
                r.eval();
                log.clear();
                let mut exp = Expect::default();
                let want = feval(tree, cx, &full, &mut exp);
                let got = catch(|| {
                    full.with_real(|evt| match view {
                        "box-dyn" => real.matches(evt),
                        "ref-dyn" => (&**real as &(dyn ErasedFilter + Send + Sync)).matches(evt),
                        "ref-dyn-plain" => (&**real as &dyn ErasedFilter).matches(evt),
                        _ => real.matches(evt.erase()),
                    })
                });
                r.observe("filter-tree:direct-evaluations", 1);
                match got {
                    Err(m) => r.violation(
                        &format!("C01:panic:filter-direct:{}", view),
                        &format!("evaluating the {} panicked: {}", which, m),
                        case.json("filter-direct", Some(ei)),
                    ),
                    Ok(g) => {
                        if let Some((class, detail)) = check_evaluations(&log, cx, &exp.evals, &[tree], &full) {
                            r.violation(&format!("C01:filter:{}:filter-direct", class), &detail, case.json("filter-direct", Some(ei)));
                        } else if g != want {
                            cx.resync();
                            let culprit = min_failing_f(tree, cx, &full);
                            r.violation(
                                &format!("C01:filter-answer:{}:{}", view, culprit),
                                &format!("{} answered {} on the built event, its logical definition says {} (smallest disagreeing subtree: {})", which, g, want, culprit),
                                case.json("filter-direct", Some(ei)),
                            )
                        }
                    }
                }
                cx.resync();
            }
        }

        // ---- emission paths
        let n_site = raw.first("a").map(|v| v.text().len() as i64).unwrap_or(7) - 3;
        let site = (case.index as usize + ei) % N_RENAMED_SITES;
        let via_evt = (case.index as usize / N_RENAMED_SITES + ei) % 2 == 1;
        let sv = &case.site_vals[ei];
        let paths: [&str; 12] = [
            "macro-renamed-site",
            "slot-macro-renamed-site",
            "runtime-emit",
            "core-emit",
            "runtime-as-emitter",
            "macro-evt",
            "macro-evt-tpl",
            "macro-site",
            "slot-emit",
            "slot-macro-evt",
            "private-emit",
            "direct",
        ];
        for path in paths {
            r.eval();
            r.observe(&format!("path:{}", path), 1);
            log.clear();
            // what is handed to the pipeline, and which filter is in effect
            let (handed, uses_when) = match path {
                "macro-renamed-site" | "slot-macro-renamed-site" => match renamed_site_event(site, raw, sv) {
                    Ok(ev) => (ev, true),
                    Err(what) => {
                        r.violation(&format!("C01:macro-site-renamed-key:enumeration:site-{}", site), &what, case.json(path, Some(ei)));
                        continue;
                    }
                },
                "macro-site" | "private-emit" => {
                    let mut ev = raw.clone();
                    ev.tpl = vec![TPart::Text("site zero ".into()), TPart::Hole("n".into())];
                    ev.props.insert(0, ("n".to_string(), MVal::I(n_site)));
                    (ev, true)
                }
                "macro-evt-tpl" => {
                    let mut ev = raw.clone();
                    ev.tpl = vec![TPart::Text("override ".into()), TPart::Hole("s".into())];
                    ev.props.insert(0, ("s".to_string(), MVal::S("sv".into())));
                    (ev, true)
                }
                "macro-evt" | "slot-macro-evt" => (raw.clone(), true),
                _ => (raw.clone(), false),
            };
            let mut exp = Expect::default();
            let accepted;
            let mut judged_event = handed.clone();
            let mut judged_trees: Vec<&FTree> = Vec::new();
            if path == "direct" {
                accepted = true;
                deliver(&case.d, cx, &handed, &mut exp);
            } else {
                let built = handed.built(ambient, *clock);
                let eff = match (&case.w, uses_when) {
                    (Some(w), true) => w,
                    _ => &case.f,
                };
                // would the same filter, shown the event before the ambient props are attached, decide otherwise?
                let without_ambient = feval_pure(eff, cx, &handed.built(&Vec::new(), *clock));
                accepted = feval(eff, cx, &built, &mut exp);
                if without_ambient != accepted {
                    r.observe(
                        &format!("decided-by-ambient-props:{}:{}", if uses_when && case.w.is_some() { "when" } else { "runtime-filter" }, if accepted { "accept" } else { "reject" }),
                        1,
                    );
                }
                judged_event = built.clone();
                judged_trees.push(eff);
                if accepted {
                    deliver(&case.d, cx, &built, &mut exp);
                    accepts += 1;
                } else {
                    rejects += 1;
                }
            }
            let reads0 = clk.reads();
            let calls0 = ctxt_calls();
            let ran = catch(|| {
                let w = w_real.as_ref();
                raw.with_real(|evt| match path {
                    "macro-renamed-site" => renamed_site_emit(site, via_evt, &rt, w, &raw.mdl, raw.ext, &raw.props[..], sv),
                    "slot-macro-renamed-site" => renamed_site_emit(site, via_evt, srt, w, &raw.mdl, raw.ext, &raw.props[..], sv),
                    "runtime-emit" => rt.emit(evt),
                    "core-emit" => emit_core::emit(rt.emitter(), rt.filter(), rt.ctxt(), rt.clock(), evt),
                    "runtime-as-emitter" => Emitter::emit(&rt, evt),
                    "macro-evt" => match w {
                        Some(w) => emit::emit!(rt: &rt, evt: evt, when: w),
                        None => emit::emit!(rt: &rt, evt: evt),
                    },
                    "macro-evt-tpl" => {
                        let s = "sv";
                        match w {
                            Some(w) => emit::emit!(rt: &rt, evt: evt, when: w, "override {s}"),
                            None => emit::emit!(rt: &rt, evt: evt, "override {s}"),
                        }
                    }
                    "macro-site" => {
                        let n = n_site;
                        let mdl = Path::new_ref_raw(&raw.mdl);
                        let ext = raw.ext.real();
                        let base = &raw.props[..];
                        match w {
                            Some(w) => emit::emit!(rt: &rt, mdl: mdl, extent: ext, props: base, when: w, "site zero {n}"),
                            None => emit::emit!(rt: &rt, mdl: mdl, extent: ext, props: base, "site zero {n}"),
                        }
                    }
                    "private-emit" => {
                        let mdl = Path::new_ref_raw(&raw.mdl);
                        let ext = raw.ext.real();
                        let parts = [emit::template::Part::text("site zero "), emit::template::Part::hole("n")];
                        let tpl = emit::Template::new_ref(&parts);
                        let own = ("n", n_site);
                        emit::__private::__private_emit(&rt, &mdl, w, &ext, &tpl, &raw.props[..], &own)
                    }
                    "slot-emit" => srt.emit(evt),
                    "slot-macro-evt" => match w {
                        Some(w) => emit::emit!(rt: srt, evt: evt, when: w),
                        None => emit::emit!(rt: srt, evt: evt),
                    },
                    "direct" => rt.emitter().emit(evt),
                    _ => unreachable!(),
                });
                Ran {
                    deliveries: log.deliveries.lock().unwrap().clone(),
                    clock_reads: clk.reads() - reads0,
                    ctxt_calls: ctxt_calls().zip(calls0).map(|(a, b)| a - b),
                }
            });
            let ran = match ran {
                Ok(x) => x,
                Err(m) => {
                    r.violation(&format!("C01:panic:{}", path), &format!("emitting through {} panicked: {}", path, m), case.json(path, Some(ei)));
                    cx.resync();
                    continue;
                }
            };
            delivered += ran.deliveries.len() as u64;
            r.observe("leaf-deliveries", ran.deliveries.len() as u64);
            r.observe("filter-leaf-evaluations", log.fseen.lock().unwrap().len() as u64);
            if let Some((class, detail)) = compare_deliveries(&ran.deliveries, &exp.deliveries) {
                let why = if path == "direct" { "direct".to_string() } else { format!("effective-filter-{}", if accepted { "accepts" } else { "rejects" }) };
                r.violation(&format!("C01:delivery:{}:{}:{}", path, why, class), &detail, case.json(path, Some(ei)));
            }
            r.observe("short-circuit:and-right-side-skipped", exp.and_right_skipped);
            r.observe("short-circuit:or-right-side-skipped", exp.or_right_skipped);
            if path.ends_with("renamed-site") {
                r.observe(&format!("renamed-key-site:{}:{}", site, if accepted { "accept" } else { "reject" }), 1);
                r.observe("renamed-key-site:filter-leaf-evaluations", exp.evals.len() as u64);
                r.observe(
                    "renamed-key-site:filter-leaf-evaluations-on-site-keys",
                    exp.evals.iter().filter(|(i, _, _)| leaf_key(&cx.fleaves[*i]).map(|k| SITE_KEYS.contains(&k)).unwrap_or(false)).count() as u64,
                );
            }
            r.observe("typed-leaf:evaluations", exp.typed_evals);
            r.observe("typed-leaf:first-value-fails-cast-later-duplicate-would-pass", exp.typed_first_fails_later_casts);
            r.observe("stateful-leaf:evaluations", exp.stateful_evals);
            r.observe("stateful-leaf:evaluations-after-budget-spent", exp.stateful_exhausted);
            case.d.filter_trees(&mut judged_trees);
            if let Some((class, detail)) = check_evaluations(&log, cx, &exp.evals, &judged_trees, &judged_event) {
                r.violation(&format!("C01:filter:{}:{}", class, path), &detail, case.json(path, Some(ei)));
            }
            cx.resync();
            if path == "direct" {
                if ran.clock_reads != 0 {
                    r.violation("C01:bypass:direct-emit-read-the-clock", &format!("direct Emitter::emit read the runtime clock {} time(s)", ran.clock_reads), case.json(path, Some(ei)));
                }
                if ran.ctxt_calls.unwrap_or(0) != 0 {
                    r.violation("C01:bypass:direct-emit-read-the-context", "direct Emitter::emit consulted the ambient context", case.json(path, Some(ei)));
                }
            }
        }
    }

    // ---- the same destinations behind statically typed (non-erased) filters: as the runtime
    // filter of a typed Runtime and as a call-site `when:`
    {
        let [i, j, k] = case.typed_leaves;
        match case.typed_shape {
            0 => drive_typed(r, case, fl(cx, i), &rt, &clk, ambient),
            1 => drive_typed(r, case, f_or(fl(cx, i), fand(fl(cx, j), fl(cx, k))), &rt, &clk, ambient),
            _ => drive_typed(r, case, fand(fsome(fbox(farc(fl(cx, i)))), f_or(ffn(cx, j), fl(cx, k))), &rt, &clk, ambient),
        }
    }

    // ---- flushing
    for (view, which) in [("destinations", 0), ("runtime-as-emitter", 1), ("slot-runtime", 2), ("slot-emitter", 3)] {
        r.eval();
        log.clear();
        let mut want_ids = Vec::new();
        let want = flush_model(&case.d, cx, &mut want_ids);
        want_ids.sort();
        let t = case.flush_timeout;
        let got = catch(|| match which {
            0 => rt.emitter().blocking_flush(t),
            1 => Emitter::blocking_flush(&rt, t),
            2 => Emitter::blocking_flush(srt, t),
            _ => srt.emitter().blocking_flush(t),
        });
        let flushes = log.flushes.lock().unwrap().clone();
        r.observe("leaf-flushes", flushes.len() as u64);
        let c = || case.json(&format!("flush:{}", view), None);
        match got {
            Err(m) => r.violation(&format!("C01:panic:flush:{}", view), &format!("blocking_flush panicked: {}", m), c()),
            Ok(g) => {
                let mut ids: Vec<usize> = flushes.iter().map(|(i, _)| *i).collect();
                ids.sort();
                if ids != want_ids {
                    let class = if ids.len() < want_ids.len() { "leaf-not-flushed" } else { "leaf-flushed-more-than-once" };
                    r.violation(&format!("C01:flush:{}:{}", view, class), &format!("leaves flushed {:?}, expected each reachable leaf once: {:?}", ids, want_ids), c());
                } else if g != want {
                    r.violation(&format!("C01:flush:{}:result", view), &format!("blocking_flush returned {}, the conjunction over the leaves is {}", g, want), c());
                }
                let sum: Duration = flushes.iter().map(|(_, d)| *d).sum();
                if sum > t {
                    r.violation(&format!("C01:flush:{}:timeout-sum", view), &format!("timeouts handed to the leaves add up to {:?} > {:?}", sum, t), c());
                }
            }
        }
    }

    if accepts > 0 && rejects > 0 && delivered > 0 {
        r.nontrivial(&shape);
        r.observe("cases:both-outcomes-and-deliveries", 1);
    }
    r.observe("effective-filter:accepts", accepts);
    r.observe("effective-filter:rejects", rejects);
    if r.wants_sample() && case.index < 3 {
        r.sample(|| json!({"filter": shape, "ctxt": format!("{:?}", case.kind), "ambient": format!("{:?}", case.ambient), "first_event": format!("{:?}", case.events[0]), "accepts": accepts, "rejects": rejects, "deliveries": delivered}));
    }
}

/// The case's events through a statically typed filter `fp` in generic positions: the filter of a
/// typed `Runtime` (plain emit and an `emit!` call site) and a call-site `when:` over the case's
/// runtime. The leaf then sees the concatenated own ++ ambient props with their concrete types, so
/// typed lookups (`pull`) take the non-erased route.
fn drive_typed<F, E, RF, C>(r: &mut Report, case: &Case, fp: FP<F>, rt: &Runtime<E, RF, C, Clk, Empty>, clk: &Clk, ambient: &MProps)
where
    F: Filter,
    E: Emitter,
    RF: Filter,
    C: Ctxt,
{
    let cx = &case.cx;
    let log = cx.log.clone();
    let typed_rt = Runtime::build(rt.emitter(), &fp.real, rt.ctxt(), rt.clock(), Empty);
    let mut trees: Vec<&FTree> = vec![&fp.model];
    case.d.filter_trees(&mut trees);
    for (ei, (raw, clock)) in case.events.iter().enumerate() {
        clk.set(*clock);
        let n_site = 4i64;
        let site = (case.index as usize + ei + 3) % N_RENAMED_SITES;
        let via_evt = (case.index as usize / N_RENAMED_SITES + ei) % 2 == 0;
        let sv = &case.site_vals[ei];
        for path in ["typed-runtime-emit", "typed-runtime-macro-site", "typed-when", "typed-runtime-renamed-site", "typed-when-renamed-site"] {
            r.eval();
            r.observe(&format!("path:{}", path), 1);
            log.clear();
            let handed = if path.ends_with("renamed-site") {
                match renamed_site_event(site, raw, sv) {
                    Ok(ev) => ev,
                    Err(what) => {
                        r.violation(&format!("C01:macro-site-renamed-key:enumeration:site-{}", site), &what, case.json(path, Some(ei)));
                        continue;
                    }
                }
            } else if path == "typed-runtime-macro-site" {
                let mut ev = raw.clone();
                ev.tpl = vec![TPart::Text("site zero ".into()), TPart::Hole("n".into())];
                ev.props.insert(0, ("n".to_string(), MVal::I(n_site)));
                ev
            } else {
                raw.clone()
            };
            let built = handed.built(ambient, *clock);
            let mut exp = Expect::default();
            let accepted = feval(&fp.model, cx, &built, &mut exp);
            if accepted {
                deliver(&case.d, cx, &built, &mut exp);
            }
            r.observe(if accepted { "typed-position:accepts" } else { "typed-position:rejects" }, 1);
            if path.ends_with("renamed-site") {
                r.observe(&format!("renamed-key-site:{}:{}", site, if accepted { "accept" } else { "reject" }), 1);
                r.observe("renamed-key-site:filter-leaf-evaluations", exp.evals.len() as u64);
                r.observe(
                    "renamed-key-site:filter-leaf-evaluations-on-site-keys",
                    exp.evals.iter().filter(|(i, _, _)| leaf_key(&cx.fleaves[*i]).map(|k| SITE_KEYS.contains(&k)).unwrap_or(false)).count() as u64,
                );
            }
            r.observe("typed-position:typed-leaf-evaluations", exp.typed_evals);
            r.observe("typed-position:first-value-fails-cast-later-duplicate-would-pass", exp.typed_first_fails_later_casts);
            let ran = catch(|| {
                raw.with_real(|evt| match path {
                    "typed-runtime-emit" => typed_rt.emit(evt),
                    "typed-runtime-macro-site" => {
                        let n = n_site;
                        let mdl = Path::new_ref_raw(&raw.mdl);
                        let ext = raw.ext.real();
                        let base = &raw.props[..];
                        emit::emit!(rt: &typed_rt, mdl: mdl, extent: ext, props: base, "site zero {n}")
                    }
                    "typed-runtime-renamed-site" => renamed_site_emit(site, via_evt, &typed_rt, None::<&Empty>, &raw.mdl, raw.ext, &raw.props[..], sv),
                    "typed-when-renamed-site" => renamed_site_emit(site, via_evt, rt, Some(&fp.real), &raw.mdl, raw.ext, &raw.props[..], sv),
                    _ => emit::emit!(rt: rt, evt: evt, when: &fp.real),
                });
                log.deliveries.lock().unwrap().clone()
            });
            match ran {
                Err(m) => r.violation(&format!("C01:panic:{}", path), &format!("emitting through {} panicked: {}", path, m), case.json(path, Some(ei))),
                Ok(d) => {
                    r.observe("leaf-deliveries", d.len() as u64);
                    if let Some((class, detail)) = compare_deliveries(&d, &exp.deliveries) {
                        r.violation(
                            &format!("C01:delivery:{}:effective-filter-{}:{}", path, if accepted { "accepts" } else { "rejects" }, class),
                            &format!("typed filter {:?}: {}", fp.model, detail),
                            case.json(path, Some(ei)),
                        );
                    } else if let Some((class, detail)) = check_evaluations(&log, cx, &exp.evals, &trees, &built) {
                        r.violation(&format!("C01:filter:{}:{}", class, path), &format!("typed filter {:?}: {}", fp.model, detail), case.json(path, Some(ei)));
                    }
                }
            }
            cx.resync();
        }
    }
}

/// Kind of the smallest subtree whose real answer differs from its logical definition.
fn min_failing_f(t: &FTree, cx: &Cx, full: &MEvent) -> &'static str {
    for c in t.children() {
        cx.resync();
        let want = feval(c, cx, full, &mut Expect::default());
        let real = build_f(c, cx);
        let got = catch(|| full.with_real(|evt| real.matches(evt)));
        if got != Ok(want) {
            return min_failing_f(c, cx, full);
        }
    }
    cx.resync();
    t.kind()
}

// ---------------------------------------------------------------------------
// statically typed generic shapes: built from emit's generic combinators with no erasure
// anywhere, then compared with the model AND with erased views of the very same value
// ---------------------------------------------------------------------------

struct StaticRun<'a> {
    r: &'a mut Report,
    seed: u64,
    index: u64,
    name: &'static str,
    ambient: MProps,
    events: Vec<(MEvent, Option<u64>)>,
    timeout: Duration,
}

impl<'a> StaticRun<'a> {
    fn json(&self, what: &str, view: &str, ev: Option<usize>, f: &FTree, e: &ETree, cx: &Cx) -> Json {
        json!({
            "section": "static", "seed": self.seed, "index": self.index, "shape": self.name, "what": what, "view": view,
            "event_index": ev, "event": ev.map(|i| format!("{:?}", self.events[i])), "ambient": format!("{:?}", self.ambient),
            "filter": format!("{:?}", f), "destinations": format!("{:?}", e),
            "filter_leaves": format!("{:?}", cx.fleaves), "flush_ok": format!("{:?}", cx.flush_ok), "nested_envs": format!("{:?}", cx.nenvs),
        })
    }
}

fn check_static<F, E>(run: &mut StaticRun, cx: &Cx, fp: FP<F>, ep: EP<E>)
where
    F: Filter + Send + Sync + 'static,
    E: Emitter + Send + Sync + 'static,
{
    let log = cx.log.clone();
    let (fm, em) = (fp.model, ep.model);
    let f = Arc::new(fp.real);
    let e = Arc::new(ep.real);
    let f_box: DynF = Box::new(f.clone());
    let f_arc: Arc<dyn ErasedFilter + Send + Sync> = f.clone();
    let f_all = build_f(&fm, cx);
    let e_box: DynE = Box::new(e.clone());
    let e_arc: Arc<dyn ErasedEmitter + Send + Sync> = e.clone();
    let e_all = build_e(&em, cx);
    let ctxt = FixedCtxt::new(run.ambient.clone());
    let clk = Clk::new(None);
    const VIEWS: [&str; 6] = ["generic", "ref-dyn", "ref-dyn-plain", "box-dyn", "arc-dyn", "every-node-erased"];
    let mut accepts = 0u64;
    let mut rejects = 0u64;
    let mut delivered = 0u64;

    for ei in 0..run.events.len() {
        let (raw, clock) = run.events[ei].clone();
        clk.set(clock);
        let full = raw.built(&run.ambient, clock);

        // the filter on the built event
        for view in VIEWS {
            run.r.eval();
            run.r.observe("static:filter-evaluations", 1);
            log.clear();
            let mut exp = Expect::default();
            let want = feval(&fm, cx, &full, &mut exp);
            let got = catch(|| {
                full.with_real(|evt| match view {
                    "generic" => F::matches(&f, evt),
                    "ref-dyn" => (&*f as &(dyn ErasedFilter + Send + Sync)).matches(evt),
                    "ref-dyn-plain" => (&*f as &dyn ErasedFilter).matches(evt),
                    "box-dyn" => f_box.matches(evt),
                    "arc-dyn" => f_arc.matches(evt),
                    _ => f_all.matches(evt),
                })
            });
            if let Some((class, detail)) = check_evaluations(&log, cx, &exp.evals, &[&fm], &full) {
                run.r.violation(&format!("C01:filter:{}:static-filter:{}", class, view), &format!("static shape {}: {}", run.name, detail), run.json("filter", view, Some(ei), &fm, &em, cx));
            } else if got != Ok(want) {
                run.r.violation(
                    &format!("C01:static-filter:{}:{}", view, fm.kind()),
                    &format!("static shape {}: filter answered {:?} through the {} view, its logical definition says {}", run.name, got, view, want),
                    run.json("filter", view, Some(ei), &fm, &em, cx),
                );
            }
            cx.resync();
        }

        // the destinations handed the built event directly
        let mut inner_trees: Vec<&FTree> = Vec::new();
        em.filter_trees(&mut inner_trees);
        for view in VIEWS {
            run.r.eval();
            log.clear();
            let mut exp = Expect::default();
            deliver(&em, cx, &full, &mut exp);
            let got = catch(|| {
                full.with_real(|evt| match view {
                    "generic" => E::emit(&e, evt),
                    "ref-dyn" => (&*e as &(dyn ErasedEmitter + Send + Sync)).emit(evt),
                    "ref-dyn-plain" => (&*e as &dyn ErasedEmitter).emit(evt),
                    "box-dyn" => e_box.emit(evt),
                    "arc-dyn" => e_arc.emit(evt),
                    _ => e_all.emit(evt),
                });
                log.deliveries.lock().unwrap().clone()
            });
            match got {
                Err(m) => run.r.violation(&format!("C01:panic:static-emit:{}", view), &format!("static shape {} panicked: {}", run.name, m), run.json("emit", view, Some(ei), &fm, &em, cx)),
                Ok(d) => {
                    delivered += d.len() as u64;
                    run.r.observe("static:leaf-deliveries", d.len() as u64);
                    if let Some((class, detail)) = compare_deliveries(&d, &exp.deliveries) {
                        run.r.violation(&format!("C01:static-delivery:{}:{}:{}", view, em.kind(), class), &format!("static shape {}: {}", run.name, detail), run.json("emit", view, Some(ei), &fm, &em, cx));
                    } else if let Some((class, detail)) = check_evaluations(&log, cx, &exp.evals, &inner_trees, &full) {
                        run.r.violation(&format!("C01:filter:{}:static-emit:{}", class, view), &format!("static shape {}: {}", run.name, detail), run.json("emit", view, Some(ei), &fm, &em, cx));
                    }
                }
            }
            cx.resync();
        }

        // the whole pipeline: generic components, erased components, a generic Runtime
        let mut all_trees: Vec<&FTree> = vec![&fm];
        em.filter_trees(&mut all_trees);
        let n_site = 4i64;
        for view in ["generic-components", "erased-components", "generic-runtime", "every-node-erased", "generic-when", "generic-runtime-macro-site", "generic-runtime-as-emitter"] {
            run.r.eval();
            log.clear();
            // what is handed to the pipeline on this view
            let handed = if view == "generic-runtime-macro-site" {
                let mut ev = raw.clone();
                ev.tpl = vec![TPart::Text("site zero ".into()), TPart::Hole("n".into())];
                ev.props.insert(0, ("n".to_string(), MVal::I(n_site)));
                ev
            } else {
                raw.clone()
            };
            let built = handed.built(&run.ambient, clock);
            let mut exp = Expect::default();
            let accepted = feval(&fm, cx, &built, &mut exp);
            if accepted {
                deliver(&em, cx, &built, &mut exp);
            }
            if accepted { accepts += 1 } else { rejects += 1 }
            run.r.observe("static:typed-leaf-evaluations", exp.typed_evals);
            run.r.observe("static:typed-leaf:first-value-fails-cast-later-duplicate-would-pass", exp.typed_first_fails_later_casts);
            let got = catch(|| {
                raw.with_real(|evt| match view {
                    "generic-components" => emit_core::emit(&*e, &*f, &ctxt, &clk, evt),
                    "erased-components" => emit_core::emit(
                        &*e as &(dyn ErasedEmitter + Send + Sync),
                        &*f as &(dyn ErasedFilter + Send + Sync),
                        &ctxt as &(dyn ErasedCtxt + Send + Sync),
                        &clk as &(dyn ErasedClock + Send + Sync),
                        evt,
                    ),
                    "generic-runtime" => Runtime::build(&*e, &*f, &ctxt, &clk, Empty).emit(evt),
                    "generic-runtime-as-emitter" => Emitter::emit(&Runtime::build(&*e, &*f, &ctxt, &clk, Empty), evt),
                    // the typed filter as a call-site `when:` over a typed runtime whose own filter rejects everything
                    "generic-when" => {
                        let rt = Runtime::build(&*e, emit::filter::from_fn(|_| false), &ctxt, &clk, Empty);
                        emit::emit!(rt: &rt, evt: evt, when: &*f)
                    }
                    "generic-runtime-macro-site" => {
                        let rt = Runtime::build(&*e, &*f, &ctxt, &clk, Empty);
                        let n = n_site;
                        let mdl = Path::new_ref_raw(&raw.mdl);
                        let ext = raw.ext.real();
                        let base = &raw.props[..];
                        emit::emit!(rt: &rt, mdl: mdl, extent: ext, props: base, "site zero {n}")
                    }
                    _ => emit_core::emit(&e_all, &f_all, &ctxt, &clk, evt),
                });
                log.deliveries.lock().unwrap().clone()
            });
            match got {
                Err(m) => run.r.violation(&format!("C01:panic:static-pipeline:{}", view), &format!("static shape {} panicked: {}", run.name, m), run.json("pipeline", view, Some(ei), &fm, &em, cx)),
                Ok(d) => {
                    run.r.observe("static:leaf-deliveries", d.len() as u64);
                    if let Some((class, detail)) = compare_deliveries(&d, &exp.deliveries) {
                        run.r.violation(
                            &format!("C01:static-pipeline:{}:effective-filter-{}:{}", view, if accepted { "accepts" } else { "rejects" }, class),
                            &format!("static shape {}: {}", run.name, detail),
                            run.json("pipeline", view, Some(ei), &fm, &em, cx),
                        );
                    } else if let Some((class, detail)) = check_evaluations(&log, cx, &exp.evals, &all_trees, &built) {
                        run.r.violation(&format!("C01:filter:{}:static-pipeline:{}", class, view), &format!("static shape {}: {}", run.name, detail), run.json("pipeline", view, Some(ei), &fm, &em, cx));
                    }
                }
            }
            cx.resync();
        }
    }

    // flushing through every view
    let mut want_ids = Vec::new();
    let want = flush_model(&em, cx, &mut want_ids);
    want_ids.sort();
    for view in VIEWS {
        run.r.eval();
        log.clear();
        let t = run.timeout;
        let got = catch(|| match view {
            "generic" => E::blocking_flush(&e, t),
            "ref-dyn" => (&*e as &(dyn ErasedEmitter + Send + Sync)).blocking_flush(t),
            "ref-dyn-plain" => (&*e as &dyn ErasedEmitter).blocking_flush(t),
            "box-dyn" => e_box.blocking_flush(t),
            "arc-dyn" => e_arc.blocking_flush(t),
            _ => e_all.blocking_flush(t),
        });
        let flushes = log.flushes.lock().unwrap().clone();
        run.r.observe("static:leaf-flushes", flushes.len() as u64);
        let mut ids: Vec<usize> = flushes.iter().map(|(i, _)| *i).collect();
        ids.sort();
        let sum: Duration = flushes.iter().map(|(_, d)| *d).sum();
        let problem = match got {
            Err(m) => Some(("panic".to_string(), m)),
            Ok(_) if ids != want_ids => Some((
                if ids.len() < want_ids.len() { "leaf-not-flushed".to_string() } else { "leaf-flushed-more-than-once".to_string() },
                format!("leaves flushed {:?}, expected each reachable leaf once: {:?}", ids, want_ids),
            )),
            Ok(g) if g != want => Some(("result".to_string(), format!("blocking_flush returned {}, the conjunction over the leaves is {}", g, want))),
            Ok(_) if sum > t => Some(("timeout-sum".to_string(), format!("timeouts handed down add up to {:?} > {:?}", sum, t))),
            Ok(_) => None,
        };
        if let Some((class, detail)) = problem {
            run.r.violation(&format!("C01:static-flush:{}:{}:{}", view, em.kind(), class), &format!("static shape {}: {}", run.name, detail), run.json("flush", view, None, &fm, &em, cx));
        }
    }

    run.r.observe(&format!("static-shape:{}", run.name), 1);
    if accepts > 0 && rejects > 0 && delivered > 0 {
        run.r.nontrivial(&("static", run.name));
    }
}

macro_rules! static_shapes {
    ($cx:ident; $( $name:literal : $f:expr , $e:expr ; )*) => {
        const STATIC_NAMES: &[&str] = &[$($name),*];

        fn run_static(which: usize, $cx: &Cx, run: &mut StaticRun) {
            let mut k = 0usize;
            $(
                if which == k {
                    run.name = $name;
                    let fp = $f;
                    let ep = $e;
                    check_static(run, $cx, fp, ep);
                    return;
                }
                k += 1;
            )*
            let _ = k;
        }
    };
}

static_shapes! { cx;
    "leaf": fl(cx, 0), el(cx, 0);
    "from-fn": ffn(cx, 1), efn(cx, 1);
    "and": fand(fl(cx, 0), fl(cx, 1)), eand(el(cx, 0), el(cx, 1));
    "or": f_or(fl(cx, 0), fl(cx, 1)), eand(el(cx, 0), efn(cx, 1));
    "and-or": fand(f_or(fl(cx, 0), fl(cx, 1)), fl(cx, 2)), eand(eand(el(cx, 0), el(cx, 1)), el(cx, 2));
    "or-and": f_or(fand(fl(cx, 0), fl(cx, 1)), fand(fl(cx, 2), fl(cx, 3))), eand(el(cx, 0), eand(el(cx, 1), eand(el(cx, 2), el(cx, 3))));
    "some": fsome(fl(cx, 0)), esome(el(cx, 0));
    "none": fnone(), enone();
    "and-none": fand(fnone(), fl(cx, 0)), eand(enone(), el(cx, 0));
    "or-none": f_or(fl(cx, 0), fnone()), eand(el(cx, 0), esome(enone()));
    "box": fbox(fl(cx, 0)), ebox(el(cx, 0));
    "arc": farc(fl(cx, 1)), earc(el(cx, 1));
    "ref": fref(fl(cx, 2)), eref(el(cx, 2));
    "dyn": fdyn(fl(cx, 3)), edyn(el(cx, 3));
    "box-and": fbox(fand(fl(cx, 0), ffn(cx, 1))), ebox(eand(el(cx, 0), efn(cx, 1)));
    "arc-or": farc(f_or(ffn(cx, 0), fl(cx, 1))), earc(eand(efn(cx, 0), efn(cx, 1)));
    "empty": fempty(), eempty();
    "always": falways(), eand(eempty(), el(cx, 0));
    "and-empty": fand(fempty(), fl(cx, 4)), eand(el(cx, 0), eempty());
    "or-always": f_or(fl(cx, 5), falways()), ewf(el(cx, 0), fl(cx, 5));
    "wrap-filter-and": fand(fl(cx, 5), fl(cx, 6)), ewf(eand(el(cx, 0), el(cx, 1)), fand(fl(cx, 0), fl(cx, 1)));
    "wrap-filter-or": f_or(fl(cx, 6), fl(cx, 7)), ewf(el(cx, 2), f_or(fl(cx, 2), fl(cx, 3)));
    "wrap-filter-erased": fl(cx, 7), ewf_erased(el(cx, 3), fl(cx, 4));
    "wrap-pass": fl(cx, 0), ew_pass(el(cx, 0));
    "wrap-drop": fl(cx, 1), eand(ew_drop(el(cx, 0)), el(cx, 1));
    "wrap-twice": fl(cx, 2), ew_twice(eand(el(cx, 0), el(cx, 1)));
    "wrap-add-then-filter": fl(cx, 3), ew_add(ewf(el(cx, 0), fl(cx, 5)), "k1", MVal::I(3));
    "wrap-strip-then-runtime": fl(cx, 4), ew_strip(ert(cx, el(cx, 0), fl(cx, 6), 0));
    "runtime": fl(cx, 5), ert(cx, el(cx, 1), fl(cx, 0), 1);
    "runtime-and": fl(cx, 6), ert(cx, eand(el(cx, 0), el(cx, 1)), fand(fl(cx, 1), fl(cx, 2)), 2);
    "runtime-in-runtime": fl(cx, 7), ert(cx, ert(cx, el(cx, 2), fl(cx, 3), 0), fl(cx, 4), 1);
    "deep-filter": fand(f_or(fbox(fl(cx, 0)), farc(fl(cx, 1))), fsome(fref(f_or(fl(cx, 2), fdyn(fl(cx, 3)))))), el(cx, 0);
    "deep-emitter": fl(cx, 0), eand(ebox(eand(el(cx, 0), earc(el(cx, 1)))), esome(eref(eand(edyn(el(cx, 2)), efn(cx, 3)))));
    "some-some": fsome(fsome(fl(cx, 1))), esome(esome(efn(cx, 0)));
    "ref-ref": fref(fref(fl(cx, 2))), eref(eref(el(cx, 1)));
    "dyn-dyn": fdyn(fdyn(ffn(cx, 3))), edyn(edyn(efn(cx, 2)));
    "box-box": fbox(fbox(fl(cx, 4))), ebox(ebox(el(cx, 3)));
    "arc-arc": farc(farc(fl(cx, 5))), earc(earc(el(cx, 0)));
    "and-and-and": fand(fand(fl(cx, 0), fl(cx, 1)), fand(fl(cx, 2), fl(cx, 3))), eand(eand(el(cx, 0), el(cx, 0)), eand(el(cx, 1), el(cx, 1)));
    "or-or-or": f_or(f_or(fl(cx, 4), fl(cx, 5)), f_or(fl(cx, 6), fl(cx, 7))), eand(ewf(el(cx, 0), fl(cx, 0)), ewf(el(cx, 0), fl(cx, 1)));
    "wrap-in-wrap": fl(cx, 1), ewf(ewf(el(cx, 0), fl(cx, 2)), fl(cx, 3));
    "twice-twice": fl(cx, 2), ew_twice(ew_twice(el(cx, 1)));
    "runtime-wrap": fl(cx, 3), ert(cx, ewf(el(cx, 2), fl(cx, 4)), fempty(), 2);
    "and-of-runtimes": fand(fl(cx, 0), f_or(fl(cx, 1), fl(cx, 2))), eand(ert(cx, el(cx, 0), fl(cx, 3), 0), ert(cx, el(cx, 1), fl(cx, 4), 1));
}

fn static_case(r: &mut Report, seed: u64, index: u64) {
    let mut g = Rng::stream(seed, &[1, 2, index]);
    let cx = gen_cx(&mut g);
    let ambient = gen_ambient(&mut g, 4, false);
    let k = if cfg!(miri) { 2 } else { 5 };
    let events = (0..k).map(|_| (gen_event(&mut g), gen_clock(&mut g))).collect();
    let timeout = Duration::from_millis(g.below(10_000));
    let mut run = StaticRun { r, seed, index, name: "", ambient, events, timeout };
    run_static((index % STATIC_NAMES.len() as u64) as usize, &cx, &mut run);
}

fn main() {
    let args = Args::parse();
    #[cfg(not(miri))]
    if let Some(k) = args.get("child-shared") {
        // one process = one initialisation of the shared runtime (see shared/c01_shared_rt.rs)
        std::process::exit(c01_shared_rt::child_main(args.seed, k.parse().unwrap_or(0)));
    }
    let mut r = Report::new(
        "C01",
        &args,
        "one evaluation = one event through one emission path (or one filter tree through one view, or one flush) of one case; \
         a case = leaf tables + ambient context + filter tree + optional call-site filter tree + destination tree; \
         non-trivial = distinct (filter, call-site filter, destination) tree structures whose events produced both an accept and a reject \
         of the effective filter and at least one observed leaf delivery",
    );

    if let Some(path) = &args.replay {
        let case = load_replay(path);
        let seed = case.get("seed").and_then(|v| v.as_u64()).unwrap_or(args.seed);
        let index = case.get("index").and_then(|v| v.as_u64()).unwrap_or(0);
        if case.get("section").and_then(|v| v.as_str()) == Some("reentrant") {
            c01_reentrant::reentrant_case(&mut r, seed, index);
        } else if case.get("section").and_then(|v| v.as_str()) == Some("static") {
            static_case(&mut r, seed, index);
        } else {
            dyn_case(&mut r, seed, index);
        }
        std::process::exit(r.finish());
    }

    let seed = args.seed;
    // Under Miri one evaluation costs ~0.3 s: a couple of dynamic cases and a seed-dependent slice
    // of the static shapes per interpreter run (the lane runs 16 seeds, which cover every shape).
    let shapes = STATIC_NAMES.len() as u64;
    let (n_dyn, n_static, static_from) = if cfg!(miri) {
        let per_run = args.get_u64("shapes", 3);
        (args.get_u64("cases", 2), per_run, (seed % ((shapes + per_run - 1) / per_run)) * per_run)
    } else {
        (args.n(22_000, 600_000), args.n(shapes * 350, shapes * 5_000), 0)
    };
    par_cases(&mut r, &args, n_dyn, |i, r| dyn_case(r, seed, i));
    par_cases(&mut r, &args, n_static, |i, r| static_case(r, seed, static_from + i));
    r.set("static_shapes", json!(STATIC_NAMES.len()));
    #[cfg(not(miri))]
    if !args.lane.contains("san") {
        c01_shared_rt::shared_accessors(&mut r, seed, args.n(24, 400));
    }
    let n_re = if cfg!(miri) { 3 } else { args.n(3_000, 100_000) };
    par_cases(&mut r, &args, n_re, |i, r| c01_reentrant::reentrant_case(r, seed, i));

    std::process::exit(r.finish());
}
