/*!
C04 — nested spans always form one consistent trace tree.

Workload: seeded span trees (depth <= 6, fan-out <= 4) executed by the recursive interpreter in
`shared/spantree.rs`, which is written with the real `#[emit::span]` / `emit::info!` macros: sync
and async nodes, nodes rejected by a call-site `when:` or by the runtime's filter, events at seeded
points, children run directly / on another thread through a captured `Frame::current(ctxt).in_fn`
/ as async siblings polled interleaved by a seeded executor, roots started under incoming ids
pushed as typed `TraceId`/`SpanId`, as hex strings (both cases) and as integers, and under an
incoming trace id WITHOUT a usable span id (`SpanCtxt::new(Some(t), None, None).push(ctxt)`, a lone
`trace_id` property in every form, a trace id next to an all-zero / unparseable span id), also
handed to another thread through a frame captured inside it. Children are also run
through NON-span frames captured inside a span (`Frame::current(ctxt)` for thread hand-offs and for
group members handed over as tasks, `Frame::push(ctxt, ("plain", 1))` via `call` / `in_fn` on a new
thread / `in_future`). Every tree runs on a generic `Runtime<.., ThreadLocalCtxt, ..>` static and on
a type-erased `AmbientSlot`, plus (rotating) one of: the trace-context runtime
`TraceparentCtxt<ThreadLocalCtxt>` + always-sampling `TraceparentFilter` as a typed static, the same
as `emit_traceparent::setup()` installs it in an `AmbientSlot` (both with every node enabled: a
rejected span unsamples its subtree there by design, see C18), and a runtime over `ListCtxt`, a
list-backed context that relies on the trait's default `open_push`, so its current props repeat
every key once per nesting level with the innermost value first. The rng is a counter (never
repeats, never zero). Spans also end through `complete_with` (`ok_lvl`/`err_lvl` on Result fns, `guard:`
spans completed by hand) and are created with `emit::new_span!` (with and without `when:`), whose
(guard, frame) pair is entered where it was created, on another thread (`frame.in_fn`), as a task
(`frame.in_future`, hand-polled among siblings) or AFTER the span it was created in has ended —
for enabled and for REJECTED spans alike (a rejected span's frame must carry the context it was
created in). Incoming integer ids include values whose decimal text has exactly 16 / 32 digits,
and an incoming `span_parent`. Scripted PANICS unwind out of chains of synchronous spans (attribute
fns of every kind, `new_span!` + `frame.call`, `Frame::push(..).call`, `Frame::in_fn` on another
thread) up to a `catch_unwind` at an ancestor (right around the child or levels up), after which the
ancestor goes on emitting events and starting children and the thread runs the next, unrelated root.
CANCELLATION: chains of 1-3 nested async spans whose future is polled by hand and DROPPED while
every span of the chain is suspended (or never polled at all): each started span completes in its
own frame (own ids / parent on its event), and the ambient ids on the dropping thread are what they
were before. Besides the runtimes above, every tree also runs on one of ten runtimes whose context is reached
through a forwarding wrapper (`&C`, `Box<C>`, `Arc<C>`, `Box<dyn ErasedCtxt>`, `AssertInternal<C>`,
`Option<C>`, and stacks of two, over `ThreadLocalCtxt` and over `ListCtxt`).

Oracle (a model written from the statement, walked over the tree):

* the *ambient ids* of a program point are those of the innermost enclosing ENABLED span, else the
  incoming ids placed in the context, else none;
* an enabled span's ids, read with `SpanCtxt::current` in its body, have: a span id; the trace id of
  the ambient it was started in (a fresh one if there was none); `span_parent` = the ambient span
  id it was started in (absent if none);
* every other read inside a node (before / after each child, after each yield, at exit, on the
  thread a child was handed to) equals the node's ambient ids — in particular the ids after a
  child ends equal those before it started, and a disabled span changes nothing;
* each enabled span's event carries exactly those three ids, a disabled span emits nothing;
* every `info!` event carries the trace id and span id of its ambient ids (none outside);
* span ids (and the incoming ones) are pairwise distinct.
*/

#[path = "../shared/spantree.rs"]
mod spantree;

use std::{
    collections::{HashMap, HashSet},
    sync::{LazyLock, Mutex},
};

use emit::{
    filter,
    platform::thread_local_ctxt::ThreadLocalCtxt,
    props::ErasedProps,
    runtime::{AmbientClock, AmbientCtxt, AmbientEmitter, AmbientFilter, AmbientRng, AmbientSlot, Runtime},
    Props,
};
use emit_traceparent::{TraceparentCtxt, TraceparentFilter};
use spantree::*;
use vcommon::{
    rec::{CountingRng, FakeClock},
    *,
};

// ---------------------------------------------------------------------------
// the two runtimes under test
// ---------------------------------------------------------------------------

fn en_filter(evt: emit::Event<&dyn ErasedProps>) -> bool {
    evt.props().pull::<bool, _>("en") != Some(false)
}

fn clock() -> FakeClock {
    let c = FakeClock::new(1_700_000_000_000_000_000);
    c.set_step(1_000);
    c
}

type GenericRt = Runtime<Routed, filter::FromFn, ThreadLocalCtxt, FakeClock, CountingRng>;

static G_RT: LazyLock<GenericRt> = LazyLock::new(|| {
    Runtime::build(
        Routed,
        filter::FromFn::new(en_filter),
        ThreadLocalCtxt::shared(),
        clock(),
        CountingRng::new(),
    )
});

impl_env!(
    EnvGeneric,
    "generic-runtime",
    false,
    [Routed, filter::FromFn, ThreadLocalCtxt, FakeClock, CountingRng],
    &G_RT
);

static A_SLOT: AmbientSlot = AmbientSlot::new();

impl_env!(
    EnvAmbient,
    "ambient-slot",
    false,
    [
        AmbientEmitter<'static>,
        AmbientFilter<'static>,
        AmbientCtxt<'static>,
        AmbientClock<'static>,
        AmbientRng<'static>
    ],
    A_SLOT.get()
);

// --- the trace-context runtime (always sampled), typed and as `emit_traceparent::setup()` builds it ----

type AlwaysFn = fn(&emit::SpanCtxt) -> bool;

fn always(_: &emit::SpanCtxt) -> bool {
    true
}

type TpRt = Runtime<Routed, emit::and::And<filter::FromFn, TraceparentFilter<AlwaysFn>>, TraceparentCtxt<ThreadLocalCtxt>, FakeClock, CountingRng>;

static TP_RT: LazyLock<TpRt> = LazyLock::new(|| {
    Runtime::build(
        Routed,
        emit::and::And::new(filter::FromFn::new(en_filter), TraceparentFilter::new_with_sampler(always as AlwaysFn)),
        TraceparentCtxt::new(ThreadLocalCtxt::new()),
        clock(),
        CountingRng::starting_at(1 << 44),
    )
});

impl_env!(
    EnvTraceparent,
    "traceparent-runtime",
    false,
    [
        Routed,
        emit::and::And<filter::FromFn, TraceparentFilter<AlwaysFn>>,
        TraceparentCtxt<ThreadLocalCtxt>,
        FakeClock,
        CountingRng
    ],
    &TP_RT
);

static TP_SLOT: AmbientSlot = AmbientSlot::new();

impl_env!(
    EnvTraceparentSlot,
    "traceparent-setup-slot",
    false,
    [
        AmbientEmitter<'static>,
        AmbientFilter<'static>,
        AmbientCtxt<'static>,
        AmbientClock<'static>,
        AmbientRng<'static>
    ],
    TP_SLOT.get()
);

// --- a context whose current props repeat keys (default `open_push` over a list) -----------------

type ListRt = Runtime<Routed, filter::FromFn, ListCtxt, FakeClock, CountingRng>;

static LIST_RT: LazyLock<ListRt> =
    LazyLock::new(|| Runtime::build(Routed, filter::FromFn::new(en_filter), ListCtxt, clock(), CountingRng::starting_at(1 << 48)));

impl_env!(
    EnvList,
    "list-ctxt-default-open_push",
    false,
    [Routed, filter::FromFn, ListCtxt, FakeClock, CountingRng],
    &LIST_RT
);

// --- the same contexts reached through every forwarding wrapper the crate offers ------------------

/// `wrap_env!(Name, STATIC, "label", CtxtType, ctxt_expr, first_rng_value);`
macro_rules! wrap_env {
    ($name:ident, $st:ident, $label:expr, $C:ty, $ctxt:expr, $rng:expr) => {
        static $st: LazyLock<Runtime<Routed, filter::FromFn, $C, FakeClock, CountingRng>> =
            LazyLock::new(|| Runtime::build(Routed, filter::FromFn::new(en_filter), $ctxt, clock(), CountingRng::starting_at($rng)));
        impl_env!($name, $label, false, [Routed, filter::FromFn, $C, FakeClock, CountingRng], &$st);
    };
}

type DynCtxt = dyn emit::ctxt::ErasedCtxt + Send + Sync;

static TL_FOR_REF: ThreadLocalCtxt = ThreadLocalCtxt::shared();

wrap_env!(EnvWrapRef, W_REF, "wrapped:&ThreadLocalCtxt", &'static ThreadLocalCtxt, &TL_FOR_REF, 1u64 << 56);
wrap_env!(EnvWrapBox, W_BOX, "wrapped:Box<ThreadLocalCtxt>", Box<ThreadLocalCtxt>, Box::new(ThreadLocalCtxt::new()), (1u64 << 56) + (1 << 50));
wrap_env!(
    EnvWrapArc,
    W_ARC,
    "wrapped:Arc<ThreadLocalCtxt>",
    std::sync::Arc<ThreadLocalCtxt>,
    std::sync::Arc::new(ThreadLocalCtxt::new()),
    (1u64 << 56) + (2 << 50)
);
wrap_env!(
    EnvWrapBoxDyn,
    W_BOXDYN,
    "wrapped:Box<dyn ErasedCtxt>",
    Box<DynCtxt>,
    Box::new(ThreadLocalCtxt::new()) as Box<DynCtxt>,
    (1u64 << 56) + (3 << 50)
);
wrap_env!(
    EnvWrapAssert,
    W_ASSERT,
    "wrapped:AssertInternal<ThreadLocalCtxt>",
    emit::runtime::AssertInternal<ThreadLocalCtxt>,
    emit::runtime::AssertInternal(ThreadLocalCtxt::new()),
    (1u64 << 56) + (4 << 50)
);
wrap_env!(
    EnvWrapOption,
    W_OPTION,
    "wrapped:Option<ThreadLocalCtxt>",
    Option<ThreadLocalCtxt>,
    Some(ThreadLocalCtxt::new()),
    (1u64 << 56) + (5 << 50)
);
// stacked two deep, and over the list context (whose own `open_push` is the trait default)
wrap_env!(
    EnvWrapArcAssert,
    W_ARC_ASSERT,
    "wrapped:Arc<AssertInternal<ThreadLocalCtxt>>",
    std::sync::Arc<emit::runtime::AssertInternal<ThreadLocalCtxt>>,
    std::sync::Arc::new(emit::runtime::AssertInternal(ThreadLocalCtxt::new())),
    (1u64 << 56) + (6 << 50)
);
wrap_env!(
    EnvWrapOptionBoxDyn,
    W_OPTION_BOXDYN,
    "wrapped:Option<Box<dyn ErasedCtxt>>",
    Option<Box<DynCtxt>>,
    Some(Box::new(ThreadLocalCtxt::new()) as Box<DynCtxt>),
    (1u64 << 56) + (7 << 50)
);
wrap_env!(
    EnvWrapArcList,
    W_ARC_LIST,
    "wrapped:Arc<ListCtxt>",
    std::sync::Arc<ListCtxt>,
    std::sync::Arc::new(ListCtxt),
    (1u64 << 56) + (8 << 50)
);
wrap_env!(
    EnvWrapAssertBoxList,
    W_ASSERT_BOX_LIST,
    "wrapped:AssertInternal<Box<ListCtxt>>",
    emit::runtime::AssertInternal<Box<ListCtxt>>,
    emit::runtime::AssertInternal(Box::new(ListCtxt)),
    (1u64 << 56) + (9 << 50)
);

const N_WRAPPED: usize = 10;

fn init_envs() {
    LazyLock::force(&TP_RT);
    LazyLock::force(&LIST_RT);
    // exactly what `emit_traceparent::setup()` builds, with the emitter / clock / rng replaced
    let _ = emit_traceparent::setup()
        .emit_to(Routed)
        .with_clock(clock())
        .with_rng(CountingRng::starting_at(1 << 52))
        .init_slot(&TP_SLOT);
    LazyLock::force(&G_RT);
    A_SLOT
        .init(Runtime::build(
            Routed,
            filter::FromFn::new(en_filter),
            ThreadLocalCtxt::new(),
            clock(),
            // a different range, so ids of the two runtimes never coincide either
            CountingRng::starting_at(1 << 40),
        ))
        .expect("slot initialised once");
}

// ---------------------------------------------------------------------------
// oracle
// ---------------------------------------------------------------------------

/// Ambient ids plus how their text looks on events that read them straight from the context.
#[derive(Clone, Debug)]
struct Amb {
    ids: Ids,
    /// Where the ids come from: "none", "span", "props-typed", "props-hex", "props-HEX", "props-int",
    /// "trace-only-*", "trace+*-span-*"
    src: &'static str,
    /// events that read the ids straight from the context show them in decimal
    decimal: bool,
    /// the context holds an incoming trace id plus an UNUSABLE span id: only the trace id is settled
    /// (span id on events and the parent of a span started here are unconstrained)
    loose_span: bool,
}

struct Oracle<'a> {
    env: &'static str,
    run: &'a TreeRun,
    obs: HashMap<(u32, Point), Vec<&'a Obs>>,
    spans: HashMap<u32, Vec<Seen>>,
    events: HashMap<u32, Vec<Seen>>,
    stray: Vec<Seen>,
    span_ids: Vec<(u64, String)>,
    found: Vec<(String, String)>,
    /// program points that are never reached because a scripted panic unwinds past them
    unwound: HashSet<(u32, Point)>,
    n_panics_caught: u64,
    n_spans_unwound: u64,
    n_cancelled: u64,
    n_cancelled_unpolled: u64,
    n_cancelled_frames: u64,
    // measurements
    n_reads: u64,
    n_span_events: u64,
    n_events: u64,
    n_enabled: u64,
    n_disabled: u64,
    n_reparented: u64,
    n_handoffs: u64,
    n_groups_interleaved: u64,
    n_incoming: u64,
    n_trace_only: u64,
    n_plain: u64,
    n_wrapped_members: u64,
    n_manual: u64,
    n_rejected_frames_travelled: u64,
    n_decimal_looking: u64,
    max_enabled_depth: u32,
}

/// Does the text of an id on an event denote `want`? Ids pushed by a span are typed (hex). Ids an
/// event reads straight from pushed incoming props keep the form they were pushed in on a plain
/// context (decimal for integers) but are typed (hex) on the trace-context runtime: either is fine.
fn id_text_is(text: Option<&str>, want: Option<u128>, amb: &Amb) -> bool {
    match (text, want) {
        (None, None) => true,
        (Some(t), Some(w)) => {
            let hex = u128::from_str_radix(t, 16).ok() == Some(w);
            let dec = t.parse::<u128>().ok() == Some(w);
            if amb.src == "span" {
                hex
            } else if amb.decimal {
                hex || dec
            } else {
                hex
            }
        }
        _ => false,
    }
}

#[allow(dead_code)]
fn parse_id(text: &str, decimal: bool) -> Option<u128> {
    if decimal {
        text.parse::<u128>().ok()
    } else {
        u128::from_str_radix(text, 16).ok()
    }
}

fn kind(n: &Node) -> &'static str {
    match (&n.variant, n.is_async) {
        (Variant::Top, _) => "top",
        (Variant::ResultAware { .. }, false) => "sync-result-aware",
        (Variant::ResultAware { .. }, true) => "async-result-aware",
        (Variant::Guard(_), false) => "sync-guard",
        (Variant::Guard(_), true) => "async-guard",
        (Variant::Manual { travel, .. }, _) => match travel {
            Travel::Here => "new_span-frame-here",
            Travel::Thread => "new_span-frame-on-thread",
            Travel::Task => "new_span-frame-as-task",
            Travel::Deferred => "new_span-frame-after-creator-ended",
        },
        (Variant::When, false) => "sync-when",
        (Variant::When, true) => "async-when",
        (_, false) => "sync-rtfilter",
        (_, true) => "async-rtfilter",
    }
}

fn via_name(v: &Via) -> &'static str {
    match v {
        Via::Direct => "direct",
        Via::Thread => "thread",
        Via::Props { form, .. } => match form {
            IdForm::Typed => "props-typed",
            IdForm::HexLower => "props-hex",
            IdForm::HexUpper => "props-HEX",
            IdForm::Int => "props-int",
        },
        Via::TraceOnly { how, .. } => how.name(),
        Via::Plain { how } => match how {
            PlainHow::Call => "plain-frame-call",
            PlainHow::Thread => "plain-frame-thread",
            PlainHow::Future => "plain-frame-future",
        },
        Via::Header { .. } => "header",
        Via::Remote => "remote",
        Via::Catch => "catch",
        Via::Cancel { .. } => "cancelled-future",
    }
}

impl<'a> Oracle<'a> {
    fn new(env: &'static str, run: &'a TreeRun) -> Self {
        let mut obs: HashMap<(u32, Point), Vec<&Obs>> = HashMap::new();
        for o in &run.log {
            obs.entry((o.node, o.point)).or_default().push(o);
        }
        let mut spans: HashMap<u32, Vec<Seen>> = HashMap::new();
        let mut events: HashMap<u32, Vec<Seen>> = HashMap::new();
        let mut stray = Vec::new();
        for c in &run.events {
            let s = seen(c);
            if s.is_span {
                match s.node {
                    Some(n) => spans.entry(n).or_default().push(s),
                    None => stray.push(s),
                }
            } else {
                match s.eid {
                    Some(e) => events.entry(e).or_default().push(s),
                    None => stray.push(s),
                }
            }
        }
        Oracle {
            env,
            run,
            obs,
            spans,
            events,
            stray,
            span_ids: Vec::new(),
            found: Vec::new(),
            unwound: HashSet::new(),
            n_panics_caught: 0,
            n_spans_unwound: 0,
            n_cancelled: 0,
            n_cancelled_unpolled: 0,
            n_cancelled_frames: 0,
            n_reads: 0,
            n_span_events: 0,
            n_events: 0,
            n_enabled: 0,
            n_disabled: 0,
            n_reparented: 0,
            n_handoffs: 0,
            n_groups_interleaved: 0,
            n_incoming: 0,
            n_trace_only: 0,
            n_plain: 0,
            n_wrapped_members: 0,
            n_manual: 0,
            n_rejected_frames_travelled: 0,
            n_decimal_looking: 0,
            max_enabled_depth: 0,
        }
    }

    fn bad(&mut self, sig: String, what: String) {
        self.found.push((format!("C04:{}", sig), what));
    }

    /// All reads at `(node, point)` must equal `want`.
    fn expect_reads(&mut self, node: u32, point: Point, want: &Ids, exactly_one: bool, sig: &str) -> Option<&'a Obs> {
        let v: Vec<&'a Obs> = self.obs.get(&(node, point)).cloned().unwrap_or_default();
        if self.unwound.contains(&(node, point)) {
            // a scripted panic unwinds past this point: it is never reached
            if !v.is_empty() {
                self.bad(
                    "interpreter:point-reached-although-a-panic-unwinds-past-it".into(),
                    format!("node {} point {:?}", node, point),
                );
            }
            return None;
        }
        if exactly_one && v.len() != 1 {
            self.bad(
                format!("interpreter:point-read-{}-times", v.len().min(2)),
                format!("node {} point {:?} was read {} times (monitor expects once)", node, point, v.len()),
            );
        }
        for o in &v {
            self.n_reads += 1;
            if o.ids != *want {
                self.bad(
                    sig.to_string(),
                    format!(
                        "ambient ids at node {} {:?} are {} but the model says {} (trace/parent/span)",
                        node,
                        point,
                        o.ids.show(),
                        want.show()
                    ),
                );
            }
        }
        v.first().copied()
    }

    /// `outer`: ambient where the node's span is started; `enabled_depth`: enabled ancestors.
    fn walk(&mut self, node: &Node, outer: &Amb, via: &'static str, enabled_depth: u32, under_disabled: bool) {
        self.walk_in(node, outer, via, enabled_depth, under_disabled, None)
    }

    /// `deferred_around`: for a `Travel::Deferred` node, the ambient ids its creator was started from.
    fn walk_in(&mut self, node: &Node, outer: &Amb, via: &'static str, enabled_depth: u32, under_disabled: bool, deferred_around: Option<&Ids>) {
        let is_span = node.variant != Variant::Top;
        let enter = match self.obs.get(&(node.id, Point::Enter)).map(|v| v.as_slice()) {
            Some([o]) => *o,
            other => {
                let n = other.map(|v| v.len()).unwrap_or(0);
                self.bad(
                    format!("interpreter:body-ran-{}-times", n.min(2)),
                    format!("body of node {} ran {} times", node.id, n),
                );
                return;
            }
        };
        self.n_reads += 1;
        let k = kind(node);
        if node.unwinds {
            let last = (node.steps.len().max(1) - 1) as u16;
            for p in [Point::Exit, Point::After(last), Point::ViaOut(last), Point::HopOut(last), Point::Resume(last)] {
                self.unwound.insert((node.id, p));
            }
            self.n_spans_unwound += 1;
        }
        let inside = if is_span && node.enabled {
            self.n_enabled += 1;
            let got = enter.ids;
            if got.span.is_none() || got.trace.is_none() {
                self.bad(
                    format!("enabled-span-without-ids:{}:via={}:outer={}", k, via, outer.src),
                    format!("enabled node {} has ambient ids {} in its body", node.id, got.show()),
                );
            }
            if outer.ids.trace.is_some() && got.trace != outer.ids.trace {
                self.bad(
                    format!("trace-id-not-inherited:{}:via={}:outer={}", k, via, outer.src),
                    format!(
                        "node {} has trace id {:x?} but it was started inside trace {:x?}",
                        node.id, got.trace, outer.ids.trace
                    ),
                );
            }
            if !outer.loose_span && got.parent != outer.ids.span {
                self.bad(
                    format!(
                        "wrong-span-parent:{}:via={}:outer={}{}",
                        k,
                        via,
                        outer.src,
                        if under_disabled { ":through-disabled" } else { "" }
                    ),
                    format!(
                        "node {} has span_parent {:x?} but the nearest enabled ancestor / incoming span id is {:x?}",
                        node.id, got.parent, outer.ids.span
                    ),
                );
            }
            if under_disabled && enabled_depth > 0 {
                self.n_reparented += 1;
            }
            if let Some(s) = got.span {
                self.span_ids.push((s, format!("node {}", node.id)));
            }
            self.max_enabled_depth = self.max_enabled_depth.max(enabled_depth + 1);
            Amb {
                ids: got,
                src: "span",
                decimal: false,
                loose_span: false,
            }
        } else {
            if is_span {
                self.n_disabled += 1;
            }
            if enter.ids != outer.ids {
                self.bad(
                    format!("disabled-span-changes-ambient:{}:via={}:outer={}", k, via, outer.src),
                    format!(
                        "node {} is {} but its body sees ambient ids {} instead of the enclosing {}",
                        node.id,
                        if is_span { "rejected by the filter" } else { "not a span" },
                        enter.ids.show(),
                        outer.ids.show()
                    ),
                );
            }
            outer.clone()
        };

        // the span event
        if is_span {
            let evs = self.spans.remove(&node.id).unwrap_or_default();
            self.n_span_events += evs.len() as u64;
            let want = if node.enabled { 1 } else { 0 };
            if evs.len() != want {
                self.bad(
                    format!(
                        "{}span-events-{}-for-{}-span:{}",
                        // (async nodes that never get to their end are the ones dropped while suspended)
                        if node.unwinds && node.is_async { "cancelled:" } else { "" },
                        evs.len().min(2),
                        if node.enabled { "enabled" } else { "disabled" },
                        k
                    ),
                    format!("node {} (enabled={}) produced {} span events", node.id, node.enabled, evs.len()),
                );
            }
            if node.enabled {
                for e in &evs {
                    let want_t = inside.ids.trace.map(hex_trace);
                    let want_s = inside.ids.span.map(hex_span);
                    let want_p = inside.ids.parent.map(hex_span);
                    if e.trace != want_t || e.span != want_s || e.parent != want_p {
                        self.bad(
                            format!("{}span-event-ids:{}:via={}:outer={}", if node.unwinds && node.is_async { "cancelled:" } else { "" }, k, via, outer.src),
                            format!(
                                "span event of node {} carries trace_id={:?} span_id={:?} span_parent={:?}, its body saw {}",
                                node.id,
                                e.trace,
                                e.span,
                                e.parent,
                                inside.ids.show()
                            ),
                        );
                    }
                }
            }
        }

        if let Variant::Manual { travel, .. } = &node.variant {
            self.n_manual += 1;
            if !node.enabled && *travel != Travel::Here {
                self.n_rejected_frames_travelled += 1;
            }
            if *travel == Travel::Deferred {
                // entered after the span it was created in ended: around it, the context is the one
                // that span had been started from
                if let Some(around) = deferred_around {
                    let sig = format!("ambient-around-deferred-frame:{}", if node.enabled { "enabled" } else { "rejected" });
                    self.expect_reads(node.id, Point::BeforeDeferred, around, true, &sig);
                    self.expect_reads(node.id, Point::AfterDeferred, around, true, &format!("ambient-not-restored:after-deferred-frame:{}", if node.enabled { "enabled" } else { "rejected" }));
                }
            }
        }
        let here_disabled = is_span && !node.enabled;
        let child_depth = enabled_depth + (is_span && node.enabled) as u32;
        let child_under_disabled = here_disabled || (under_disabled && !(is_span && node.enabled));
        let ambient_sig = |what: &str| format!("ambient-not-restored:{}:{}:{}", what, k, if node.enabled { "enabled" } else { "disabled-or-top" });

        for (i, step) in node.steps.iter().enumerate() {
            let i = i as u16;
            match step {
                Step::Event(eid) => {
                    let evs = self.events.remove(eid).unwrap_or_default();
                    self.n_events += evs.len() as u64;
                    if evs.len() != 1 {
                        self.bad(
                            format!("event-recorded-{}-times", evs.len().min(2)),
                            format!("event {} in node {} was recorded {} times", eid, node.id, evs.len()),
                        );
                    }
                    for e in &evs {
                        let trace_ok = id_text_is(e.trace.as_deref(), inside.ids.trace, &inside);
                        let span_ok = id_text_is(e.span.as_deref(), inside.ids.span.map(|s| s as u128), &inside);
                        if !trace_ok || (!inside.loose_span && !span_ok) {
                            self.bad(
                                format!("event-ids:{}:ambient={}", k, inside.src),
                                format!(
                                    "event {} in node {} carries trace_id={:?} span_id={:?} but the innermost enabled enclosing span / incoming ids are {}",
                                    eid,
                                    node.id,
                                    e.trace,
                                    e.span,
                                    inside.ids.show()
                                ),
                            );
                        }
                    }
                }
                Step::Panic => {}
                Step::Yield => {
                    if node.is_async {
                        self.expect_reads(node.id, Point::Resume(i), &inside.ids, true, &ambient_sig("after-yield"));
                    }
                }
                Step::Child { node: child, via } => {
                    let vn = via_name(via);
                    self.expect_reads(node.id, Point::Before(i), &inside.ids, true, &ambient_sig("before-child"));
                    let child_outer = match via {
                        Via::Direct => inside.clone(),
                        Via::Thread => {
                            self.n_handoffs += 1;
                            let sig = format!("handoff-frame-ids:{}", k);
                            let o = self.expect_reads(node.id, Point::ViaIn(i), &inside.ids, true, &sig);
                            self.expect_reads(node.id, Point::ViaOut(i), &inside.ids, true, &sig);
                            if let Some(o) = o {
                                if o.thread == enter.thread {
                                    self.bad(
                                        "interpreter:handoff-on-same-thread".into(),
                                        format!("thread hand-off of node {} step {} ran on the parent's thread", node.id, i),
                                    );
                                }
                            }
                            inside.clone()
                        }
                        Via::Plain { how } => {
                            // a non-span frame captured inside whatever is current: the ids stay
                            self.n_plain += 1;
                            let sig = format!("non-span-frame-ids:{}:{}", vn, k);
                            let o = self.expect_reads(node.id, Point::ViaIn(i), &inside.ids, true, &sig);
                            self.expect_reads(node.id, Point::ViaOut(i), &inside.ids, true, &format!("ambient-not-restored:after-child:inside-{}", vn));
                            if let (PlainHow::Thread, Some(o)) = (how, o) {
                                self.n_handoffs += 1;
                                if o.thread == enter.thread {
                                    self.bad(
                                        "interpreter:handoff-on-same-thread".into(),
                                        format!("thread hand-off of node {} step {} ran on the parent's thread", node.id, i),
                                    );
                                }
                            }
                            inside.clone()
                        }
                        Via::Props { trace, span, parent, form } => {
                            self.n_incoming += 1;
                            if matches!(form, IdForm::Int) && (10u64.pow(15)..10u64.pow(16)).contains(span) {
                                self.n_decimal_looking += 1;
                            }
                            // a pushed span_parent is what the context shows, except on the trace-context
                            // runtime, whose traceparent overrides incoming parents by documented design
                            let seen_parent = self
                                .obs
                                .get(&(node.id, Point::ViaIn(i)))
                                .and_then(|v| v.first())
                                .and_then(|o| o.ids.parent);
                            let want_parent = if self.env.starts_with("traceparent") && seen_parent.is_none() { None } else { *parent };
                            let amb = Amb {
                                ids: Ids {
                                    trace: Some(*trace),
                                    parent: want_parent,
                                    span: Some(*span),
                                },
                                src: vn,
                                decimal: matches!(form, IdForm::Int),
                                loose_span: false,
                            };
                            let sig = format!("incoming-ids-not-visible:{}", vn);
                            self.expect_reads(node.id, Point::ViaIn(i), &amb.ids, true, &sig);
                            self.expect_reads(node.id, Point::ViaOut(i), &amb.ids, true, &format!("ambient-not-restored:after-child:inside-{}", vn));
                            self.span_ids.push((*span, format!("incoming span id at node {} step {}", node.id, i)));
                            amb
                        }
                        Via::TraceOnly { trace, how, handoff } => {
                            self.n_incoming += 1;
                            self.n_trace_only += 1;
                            // the statement settles the trace id; with an unusable span id next to it
                            // the other two ids are taken as observed (and must then stay put)
                            let seen_in = self
                                .obs
                                .get(&(node.id, Point::ViaIn(i)))
                                .and_then(|v| v.first())
                                .map(|o| o.ids)
                                .unwrap_or(Ids::EMPTY);
                            let loose = how.has_unusable_span();
                            let want = if loose {
                                Ids {
                                    trace: Some(*trace),
                                    ..seen_in
                                }
                            } else {
                                Ids {
                                    trace: Some(*trace),
                                    parent: None,
                                    span: None,
                                }
                            };
                            let amb = Amb {
                                ids: want,
                                src: vn,
                                decimal: how.decimal(),
                                loose_span: loose,
                            };
                            let sig = format!("incoming-trace-id-not-visible:{}", vn);
                            self.expect_reads(node.id, Point::ViaIn(i), &amb.ids, true, &sig);
                            if *handoff {
                                self.n_handoffs += 1;
                                let sig = format!("handoff-frame-ids:inside-{}", vn);
                                let o = self.expect_reads(node.id, Point::HopIn(i), &amb.ids, true, &sig);
                                self.expect_reads(node.id, Point::HopOut(i), &amb.ids, true, &format!("ambient-not-restored:after-child:on-other-thread:inside-{}", vn));
                                if let Some(o) = o {
                                    if o.thread == enter.thread {
                                        self.bad(
                                            "interpreter:handoff-on-same-thread".into(),
                                            format!("thread hand-off of node {} step {} ran on the parent's thread", node.id, i),
                                        );
                                    }
                                }
                            }
                            self.expect_reads(node.id, Point::ViaOut(i), &amb.ids, true, &format!("ambient-not-restored:after-child:inside-{}", vn));
                            amb
                        }
                        Via::Catch => {
                            // the panic that unwinds out of the span(s) below is caught right here; the
                            // `After` read below must then show this node's ambient ids again, and whatever
                            // follows (events, further children, the next root) is judged as usual
                            match self.run.caught.iter().find(|(n, s, _)| *n == node.id && *s == i) {
                                Some((_, _, true)) => self.n_panics_caught += 1,
                                other => self.bad(
                                    "interpreter:scripted-panic-not-caught".into(),
                                    format!("node {} step {}: {:?}", node.id, i, other),
                                ),
                            }
                            inside.clone()
                        }
                        Via::Cancel { polls } => {
                            // the child's future was polled `polls` times and dropped: every span of the
                            // chain completes in its own frame (own ids / parent, judged below as usual),
                            // and the `After` read must show this node's ambient ids again
                            match self.run.caught.iter().find(|(n, s, _)| *n == node.id && *s == i) {
                                Some((_, _, false)) => {}
                                other => self.bad(
                                    "interpreter:cancelled-future-finished-or-missing".into(),
                                    format!("node {} step {}: {:?}", node.id, i, other),
                                ),
                            }
                            if *polls == 0 {
                                // never polled: nothing of it may have run (its events would be unexplained)
                                if self.obs.contains_key(&(child.id, Point::Enter)) {
                                    self.bad("cancelled:never-polled-future-ran".into(), format!("node {} ran although its future was never polled", child.id));
                                }
                                self.n_cancelled_unpolled += 1;
                                self.expect_reads(node.id, Point::After(i), &inside.ids, true, "cancelled:ambient-not-restored:after-dropping-an-unpolled-future");
                                continue;
                            }
                            self.n_cancelled += 1;
                            self.n_cancelled_frames += *polls as u64;
                            inside.clone()
                        }
                        Via::Header { .. } | Via::Remote => unreachable!("not generated for C04"),
                    };
                    let around = outer.ids;
                    self.walk_in(
                        child,
                        &child_outer,
                        vn,
                        child_depth,
                        child_under_disabled && !matches!(via, Via::Props { .. } | Via::TraceOnly { .. }),
                        Some(&around),
                    );
                    self.expect_reads(
                        node.id,
                        Point::After(i),
                        &inside.ids,
                        true,
                        &format!("{}:child-via={}:{}", ambient_sig("after-child"), vn, if child.is_async { "async-child" } else { "sync-child" }),
                    );
                }
                Step::Group { nodes, .. } => {
                    self.expect_reads(node.id, Point::Before(i), &inside.ids, true, &ambient_sig("before-group"));
                    if let Some((_, _, order)) = self.run.polls.iter().find(|(n, s, _)| *n == node.id && *s == i) {
                        if interleaved(order) {
                            self.n_groups_interleaved += 1;
                        }
                    }
                    let sched = match step {
                        Step::Group { sched, .. } => *sched,
                        _ => 0,
                    };
                    for (m, n) in nodes.iter().enumerate() {
                        // some members are handed over inside a captured `Frame::current(ctxt)`
                        let wrapped = member_is_wrapped(sched, m);
                        if wrapped {
                            self.n_wrapped_members += 1;
                        }
                        self.walk(n, &inside, if wrapped { "group-task-in-captured-frame" } else { "group" }, child_depth, child_under_disabled);
                    }
                    self.expect_reads(node.id, Point::After(i), &inside.ids, true, &ambient_sig("after-group"));
                }
            }
        }
        self.expect_reads(node.id, Point::Exit, &inside.ids, true, &ambient_sig("at-exit"));
    }

    fn finish(&mut self) {
        // anything recorded that the tree does not explain
        let mut left: Vec<String> = Vec::new();
        for (n, v) in self.spans.drain() {
            left.push(format!("{} span event(s) with id={} (no such node)", v.len(), n));
        }
        for (e, v) in self.events.drain() {
            left.push(format!("{} event(s) with eid={} (no such event)", v.len(), e));
        }
        let stray = std::mem::take(&mut self.stray);
        for s in &stray {
            if s.is_span {
                // a span event that lost its `id` property: it was completed outside its frame
                self.bad(
                    "span-event-without-its-context".into(),
                    format!("a span event carries no `id` property (trace_id={:?} span_id={:?}): {}", s.trace, s.span, s.raw.to_json()),
                );
            } else {
                left.push(format!("event without eid: {}", s.raw.to_json()));
            }
        }
        if !left.is_empty() {
            self.bad("unexplained-events".into(), left.join("; "));
        }
        // distinctness
        let mut seen: HashMap<u64, &str> = HashMap::new();
        let mut dups = Vec::new();
        for (id, who) in &self.span_ids {
            if *id == 0 {
                dups.push(format!("{} has span id 0", who));
            }
            if let Some(prev) = seen.insert(*id, who) {
                dups.push(format!("{} and {} share span id {:x}", prev, who, id));
            }
        }
        if !dups.is_empty() {
            self.bad("span-ids-not-distinct".into(), dups.join("; "));
        }
        for p in &self.run.problems {
            self.bad("interpreter:problem".into(), p.clone());
        }
    }
}

// ---------------------------------------------------------------------------
// shape features (for the evidence)
// ---------------------------------------------------------------------------

#[derive(Default)]
struct Features {
    nested_enabled: bool,
    disabled_inner: bool,
    handoff_in_span: bool,
    group_in_span: bool,
    incoming: bool,
    trace_only: bool,
}

/// `anc`: is there an enabled ancestor span.
fn has_enabled(n: &Node) -> bool {
    (n.variant != Variant::Top && n.enabled) || n.children().any(has_enabled)
}

fn features(n: &Node, anc: bool, f: &mut Features) {
    let is_span = n.variant != Variant::Top;
    let en = is_span && n.enabled;
    if en && anc {
        f.nested_enabled = true;
    }
    if is_span && !n.enabled && anc && n.children().any(has_enabled) {
        f.disabled_inner = true;
    }
    for s in &n.steps {
        match s {
            Step::Child { node, via } => {
                if matches!(via, Via::Thread) && (anc || en) && has_enabled(node) {
                    f.handoff_in_span = true;
                }
                if matches!(via, Via::Props { .. } | Via::TraceOnly { .. }) {
                    f.incoming = true;
                }
                if matches!(via, Via::TraceOnly { .. }) && has_enabled(node) {
                    f.trace_only = true;
                }
                features(node, anc || en, f);
            }
            Step::Group { nodes, .. } => {
                if (anc || en) && nodes.iter().filter(|n| has_enabled(n)).count() >= 2 {
                    f.group_in_span = true;
                }
                for m in nodes {
                    features(m, anc || en, f);
                }
            }
            _ => {}
        }
    }
}

#[derive(Default)]
struct Shapes {
    all: HashSet<u64>,
    disabled_inner: HashSet<u64>,
    handoff: HashSet<u64>,
    interleaved: HashSet<u64>,
    incoming: HashSet<u64>,
    trace_only: HashSet<u64>,
}

static SHAPES: LazyLock<Mutex<Shapes>> = LazyLock::new(|| Mutex::new(Shapes::default()));

// ---------------------------------------------------------------------------
// one case
// ---------------------------------------------------------------------------

fn gen_cfg() -> GenCfg {
    GenCfg {
        traceparent: false,
        max_depth: 6,
        max_fan: 4,
        max_nodes: if cfg!(miri) { 8 } else { 40 },
    }
}

fn case_tree(seed: u64, index: u64) -> Node {
    let mut g = Rng::stream(seed, &[4, 1, index]);
    gen_tree(&mut g, &gen_cfg())
}

fn eval<X: Env>(r: &mut Report, seed: u64, index: u64, tree: &Node) {
    let run = run_tree::<X>(tree, Vec::new());
    r.eval();
    let case = || json!({"seed": seed, "index": index, "env": X::NAME, "tree": tree.to_json()});
    if let Some(msg) = &run.panicked {
        r.violation(
            &format!("C04:panic:{}", X::NAME),
            &format!("running the tree panicked: {}", msg),
            case(),
        );
        return;
    }
    if X::NAME.starts_with("wrapped:") {
        r.observe("trees:on-a-wrapped-context", 1);
    }
    let mut o = Oracle::new(X::NAME, &run);
    let none = Amb {
        ids: Ids::EMPTY,
        src: "none",
        decimal: false,
        loose_span: false,
    };
    o.walk(tree, &none, "top", 0, false);
    o.finish();
    r.observe("ctxt-reads", o.n_reads);
    r.observe("span-events", o.n_span_events);
    r.observe("events", o.n_events);
    r.observe("enabled-spans", o.n_enabled);
    r.observe("disabled-spans", o.n_disabled);
    r.observe("spans-reparented-past-disabled", o.n_reparented);
    r.observe("thread-handoffs", o.n_handoffs);
    r.observe("groups-actually-interleaved", o.n_groups_interleaved);
    r.observe("incoming-id-frames", o.n_incoming);
    r.observe("incoming-trace-id-without-usable-span-id", o.n_trace_only);
    r.observe("non-span-frames-with-own-props", o.n_plain);
    r.observe("new_span-pairs", o.n_manual);
    r.observe("panics-unwound-and-caught", o.n_panics_caught);
    r.observe("futures-cancelled-while-suspended", o.n_cancelled);
    r.observe("span-frames-dropped-by-a-cancellation", o.n_cancelled_frames);
    r.observe("futures-dropped-without-a-poll", o.n_cancelled_unpolled);
    r.observe("spans-and-frames-a-panic-unwound-through", o.n_spans_unwound);
    r.observe("rejected-span-frames-entered-away-from-creation", o.n_rejected_frames_travelled);
    r.observe("incoming-integer-ids-with-16-and-32-decimal-digits", o.n_decimal_looking);
    r.observe("group-tasks-inside-a-captured-frame", o.n_wrapped_members);
    r.observe(&format!("trees:{}", o.env), 1);
    if o.max_enabled_depth >= 4 {
        r.observe(&format!("trees-with-4-or-more-nested-enabled-spans:{}", o.env), 1);
    }
    r.observe("nodes", tree.count() as u64 - 1);

    let mut f = Features::default();
    features(tree, false, &mut f);
    let mut shape = Vec::new();
    tree.shape(&mut shape);
    let h = hash_of(&shape);
    if f.nested_enabled {
        r.nontrivial(&shape);
    }
    {
        let mut s = SHAPES.lock().unwrap();
        s.all.insert(h);
        if f.disabled_inner && o.n_reparented > 0 {
            s.disabled_inner.insert(h);
        }
        if f.handoff_in_span {
            s.handoff.insert(h);
        }
        if f.group_in_span && o.n_groups_interleaved > 0 {
            s.interleaved.insert(h);
        }
        if f.incoming {
            s.incoming.insert(h);
        }
        if f.trace_only {
            s.trace_only.insert(h);
        }
    }
    if r.wants_sample() && f.nested_enabled && index % 7 == 0 {
        let depth = o.max_enabled_depth;
        let n_ev = run.events.len();
        r.sample(|| json!({"seed": seed, "index": index, "env": X::NAME, "nodes": tree.count() - 1, "enabled_depth": depth, "events_recorded": n_ev, "tree": tree.to_json()}));
    }
    let found = std::mem::take(&mut o.found);
    for (sig, what) in found {
        r.violation(&format!("{}:{}", sig, X::NAME), &what, case());
    }
}

/// On the trace-context runtime a span rejected by a filter makes everything below it unsampled
/// (by design: C18), so "children attach to the nearest enabled ancestor" is not its contract.
/// Those runtimes run the same tree with every node enabled.
fn all_enabled(n: &Node) -> Node {
    let mut n = n.clone();
    n.enabled = true;
    for s in n.steps.iter_mut() {
        match s {
            Step::Child { node, .. } => *node = all_enabled(node),
            Step::Group { nodes, .. } => {
                for m in nodes.iter_mut() {
                    *m = all_enabled(m);
                }
            }
            _ => {}
        }
    }
    n
}

const ENV_NAMES: [&str; 5 + N_WRAPPED] = [
    "generic-runtime",
    "ambient-slot",
    "traceparent-runtime",
    "traceparent-setup-slot",
    "list-ctxt-default-open_push",
    "wrapped:&ThreadLocalCtxt",
    "wrapped:Box<ThreadLocalCtxt>",
    "wrapped:Arc<ThreadLocalCtxt>",
    "wrapped:Box<dyn ErasedCtxt>",
    "wrapped:AssertInternal<ThreadLocalCtxt>",
    "wrapped:Option<ThreadLocalCtxt>",
    "wrapped:Arc<AssertInternal<ThreadLocalCtxt>>",
    "wrapped:Option<Box<dyn ErasedCtxt>>",
    "wrapped:Arc<ListCtxt>",
    "wrapped:AssertInternal<Box<ListCtxt>>",
];

fn eval_env(r: &mut Report, env: usize, seed: u64, index: u64, tree: &Node) {
    match env {
        0 => eval::<EnvGeneric>(r, seed, index, tree),
        1 => eval::<EnvAmbient>(r, seed, index, tree),
        2 => eval::<EnvTraceparent>(r, seed, index, &all_enabled(tree)),
        3 => eval::<EnvTraceparentSlot>(r, seed, index, &all_enabled(tree)),
        4 => eval::<EnvList>(r, seed, index, tree),
        5 => eval::<EnvWrapRef>(r, seed, index, tree),
        6 => eval::<EnvWrapBox>(r, seed, index, tree),
        7 => eval::<EnvWrapArc>(r, seed, index, tree),
        8 => eval::<EnvWrapBoxDyn>(r, seed, index, tree),
        9 => eval::<EnvWrapAssert>(r, seed, index, tree),
        10 => eval::<EnvWrapOption>(r, seed, index, tree),
        11 => eval::<EnvWrapArcAssert>(r, seed, index, tree),
        12 => eval::<EnvWrapOptionBoxDyn>(r, seed, index, tree),
        13 => eval::<EnvWrapArcList>(r, seed, index, tree),
        _ => eval::<EnvWrapAssertBoxList>(r, seed, index, tree),
    }
}

/// Default platform components: every tree above runs on a counting rng (ids never repeat by construction), so the
/// generator of the ids itself - `emit::platform::rand_rng::RandRng`, what `emit::setup()` installs - is only seen here.
/// Rounds of fan-out through the real macros on a runtime built with `RandRng`: a root span on the driver thread,
/// `fan` worker threads entered through carried frames each opening nested child spans, plus `fan` fresh threads each
/// starting an unrelated root. Oracle (statement: ids are non-zero and pairwise distinct within a trace; siblings and
/// unrelated roots must therefore differ whichever thread generated them): all span ids seen in a round are pairwise
/// distinct and non-zero, children carry the root's trace id and the right parent, and the fresh roots' trace ids are
/// pairwise distinct. A 64-bit collision among a few thousand honest random ids has probability < 1e-12.
#[cfg(not(miri))]
fn default_platform_ids(r: &mut Report, seed: u64, rounds: u64) {
    use emit::platform::rand_rng::RandRng;
    use std::sync::Mutex;
    type Rt<'a> = emit::runtime::Runtime<&'a Collect, emit::Empty, emit::platform::thread_local_ctxt::ThreadLocalCtxt, emit::Empty, RandRng>;
    struct Collect(Mutex<Vec<(String, Option<emit::TraceId>, Option<emit::SpanId>, Option<emit::SpanId>)>>);
    impl emit::Emitter for Collect {
        fn emit<E: emit::event::ToEvent>(&self, evt: E) {
            let evt = evt.to_event();
            use emit::Props;
            self.0.lock().unwrap().push((
                evt.msg().to_string(),
                evt.props().pull::<emit::TraceId, _>(emit::well_known::KEY_TRACE_ID),
                evt.props().pull::<emit::SpanId, _>(emit::well_known::KEY_SPAN_ID),
                evt.props().pull::<emit::SpanId, _>(emit::well_known::KEY_SPAN_PARENT),
            ));
        }
        fn blocking_flush(&self, _: std::time::Duration) -> bool { true }
    }
    #[emit::span(rt: rt, "leaf {who}")]
    fn leaf(rt: &Rt, who: &str) {
        let _ = who;
    }
    #[emit::span(rt: rt, "worker {who}")]
    fn worker(rt: &Rt, who: &str, depth: u32) {
        leaf(rt, who);
        if depth > 0 {
            worker(rt, who, depth - 1);
        }
    }
    #[emit::span(rt: rt, "fresh {who}")]
    fn fresh(rt: &Rt, who: &str) {
        leaf(rt, who);
    }
    #[emit::span(rt: rt, "root")]
    fn root(rt: &Rt, fan: usize, depth: u32) {
        let frames: Vec<_> = (0..fan).map(|_| emit::Frame::current(rt.ctxt())).collect();
        std::thread::scope(|s| {
            for (i, frame) in frames.into_iter().enumerate() {
                s.spawn(move || frame.call(|| worker(rt, &format!("w{i}"), depth)));
            }
            for i in 0..fan {
                s.spawn(move || fresh(rt, &format!("f{i}")));
            }
        });
    }
    for round in 0..rounds {
        let fan = 2 + ((seed + round) % 7) as usize;
        let depth = ((seed / 7 + round) % 3) as u32;
        let sink = Collect(Mutex::new(Vec::new()));
        let rt: Rt = emit::runtime::Runtime::build(&sink, emit::Empty, emit::platform::thread_local_ctxt::ThreadLocalCtxt::new(), emit::Empty, RandRng::new());
        root(&rt, fan, depth);
        let evts = sink.0.into_inner().unwrap();
        r.eval();
        r.observe("default-platform:rounds", 1);
        r.observe("default-platform:span-events", evts.len() as u64);
        let case = |what: &str| json!({"section": "default-platform", "seed": seed, "round": round, "fan": fan, "depth": depth, "what": what,
            "events": evts.iter().map(|(m, t, s, p)| json!({"msg": m, "trace": t.map(|x| x.to_string()), "span": s.map(|x| x.to_string()), "parent": p.map(|x| x.to_string())})).collect::<Vec<_>>()});
        let want = 1 + fan * (2 * (depth as usize + 1)) + fan * 2;
        if evts.len() != want {
            r.violation("C04:default-platform:span-event-count", &format!("{} span events for {} spans", evts.len(), want), case("count"));
            continue;
        }
        let mut spans = std::collections::HashMap::new();
        let mut dup = None;
        for (m, t, s, _) in &evts {
            match (t, s) {
                (Some(_), Some(s)) => {
                    if let Some(prev) = spans.insert(*s, m.clone()) {
                        dup.get_or_insert((prev, m.clone()));
                    }
                }
                _ => {
                    r.violation("C04:default-platform:span-without-ids", &format!("span event `{m}` has no trace / span id on the default rng"), case("no-ids"));
                }
            }
        }
        if let Some((a, b)) = dup {
            r.violation("C04:default-platform:span-id-repeats-across-threads",
                &format!("spans `{a}` and `{b}` of one round share a span id (ids generated on different threads by the default RandRng)"), case("dup-span"));
        }
        let root_evt = evts.iter().find(|e| e.0 == "root").cloned();
        if let Some((_, rt_trace, rt_span, _)) = root_evt {
            let mut fresh_traces = std::collections::HashSet::new();
            for (m, t, _s, p) in &evts {
                if m.starts_with("worker w") || m.starts_with("leaf w") {
                    if *t != rt_trace {
                        r.violation("C04:default-platform:carried-child-not-in-root-trace", &format!("`{m}` has trace {t:?}, the root {rt_trace:?}"), case("trace"));
                    }
                    if m.starts_with("worker w") && p.is_none() {
                        r.violation("C04:default-platform:carried-child-without-parent", &format!("`{m}` has no parent"), case("parent"));
                    }
                }
                if m.starts_with("fresh f") {
                    if *t == rt_trace {
                        r.violation("C04:default-platform:fresh-root-shares-trace", &format!("`{m}` started on a fresh thread is in the driver's trace"), case("fresh-in-root"));
                    }
                    if p.is_some() {
                        r.violation("C04:default-platform:fresh-root-has-parent", &format!("`{m}` has a parent"), case("fresh-parent"));
                    }
                    if let Some(t) = t {
                        if !fresh_traces.insert(*t) {
                            r.violation("C04:default-platform:trace-id-repeats-across-threads",
                                &format!("two unrelated roots started on fresh threads share trace id {t} (default RandRng)"), case("dup-trace"));
                        }
                    }
                }
            }
            let direct: Vec<_> = evts.iter().filter(|e| e.0.starts_with("worker w") && e.3 == rt_span).collect();
            r.observe("default-platform:children-of-root-on-other-threads", direct.len() as u64);
            if direct.len() != fan {
                r.violation("C04:default-platform:carried-children-parent", &format!("{} of {} first-level workers name the root as parent", direct.len(), fan), case("direct"));
            }
            r.nontrivial(&("default-platform", fan, depth));
        }
    }
}

// ---------------------------------------------------------------------------
// `setup:` fns that install the incoming trace context
// ---------------------------------------------------------------------------
//
// `#[emit::span(rt, setup: f, ..)]` is documented as "invoke the expression before creating the span"; the value it
// returns is dropped when the span fn returns. The realistic use: `f` installs the caller's trace context - a guard
// that enters a `Frame` carrying the incoming `trace_id` / `span_id` (typed or as hex text, `Frame::push(ctxt, props)`
// + `into_parts` + `Ctxt::enter`; `Traceparent::push()` on the trace-context runtimes) and exits it on drop. The
// statement then says: the span carries "the incoming ids placed in the context", i.e. it is a CHILD of the incoming
// span (trace id = incoming, parent = incoming span id, a fresh span id of its own), events in the body carry the
// span's own id, spans nested in the body are children of THIS span, and once the fn has returned the ambient ids are
// what they were before. Directed, seeded cases: sync / async x plain / `guard:` / result-aware ok / err; nested two
// deep (the first nested span optionally installs a SECOND incoming context through its own `setup:`); optionally all
// inside an enclosing span; controls: a `setup:` fn that installs nothing, and span fns without `setup:`.
// The sink is `Routed`'s fallback recorder (the section runs on the main thread, where no tree is running).

#[cfg(not(miri))]
mod setup_param {
    use super::*;
    use emit::{Ctxt, Frame, SpanCtxt, SpanId, TraceId};
    use emit_traceparent::{TraceFlags, Traceparent};
    use std::cell::RefCell;

    #[derive(Clone, Copy, Debug)]
    pub struct Inc {
        pub trace: u128,
        pub span: u64,
        /// 0 typed, 1 hex text, 2 HEX text, 3 `Traceparent::push()`
        pub form: u8,
    }

    pub struct SpCx {
        pub inc: Option<Inc>,
        pub inc2: Option<Inc>,
        pub fail: bool,
        pub yields: bool,
        pub log: RefCell<Vec<(&'static str, Ids)>>,
    }

    /// A frame that was pushed AND entered; exited and closed on drop.
    pub struct Entered<C: Ctxt>(C, Option<C::Frame>);

    impl<C: Ctxt> Drop for Entered<C> {
        fn drop(&mut self) {
            if let Some(mut f) = self.1.take() {
                self.0.exit(&mut f);
                self.0.close(f);
            }
        }
    }

    fn enter<C: Ctxt>(frame: Frame<C>) -> Entered<C> {
        let (ctxt, mut f) = frame.into_parts();
        ctxt.enter(&mut f);
        Entered(ctxt, Some(f))
    }

    /// What the `setup:` fns return (at most one of the two is there).
    pub type Installed<X> = (Option<Entered<&'static <X as Env>::C>>, Option<Entered<emit_traceparent::TraceparentCtxt>>);

    pub fn install<X: Env>(inc: Option<&Inc>) -> Installed<X> {
        let Some(inc) = inc else { return (None, None) };
        let ctxt = X::rt().ctxt();
        match inc.form {
            0 => {
                let trace_id = TraceId::from_u128(inc.trace).expect("non-zero");
                let span_id = SpanId::from_u64(inc.span).expect("non-zero");
                (Some(enter(Frame::push(ctxt, emit::props! { trace_id, span_id }))), None)
            }
            1 | 2 => {
                let (t, s) = if inc.form == 1 { (format!("{:032x}", inc.trace), format!("{:016x}", inc.span)) } else { (format!("{:032X}", inc.trace), format!("{:016X}", inc.span)) };
                let (trace_id, span_id): (&str, &str) = (&t, &s);
                (Some(enter(Frame::push(ctxt, emit::props! { trace_id, span_id }))), None)
            }
            _ => {
                let tp = Traceparent::new(TraceId::from_u128(inc.trace), SpanId::from_u64(inc.span), TraceFlags::SAMPLED);
                (None, Some(enter(tp.push())))
            }
        }
    }

    fn read<X: Env>(cx: &SpCx, at: &'static str) {
        let ids = Ids::of(&SpanCtxt::current(X::rt().ctxt()));
        cx.log.borrow_mut().push((at, ids));
    }

    // --- nested spans -------------------------------------------------------------------------------------

    #[emit::span(rt: *X::rt(), "sp inner2")]
    fn inner2<X: Env>(cx: &SpCx) {
        read::<X>(cx, "inner2:body");
        emit::info!(rt: *X::rt(), "sp inner2-evt");
    }

    #[emit::span(rt: *X::rt(), "sp inner2")]
    async fn inner2_async<X: Env>(cx: &SpCx) {
        read::<X>(cx, "inner2:body");
        emit::info!(rt: *X::rt(), "sp inner2-evt");
    }

    #[emit::span(rt: *X::rt(), setup: (|| install::<X>(cx.inc2.as_ref())), "sp inner1")]
    fn inner1<X: Env>(cx: &SpCx) {
        read::<X>(cx, "inner1:body");
        emit::info!(rt: *X::rt(), "sp inner1-evt");
        inner2::<X>(cx);
        read::<X>(cx, "inner1:after-inner2");
    }

    #[emit::span(rt: *X::rt(), setup: (|| install::<X>(cx.inc2.as_ref())), "sp inner1")]
    async fn inner1_async<X: Env>(cx: &SpCx) {
        read::<X>(cx, "inner1:body");
        emit::info!(rt: *X::rt(), "sp inner1-evt");
        // a guard returned by `setup` stays entered across awaits: no suspension while the nested one is alive
        if cx.yields && cx.inc2.is_none() {
            YieldNow::new().await;
        }
        inner2_async::<X>(cx).await;
        read::<X>(cx, "inner1:after-inner2");
    }

    fn body<X: Env>(cx: &SpCx) {
        read::<X>(cx, "outer:body");
        emit::info!(rt: *X::rt(), "sp outer-evt");
        inner1::<X>(cx);
        read::<X>(cx, "outer:after-inner1");
    }

    async fn body_async<X: Env>(cx: &SpCx) {
        read::<X>(cx, "outer:body");
        emit::info!(rt: *X::rt(), "sp outer-evt");
        if cx.yields {
            YieldNow::new().await;
        }
        inner1_async::<X>(cx).await;
        if cx.yields {
            YieldNow::new().await;
        }
        read::<X>(cx, "outer:after-inner1");
    }

    // --- the span fns under observation -------------------------------------------------------------------

    #[emit::span(rt: *X::rt(), setup: (|| install::<X>(cx.inc.as_ref())), "sp outer")]
    fn outer_plain<X: Env>(cx: &SpCx) {
        body::<X>(cx)
    }

    #[emit::span(rt: *X::rt(), setup: (|| install::<X>(cx.inc.as_ref())), guard: g, "sp outer")]
    fn outer_guard<X: Env>(cx: &SpCx) {
        body::<X>(cx);
        g.complete();
    }

    #[emit::span(rt: *X::rt(), setup: (|| install::<X>(cx.inc.as_ref())), ok_lvl: emit::Level::Info, err_lvl: "warn", "sp outer")]
    fn outer_result<X: Env>(cx: &SpCx) -> Result<(), NodeErr> {
        body::<X>(cx);
        if cx.fail {
            return Err(NodeErr);
        }
        Ok(())
    }

    #[emit::span(rt: *X::rt(), "sp outer")]
    fn outer_nosetup<X: Env>(cx: &SpCx) {
        body::<X>(cx)
    }

    #[emit::span(rt: *X::rt(), setup: (|| install::<X>(cx.inc.as_ref())), "sp outer")]
    async fn outer_plain_async<X: Env>(cx: &SpCx) {
        body_async::<X>(cx).await
    }

    #[emit::span(rt: *X::rt(), setup: (|| install::<X>(cx.inc.as_ref())), guard: g, "sp outer")]
    async fn outer_guard_async<X: Env>(cx: &SpCx) {
        body_async::<X>(cx).await;
        g.complete();
    }

    #[emit::span(rt: *X::rt(), setup: (|| install::<X>(cx.inc.as_ref())), ok_lvl: emit::Level::Info, err_lvl: "warn", "sp outer")]
    async fn outer_result_async<X: Env>(cx: &SpCx) -> Result<(), NodeErr> {
        body_async::<X>(cx).await;
        if cx.fail {
            Err(NodeErr)?;
        }
        Ok(())
    }

    #[emit::span(rt: *X::rt(), "sp outer")]
    async fn outer_nosetup_async<X: Env>(cx: &SpCx) {
        body_async::<X>(cx).await
    }

    #[emit::span(rt: *X::rt(), "sp encl")]
    fn encl<X: Env>(cx: &SpCx, f: &dyn Fn()) {
        read::<X>(cx, "encl:body");
        f();
        read::<X>(cx, "encl:after");
    }

    pub const FORMS: [&str; 10] = ["sync:plain", "sync:guard", "sync:result-ok", "sync:result-err", "sync:no-setup-param", "async:plain", "async:guard", "async:result-ok", "async:result-err", "async:no-setup-param"];

    fn rand_inc(g: &mut Rng, form: u8) -> Inc {
        // away from the counting rngs' ranges (top bits set), never zero
        Inc { trace: (((g.next() as u128) << 64) | g.next() as u128) | (1u128 << 127), span: g.next() | (1u64 << 63), form }
    }

    fn parse(text: &Option<String>) -> Option<u128> {
        text.as_deref().and_then(|t| u128::from_str_radix(t, 16).ok())
    }

    fn ids_of(s: &Seen) -> Ids {
        Ids { trace: parse(&s.trace), parent: parse(&s.parent).map(|p| p as u64), span: parse(&s.span).map(|p| p as u64) }
    }

    /// `tp`: `X` is one of the trace-context runtimes.
    pub fn case<X: Env>(r: &mut Report, seed: u64, k: u64, tp: bool) {
        let mut g = Rng::stream(seed, &[4, 9, k]);
        let form = (k % 10) as usize;
        let has_param = form % 5 != 4;
        let is_async = form >= 5;
        let kind = if is_async { "async" } else { "sync" };
        let n_forms = if tp { 4 } else { 3 };
        // scenario: does the setup fn install something (control: nothing), does the first nested span, is there an enclosing span
        let installs = has_param && !g.chance(1, 5);
        let f1 = g.below(n_forms) as u8;
        let inc = if installs { Some(rand_inc(&mut g, f1)) } else { None };
        // on the trace-context runtimes ids given as plain props under an ACTIVE traceparent are taken for a child of it
        // (C18's subject): a nested incoming context is installed through `Traceparent::push()` there
        let f2 = if tp { 3 } else { g.below(3) as u8 };
        let inc2 = if g.chance(1, 3) { Some(rand_inc(&mut g, f2)) } else { None };
        let enclosed = !tp && g.chance(1, 3);
        let cx = SpCx { inc, inc2, fail: form % 5 == 3, yields: g.bool(), log: RefCell::new(Vec::new()) };
        let show_inc = |i: &Option<Inc>| i.map(|i| {
            let how = ["typed", "hex", "HEX", "Traceparent::push"][i.form as usize];
            json!({"trace": hex_trace(i.trace), "span": hex_span(i.span), "form": how})
        });
        let mut case = json!({"section": "setup-param", "env": X::NAME, "seed": seed, "k": k, "form": FORMS[form], "setup_installs": show_inc(&inc), "nested_setup_installs": show_inc(&inc2), "enclosed": enclosed, "yields": cx.yields});
        r.eval();
        r.observe("setup-param:cases", 1);
        r.observe(&format!("setup-param:{}:{}", X::NAME, FORMS[form]), 1);
        if inc.is_some() {
            r.observe("setup-param:cases-whose-setup-fn-installs-incoming-ids", 1);
        }

        let _ = ORPHANS.take();
        read::<X>(&cx, "before");
        let run = || match form {
            0 => outer_plain::<X>(&cx),
            1 => outer_guard::<X>(&cx),
            2 | 3 => {
                let _ = outer_result::<X>(&cx);
            }
            4 => outer_nosetup::<X>(&cx),
            5 => block_on(outer_plain_async::<X>(&cx)),
            6 => block_on(outer_guard_async::<X>(&cx)),
            7 | 8 => {
                let _ = block_on(outer_result_async::<X>(&cx));
            }
            _ => block_on(outer_nosetup_async::<X>(&cx)),
        };
        if enclosed {
            encl::<X>(&cx, &run);
        } else {
            run();
        }
        read::<X>(&cx, "after");
        let evts: Vec<Seen> = ORPHANS.take().iter().map(seen).collect();
        let log = cx.log.borrow().clone();
        case["reads"] = json!(log.iter().map(|(at, ids)| json!([at, ids.show()])).collect::<Vec<_>>());
        case["events"] = json!(evts.iter().map(|e| json!({"msg": e.raw.msg, "trace": e.trace, "span": e.span, "parent": e.parent})).collect::<Vec<_>>());

        let mut found: Vec<(String, String)> = Vec::new();
        let mut bad = |sig: &str, what: String| found.push((format!("C04:setup-param:{}:{}", sig, kind), what));
        let at = |name: &str| -> Option<Ids> { log.iter().find(|(a, _)| *a == name).map(|(_, i)| *i) };
        let one = |msg: &str| -> Option<&Seen> {
            let got: Vec<&Seen> = evts.iter().filter(|e| e.raw.msg == msg).collect();
            if got.len() == 1 { Some(got[0]) } else { None }
        };
        let mut complete = true;
        for msg in ["sp outer", "sp inner1", "sp inner2", "sp outer-evt", "sp inner1-evt", "sp inner2-evt"] {
            let n = evts.iter().filter(|e| e.raw.msg == msg).count();
            if n != 1 {
                bad("event-count", format!("`{}` was emitted {} time(s), expected once", msg, n));
                complete = false;
            }
        }
        if enclosed && evts.iter().filter(|e| e.raw.msg == "sp encl").count() != 1 {
            bad("event-count", "the enclosing span did not complete once".into());
            complete = false;
        }
        let expect_reads = 7 + if enclosed { 2 } else { 0 };
        if log.len() != expect_reads {
            bad("program-points", format!("{} of {} program points were reached", log.len(), expect_reads));
            complete = false;
        }
        if complete {
            let before = at("before").unwrap();
            let base = if enclosed { at("encl:body").unwrap() } else { before };
            let (o, i1, i2) = (ids_of(one("sp outer").unwrap()), ids_of(one("sp inner1").unwrap()), ids_of(one("sp inner2").unwrap()));
            // (a) the span under observation is a child of what its setup fn installed (else of where it was called)
            match (&inc, base.span) {
                (Some(inc), _) => {
                    if o.trace != Some(inc.trace) || o.parent != Some(inc.span) {
                        bad("span-not-child-of-incoming", format!("the setup fn installed incoming ids {}/{} before the span was created, but the span is {} (trace/parent/span)", hex_trace(inc.trace), hex_span(inc.span), o.show()));
                    }
                }
                (None, Some(_)) => {
                    if o.trace != base.trace || o.parent != base.span {
                        bad("control:span-not-child-of-enclosing", format!("nothing installed, enclosing span {}: the span is {}", base.show(), o.show()));
                    }
                }
                (None, None) => {
                    if o.trace.is_none() || o.parent.is_some() {
                        bad("control:root-span-ids", format!("nothing installed, nothing enclosing: the span is {}", o.show()));
                    }
                }
            }
            if o.span.is_none() || o.span == Some(0) || o.span == inc.map(|i| i.span) || o.span == base.span {
                bad("span-id-not-fresh", format!("the span's own id is {:?} (incoming {:?}, enclosing {:?})", o.span.map(hex_span), inc.map(|i| hex_span(i.span)), base.span.map(hex_span)));
            }
            // (b) inside the body the ambient ids are the span's
            if at("outer:body") != Some(o) {
                bad("ambient-in-body-is-not-the-span", format!("SpanCtxt::current at the start of the body is {}, the span event says {}", at("outer:body").unwrap().show(), o.show()));
            }
            // (c) events in the body carry the span's own id
            let e = ids_of(one("sp outer-evt").unwrap());
            if e.trace != o.trace || e.span != o.span {
                bad("event-in-body-does-not-carry-the-span-id", format!("the event emitted in the body carries {}/{}, the span is {}", e.trace.map(hex_trace).unwrap_or_default(), e.span.map(hex_span).unwrap_or_default(), o.show()));
            }
            // (d) the first nested span: child of THIS span, or of what its own setup fn installed
            match &inc2 {
                Some(inc2) => {
                    if i1.trace != Some(inc2.trace) || i1.parent != Some(inc2.span) {
                        bad("nested:span-not-child-of-incoming", format!("the nested span's setup fn installed {}/{} but the nested span is {}", hex_trace(inc2.trace), hex_span(inc2.span), i1.show()));
                    }
                }
                None => {
                    if i1.trace != o.trace || i1.parent != o.span {
                        bad("nested-span-not-child-of-this-span", format!("the span is {}, the span nested in its body is {} (incoming {:?})", o.show(), i1.show(), inc.map(|i| hex_span(i.span))));
                    }
                }
            }
            if at("inner1:body") != Some(i1) || at("inner1:after-inner2") != Some(i1) {
                bad("nested:ambient-in-body-is-not-the-span", format!("inside the nested span SpanCtxt::current is {} / {} after its child, its event says {}", at("inner1:body").unwrap().show(), at("inner1:after-inner2").unwrap().show(), i1.show()));
            }
            let e = ids_of(one("sp inner1-evt").unwrap());
            if e.trace != i1.trace || e.span != i1.span {
                bad("nested:event-in-body-does-not-carry-the-span-id", format!("the event in the nested span carries {:?}/{:?}, that span is {}", e.trace.map(hex_trace), e.span.map(hex_span), i1.show()));
            }
            // (e) two deep
            if i2.trace != i1.trace || i2.parent != i1.span || at("inner2:body") != Some(i2) {
                bad("nested:second-level-not-child-of-first", format!("first nested span {}, the one nested in it {} (read in its body: {})", i1.show(), i2.show(), at("inner2:body").unwrap().show()));
            }
            let e = ids_of(one("sp inner2-evt").unwrap());
            if e.trace != i2.trace || e.span != i2.span {
                bad("nested:event-in-body-does-not-carry-the-span-id", format!("the event in the second nested span carries {:?}/{:?}, that span is {}", e.trace.map(hex_trace), e.span.map(hex_span), i2.show()));
            }
            // ids pairwise distinct
            let mut ids: Vec<Option<u64>> = vec![o.span, i1.span, i2.span, base.span, inc.map(|i| i.span), inc2.map(|i| i.span)];
            ids.retain(|i| i.is_some());
            let n = ids.len();
            ids.sort();
            ids.dedup();
            if ids.len() != n {
                bad("span-ids-not-distinct", format!("span ids repeat among the span {}, its nested spans {} / {}, the incoming and the enclosing ids", o.show(), i1.show(), i2.show()));
            }
            // (f) reversion
            if at("outer:after-inner1") != Some(o) {
                bad("ambient-not-restored-after-nested-span", format!("after the nested span returned SpanCtxt::current is {}, the span is {}", at("outer:after-inner1").unwrap().show(), o.show()));
            }
            if enclosed && at("encl:after") != Some(base) {
                bad("ambient-after-return-differs", format!("inside the enclosing span SpanCtxt::current was {} before the call and is {} after it", base.show(), at("encl:after").unwrap().show()));
            }
            if at("after") != Some(before) {
                bad("ambient-after-return-differs", format!("SpanCtxt::current was {} before the call and is {} after it returned", before.show(), at("after").unwrap().show()));
            }
            if inc.is_some() {
                r.nontrivial(&("setup-param", X::NAME, form, inc.map(|i| i.form), inc2.map(|i| i.form), enclosed));
            }
        }
        // whatever a broken tree leaves entered on this thread must not leak into the next case: report, never repair silently
        found.sort();
        found.dedup_by(|a, b| a.0 == b.0);
        let sample = r.wants_sample() && k % 97 == 0;
        for (sig, what) in found {
            r.violation(&sig, &format!("{} / {}: {}", X::NAME, FORMS[form], what), case.clone());
        }
        if sample {
            r.sample(|| case);
        }
    }

    pub fn run(r: &mut Report, seed: u64, n: u64) {
        for k in 0..n {
            match (k / 10) % 4 {
                0 => case::<EnvGeneric>(r, seed, k, false),
                1 => case::<EnvAmbient>(r, seed, k, false),
                2 => case::<EnvTraceparent>(r, seed, k, true),
                _ => case::<EnvTraceparentSlot>(r, seed, k, true),
            }
        }
    }
}

fn main() {
    let args = Args::parse();
    let mut r = Report::new(
        "C04",
        &args,
        "one evaluation = one generated span tree executed on one runtime and checked at every program point against the ambient-id model; \
         non-trivial = distinct tree shapes (node kinds, enablement, how each child is run; ids and schedules excluded) with at least one enabled span nested inside another enabled span",
    );
    init_envs();

    if let Some(path) = &args.replay {
        let case = load_replay(path);
        let seed = case.get("seed").and_then(|v| v.as_u64()).unwrap_or(args.seed);
        let index = case.get("index").and_then(|v| v.as_u64()).unwrap_or(0);
        let tree = case_tree(seed, index);
        match case.get("env").and_then(|v| v.as_str()).and_then(|n| ENV_NAMES.iter().position(|e| *e == n)) {
            Some(e) => eval_env(&mut r, e, seed, index, &tree),
            None => {
                for e in 0..ENV_NAMES.len() {
                    eval_env(&mut r, e, seed, index, &tree);
                }
            }
        }
        std::process::exit(r.finish());
    }

    let seed = args.seed;
    // Miri interprets ~1000x slower: a fixed small number of trees there, whatever the scale
    let n = if cfg!(miri) { args.get_u64("trees", 10) } else { args.n(4_000, 100_000) };
    par_cases(&mut r, &args, n, |i, r| {
        let tree = case_tree(seed, i);
        // natively every tree runs on both thread-local runtimes plus one of the other three
        // (rotating); under Miri (seconds per tree) one runtime per tree, rotating over the five
        if cfg!(miri) {
            eval_env(r, (i % (5 + N_WRAPPED as u64)) as usize, seed, i, &tree);
        } else {
            // the typed thread-local runtime on every tree, the erased one on every other tree, one of
            // {trace-context x2, list} and one of the ten wrapped contexts in rotation
            eval_env(r, 0, seed, i, &tree);
            if i % 2 == 0 {
                eval_env(r, 1, seed, i, &tree);
            }
            eval_env(r, 2 + (i % 3) as usize, seed, i, &tree);
            eval_env(r, 5 + (i % N_WRAPPED as u64) as usize, seed, i, &tree);
        }
    });

    #[cfg(not(miri))]
    default_platform_ids(&mut r, seed, args.n(60, 2_000));

    let orphans = ORPHANS.take();
    if !orphans.is_empty() {
        r.violation(
            "C04:interpreter:event-outside-any-tree",
            &format!("{} events were emitted on threads that run no tree", orphans.len()),
            json!({"first": orphans[0].to_json()}),
        );
    }
    // span fns whose `setup:` fn installs the incoming trace context (main thread, `Routed`'s fallback recorder as sink)
    #[cfg(not(miri))]
    setup_param::run(&mut r, seed, args.n(2_000, 40_000));

    {
        let s = SHAPES.lock().unwrap();
        r.set(
            "distinct_shapes",
            json!({
                "all": s.all.len(),
                "with_disabled_inner_node_reparenting": s.disabled_inner.len(),
                "with_thread_handoff_inside_a_span": s.handoff.len(),
                "with_async_siblings_actually_interleaved_inside_a_span": s.interleaved.len(),
                "with_incoming_ids": s.incoming.len(),
                "with_incoming_trace_id_but_no_usable_span_id_and_a_span_below": s.trace_only.len(),
            }),
        );
    }
    std::process::exit(r.finish());
}
