/*!
C18 — a sampling decision is made once per trace and governs everything inside it.

Workload: the span-tree interpreter of C04 (`shared/spantree.rs`, real `#[emit::span]` /
`emit::info!` macros; sync / async nodes, thread hand-offs through captured frames, async
siblings under seeded poll interleavings) on the trace-context runtime, built four ways:

* `Runtime<_, TraceparentFilter<sampler>, TraceparentCtxt<ThreadLocalCtxt>, ..>` (generic static),
* the same with `.and(in_sampled_trace_filter(true))`,
* `emit_traceparent::setup_with_sampler(sampler)` installed in an `AmbientSlot` (type-erased),
* the same with `.and_emit_when(in_sampled_trace_filter(true))`.

Every tree additionally runs on one of eight runtimes whose `TraceparentCtxt<ThreadLocalCtxt>` sits
BEHIND a forwarding wrapper (`AssertInternal<_>`, `&_`, `Box<_>`, `Arc<_>`, `Option<_>`,
`Box<dyn ErasedCtxt>`, and the stacks `Arc<AssertInternal<_>>`, `AssertInternal<Box<dyn ErasedCtxt>>`),
same sampler, same oracle, signatures end in `wrapped:<type>`: a wrapper that drops a `Ctxt`
method (e.g. `open_disabled`, which is what makes a sampler-rejected root an unsampled trace)
falls back to the trait default.

... and on one of four runtimes (generic / `setup_with_sampler` slot, with / without the sampled-trace
filter) whose sampler, runtime filter and emitter are INSTRUMENTED AND RE-ENTRANT: while consulted they
run `#[emit::span(rt: POLICY_RT)]` functions on a second trace-context runtime, enter frames and push
headers on the same context, emit events through either runtime and read the current context (section
"RE-ENTRANT user components" below; signatures `C18:reentrant:*`).

The sampler is a seeded table ("decision for the k-th call in this tree") that logs every call
with the `SpanCtxt` it was shown. Trees additionally push headers with `Traceparent::push` /
`emit_traceparent::push(tp, tracestate)` at the top level and around arbitrary children: headers
of another trace (sampled / unsampled, odd flag bytes), all-zero (invalid) headers with either
flag, headers of the *same* trace with another span id / flag; give nodes an explicit, mismatched
`trace_id` property; and hop to a *fresh thread* under a header formatted from
`Traceparent::current()` and parsed back (what an outgoing request would carry).

Spans also end through `complete_with` (`ok_lvl`/`err_lvl` on fns returning Ok and Err, `guard:` spans
completed with `complete()` / `complete_with(..)`, `new_span!` guards dropped or completed with
`complete_with`), and scripted PANICS unwind through chains of synchronous span fns,
`Traceparent::push().call(..)` and `Frame::push(..).call(..)` up to a `catch_unwind`, after which
the same thread carries on (next children, next roots). CANCELLATION: chains of async spans whose future is polled by
hand and dropped while suspended (sampled: one event per started span with its own ids; unsampled:
nothing; `Traceparent::current()` restored after the drop). Spans whose incoming context is established
by the macro's `setup:` control parameter (`#[emit::span(setup: ..)]` and level-named attributes,
sync and async): the setup fn returns a guard that pushes AND enters a sampled / unsampled /
invalid / same-trace header (or touches nothing, as control) and is dropped when the fn returns;
judged exactly like a header pushed by hand around the span.

Oracle — a model of "the current traceparent" walked over the tree:

* a span started while the current traceparent is valid (trace id and span id) is a child /
  continuation: it keeps the trace id and the sampled flag, gets its own span id, and the sampler
  is NOT called for it; a span started otherwise starts a new trace: the sampler is called exactly
  once, with that span's ids, and its answer is the trace's sampled flag;
* `Traceparent::current()` read at every program point of a node equals (trace id, the node's
  span id, sampled flag) — so it is restored after every child, group, yield, pushed header and
  thread hop; inside a pushed header it equals the header;
* sampled: the span event exists exactly once with trace_id / span_id of that traceparent and
  span_parent = the span id that was current where it started (absent for a new trace), and every
  `info!` event in it is emitted with those ids; unsampled: no span event, and with the
  sampled-trace filter no event either; events outside any trace are emitted;
* a remote hop sees exactly the caller's traceparent after format + parse, and the span started
  there is a child of the caller's span (same rule as above); the fresh thread has no traceparent
  before / after the pushed header;
* no sampler call is left unexplained.
*/

#[path = "../shared/spantree.rs"]
mod spantree;

use std::{
    collections::{HashMap, HashSet},
    sync::{LazyLock, Mutex},
};

use emit::{
    and::And,
    platform::thread_local_ctxt::ThreadLocalCtxt,
    runtime::{AmbientClock, AmbientCtxt, AmbientEmitter, AmbientFilter, AmbientRng, AmbientSlot, Runtime},
    Emitter as _, SpanCtxt,
};
use emit_traceparent::{in_sampled_trace_filter, InSampledTraceFilter, TraceparentCtxt, TraceparentFilter};
use spantree::*;
use vcommon::{
    rec::{CountingRng, FakeClock},
    *,
};

// ---------------------------------------------------------------------------
// the runtimes under test
// ---------------------------------------------------------------------------

type SamplerFn = fn(&SpanCtxt) -> bool;

fn clock() -> FakeClock {
    let c = FakeClock::new(1_700_000_000_000_000_000);
    c.set_step(1_000);
    c
}

type Rt1 = Runtime<Routed, TraceparentFilter<SamplerFn>, TraceparentCtxt<ThreadLocalCtxt>, FakeClock, CountingRng>;

static RT1: LazyLock<Rt1> = LazyLock::new(|| {
    Runtime::build(
        Routed,
        TraceparentFilter::new_with_sampler(table_sampler as SamplerFn),
        TraceparentCtxt::new(ThreadLocalCtxt::shared()),
        clock(),
        CountingRng::new(),
    )
});

impl_env!(
    EnvGeneric,
    "generic-runtime",
    true,
    [Routed, TraceparentFilter<SamplerFn>, TraceparentCtxt<ThreadLocalCtxt>, FakeClock, CountingRng],
    &RT1
);

type Rt2 = Runtime<Routed, And<TraceparentFilter<SamplerFn>, InSampledTraceFilter>, TraceparentCtxt<ThreadLocalCtxt>, FakeClock, CountingRng>;

static RT2: LazyLock<Rt2> = LazyLock::new(|| {
    Runtime::build(
        Routed,
        And::new(
            TraceparentFilter::new_with_sampler(table_sampler as SamplerFn),
            in_sampled_trace_filter(true),
        ),
        TraceparentCtxt::new(ThreadLocalCtxt::new()),
        clock(),
        CountingRng::starting_at(1 << 36),
    )
});

impl_env!(
    EnvGenericInSampled,
    "generic-runtime+in-sampled-filter",
    true,
    [
        Routed,
        And<TraceparentFilter<SamplerFn>, InSampledTraceFilter>,
        TraceparentCtxt<ThreadLocalCtxt>,
        FakeClock,
        CountingRng
    ],
    &RT2
);

static SLOT3: AmbientSlot = AmbientSlot::new();
static SLOT4: AmbientSlot = AmbientSlot::new();

macro_rules! ambient_env {
    ($name:ident, $label:expr, $slot:ident) => {
        impl_env!(
            $name,
            $label,
            true,
            [
                AmbientEmitter<'static>,
                AmbientFilter<'static>,
                AmbientCtxt<'static>,
                AmbientClock<'static>,
                AmbientRng<'static>
            ],
            $slot.get()
        );
    };
}

ambient_env!(EnvSetup, "setup_with_sampler-slot", SLOT3);
ambient_env!(EnvSetupInSampled, "setup_with_sampler-slot+in-sampled-filter", SLOT4);

// --- the trace context BEHIND every forwarding wrapper the crate offers ---------------------------
// (a wrapper that drops one of the `Ctxt` methods falls back to the trait's default, e.g. a
// rejected root whose frame is not opened with the inner `open_disabled` is no unsampled trace)

type TpCtxt = TraceparentCtxt<ThreadLocalCtxt>;
type DynCtxt = dyn emit::ctxt::ErasedCtxt + Send + Sync;

/// `wrap_env!(Name, STATIC, "label", CtxtType, ctxt_expr, first_rng_value);`
macro_rules! wrap_env {
    ($name:ident, $st:ident, $label:expr, $C:ty, $ctxt:expr, $rng:expr) => {
        static $st: LazyLock<Runtime<Routed, TraceparentFilter<SamplerFn>, $C, FakeClock, CountingRng>> = LazyLock::new(|| {
            Runtime::build(
                Routed,
                TraceparentFilter::new_with_sampler(table_sampler as SamplerFn),
                $ctxt,
                clock(),
                CountingRng::starting_at($rng),
            )
        });
        impl_env!($name, $label, true, [Routed, TraceparentFilter<SamplerFn>, $C, FakeClock, CountingRng], &$st);
    };
}

fn tp_ctxt() -> TpCtxt {
    TraceparentCtxt::new(ThreadLocalCtxt::new())
}

static TPC_FOR_REF: TpCtxt = TraceparentCtxt::new(ThreadLocalCtxt::shared());

wrap_env!(
    EnvWrapAssert,
    W_ASSERT,
    "wrapped:AssertInternal<TraceparentCtxt<ThreadLocalCtxt>>",
    emit::runtime::AssertInternal<TpCtxt>,
    emit::runtime::AssertInternal(tp_ctxt()),
    1u64 << 48
);
wrap_env!(EnvWrapRef, W_REF, "wrapped:&TraceparentCtxt<ThreadLocalCtxt>", &'static TpCtxt, &TPC_FOR_REF, (1u64 << 48) + (1 << 44));
wrap_env!(EnvWrapBox, W_BOX, "wrapped:Box<TraceparentCtxt<ThreadLocalCtxt>>", Box<TpCtxt>, Box::new(tp_ctxt()), (1u64 << 48) + (2 << 44));
wrap_env!(
    EnvWrapArc,
    W_ARC,
    "wrapped:Arc<TraceparentCtxt<ThreadLocalCtxt>>",
    std::sync::Arc<TpCtxt>,
    std::sync::Arc::new(tp_ctxt()),
    (1u64 << 48) + (3 << 44)
);
wrap_env!(
    EnvWrapOption,
    W_OPTION,
    "wrapped:Option<TraceparentCtxt<ThreadLocalCtxt>>",
    Option<TpCtxt>,
    Some(tp_ctxt()),
    (1u64 << 48) + (4 << 44)
);
wrap_env!(
    EnvWrapBoxDyn,
    W_BOXDYN,
    "wrapped:Box<dyn ErasedCtxt>(TraceparentCtxt<ThreadLocalCtxt>)",
    Box<DynCtxt>,
    Box::new(tp_ctxt()) as Box<DynCtxt>,
    (1u64 << 48) + (5 << 44)
);
wrap_env!(
    EnvWrapArcAssert,
    W_ARC_ASSERT,
    "wrapped:Arc<AssertInternal<TraceparentCtxt<ThreadLocalCtxt>>>",
    std::sync::Arc<emit::runtime::AssertInternal<TpCtxt>>,
    std::sync::Arc::new(emit::runtime::AssertInternal(tp_ctxt())),
    (1u64 << 48) + (6 << 44)
);
wrap_env!(
    EnvWrapAssertBoxDyn,
    W_ASSERT_BOXDYN,
    "wrapped:AssertInternal<Box<dyn ErasedCtxt>>(TraceparentCtxt<ThreadLocalCtxt>)",
    emit::runtime::AssertInternal<Box<DynCtxt>>,
    emit::runtime::AssertInternal(Box::new(tp_ctxt()) as Box<DynCtxt>),
    (1u64 << 48) + (7 << 44)
);

const N_WRAPPED: usize = 8;

// ---------------------------------------------------------------------------
// RE-ENTRANT user components (round h): instrumented samplers / filters / emitters
// ---------------------------------------------------------------------------
//
// The sampler, the runtime filter and the emitter of the four runtimes below are not pure look-ups:
// WHILE THEY ARE BEING CONSULTED (i.e. inside `TraceparentCtxt::with_current` of the runtime the
// tree runs on) they, driven by a seeded per-tree script,
//
// * run a function carrying `#[emit::span(rt: POLICY_RT, ..)]` on a SECOND runtime whose context is
//   also a `TraceparentCtxt<ThreadLocalCtxt>` (the documented way to trace the sampling policy
//   itself; sync, async, with a nested child, with a child on another thread through a captured
//   frame; three policy runtimes: generic with its own sampler, generic without a sampler on the
//   SHARED thread-local storage, `setup_with_sampler` in an `AmbientSlot`),
// * push / enter frames on the SAME runtime's context (`Frame::push(ctxt, props).call`,
//   `Frame::current(ctxt).call`, `.in_future`), push incoming headers (`Traceparent::push`,
//   `emit_traceparent::push(tp, tracestate)`, `Tracestate::push`) - optionally doing one of the other
//   things inside,
// * emit an event through the same runtime or through a policy runtime,
// * read `Traceparent::current()` / `SpanCtxt::current(ctxt)` / `Tracestate::current()`.
//
// Oracle. The whole C18 model keeps judging the OUTER tree unchanged (the outer sampler's log only
// ever contains outer spans: a call for anything else is `sampler-called-for-unknown-span`).
// For the re-entrant actions themselves, from the statement:
//
// * nothing panics;
// * "the previous traceparent is restored whenever a span or pushed header goes out of scope":
//   traceparent, tracestate and `SpanCtxt::current` after every action equal those before it - the
//   component leaves no trace context behind;
// * the sampler is only ever consulted where the current traceparent is NOT valid (otherwise the
//   span would be a child / continuation);
// * a policy span follows the very same rule as every span ("the sampler runs exactly once for each
//   new trace, at its root span, and never for child spans or continued traces, whose flag is
//   inherited"): the thread's current traceparent is shared by all `TraceparentCtxt`s (documented on
//   the type), so started where the current traceparent is valid - inside a filter / emitter consulted
//   within a trace, or inside a header the component pushed - it is a CHILD of it (same trace id, flag
//   inherited, own span id, span_parent = the current span id, the policy runtime's sampler NOT
//   consulted); started where it is not valid - ALWAYS the case inside the sampler, which is consulted
//   before the outer span's frame exists - it is the ROOT OF ITS OWN NEW TRACE: the policy runtime's
//   sampler is consulted exactly once, with its ids, its answer is the flag inside, the span event is
//   emitted iff sampled and has no parent. How decided: statement + `SpanGuard::new` docs (the filter
//   is checked before the frame is created) + `incoming_traceparent`'s documented rule "only a valid
//   active traceparent is a parent";
// * inside a policy span `Traceparent::current()` == (trace id, the policy span's id, flag) and
//   `SpanCtxt::current(policy ctxt)` shows exactly those ids when sampled and nothing when not;
// * inside a pushed header `Traceparent::current()` is that header byte for byte; inside a non-span
//   frame / a pushed tracestate it is unchanged;
// * events: outside any trace or inside a sampled trace exactly one copy is delivered, carrying the
//   current trace / span id inside a sampled trace; inside an unsampled trace none with the
//   sampled-trace filter (unconstrained without it).

#[derive(Clone, Copy, PartialEq, Eq, Debug)]
enum Who {
    Sampler,
    Filter,
    Emitter,
}

impl Who {
    fn name(&self) -> &'static str {
        match self {
            Who::Sampler => "sampler",
            Who::Filter => "filter",
            Who::Emitter => "emitter",
        }
    }
}

#[derive(Clone, Debug)]
struct SpanPlan {
    is_async: bool,
    event: bool,
    /// (on another thread through a captured frame, the child)
    child: Option<(bool, Box<SpanPlan>)>,
}

#[derive(Clone, Debug)]
enum Inner {
    Nothing,
    Read,
    Span { prt: u8, plan: SpanPlan },
    EmitSame,
    EmitPolicy { prt: u8 },
}

#[derive(Clone, Debug)]
enum Act {
    Read,
    Span { prt: u8, plan: SpanPlan },
    PlainFrame { fut: bool, inner: Inner },
    CurrentFrame { inner: Inner },
    PushTp { header: Tp, with_state: bool, fut: bool, inner: Inner },
    PushState { inner: Inner },
    EmitSame,
    EmitPolicy { prt: u8 },
}

impl Act {
    fn name(&self) -> &'static str {
        match self {
            Act::Read => "reads-current",
            Act::Span { .. } => "runs-policy-span",
            Act::PlainFrame { .. } => "enters-frame-on-same-ctxt",
            Act::CurrentFrame { .. } => "enters-current-frame-on-same-ctxt",
            Act::PushTp { .. } => "pushes-traceparent",
            Act::PushState { .. } => "pushes-tracestate",
            Act::EmitSame => "emits-event-on-same-runtime",
            Act::EmitPolicy { .. } => "emits-event-on-policy-runtime",
        }
    }
}

/// What a policy span was expected to be and what it saw.
#[derive(Clone, Debug)]
struct PSpan {
    pid: u32,
    who: Who,
    penv: &'static str,
    has_sampler: bool,
    /// the traceparent that was current where it started
    cur: Tp,
    /// `Traceparent::current()` / `SpanCtxt::current(policy ctxt)` inside its body
    inside: Option<(Tp, Ids)>,
}

#[derive(Clone, Debug)]
struct PEvent {
    pev: u32,
    who: Who,
    same_rt: bool,
    cur: Tp,
}

struct PolicyState {
    /// x in 16: how often the sampler / filter / emitter acts when consulted
    p: [u64; 3],
    g: Mutex<Rng>,
    left: Mutex<u32>,
    next_id: Mutex<u32>,
    sink: vcommon::rec::Recorder,
    sampler_table: Vec<bool>,
    sampler_log: Mutex<Vec<SamplerCall>>,
    spans: Mutex<Vec<PSpan>>,
    pevents: Mutex<Vec<PEvent>>,
    problems: Mutex<Vec<(String, String)>>,
    counts: Mutex<std::collections::BTreeMap<String, u64>>,
    acts: Mutex<Vec<String>>,
}

impl PolicyState {
    fn new(seed: u64, index: u64, env: usize) -> PolicyState {
        let mut g = Rng::stream(seed, &[18, 2, index, env as u64]);
        let p = [*g.pick(&[8u64, 12, 16]), *g.pick(&[1u64, 2, 4]), *g.pick(&[1u64, 2, 4])];
        let n = 1 + g.usize(4);
        let bias = *g.pick(&[0u64, 6, 10, 16]);
        let sampler_table = (0..n).map(|_| g.chance(bias, 16)).collect();
        PolicyState {
            p,
            left: Mutex::new(if cfg!(miri) { 4 } else { 10 }),
            g: Mutex::new(g),
            next_id: Mutex::new(0),
            sink: vcommon::rec::Recorder::new(),
            sampler_table,
            sampler_log: Mutex::new(Vec::new()),
            spans: Mutex::new(Vec::new()),
            pevents: Mutex::new(Vec::new()),
            problems: Mutex::new(Vec::new()),
            counts: Mutex::new(std::collections::BTreeMap::new()),
            acts: Mutex::new(Vec::new()),
        }
    }

    fn id(&self) -> u32 {
        let mut n = self.next_id.lock().unwrap();
        *n += 1;
        *n
    }

    fn problem(&self, sig: String, what: String) {
        self.problems.lock().unwrap().push((sig, what));
    }

    fn count(&self, key: String) {
        *self.counts.lock().unwrap().entry(key).or_default() += 1;
    }
}

fn policy_state() -> Option<std::sync::Arc<PolicyState>> {
    let cx = current_tree_cx()?;
    let ext = cx.0.ext.get()?.clone();
    ext.downcast::<PolicyState>().ok()
}

thread_local! {
    /// > 0 while a re-entrant component is acting on this thread (nested consultations stay plain)
    static ACTING: std::cell::Cell<u32> = const { std::cell::Cell::new(0) };
}

struct Acting;

impl Acting {
    fn enter() -> Acting {
        ACTING.with(|a| a.set(a.get() + 1));
        Acting
    }
}

impl Drop for Acting {
    fn drop(&mut self) {
        let _ = ACTING.try_with(|a| a.set(a.get().saturating_sub(1)));
    }
}

// --- the policy runtimes --------------------------------------------------------------------------

/// The emitter of the policy runtimes: records into the policy log of the tree running on this thread.
pub struct PolicySink;

impl emit::Emitter for PolicySink {
    fn emit<E: emit::event::ToEvent>(&self, evt: E) {
        match policy_state() {
            Some(st) => st.sink.emit(evt),
            None => ORPHANS.emit(evt),
        }
    }

    fn blocking_flush(&self, _: std::time::Duration) -> bool {
        true
    }
}

/// The sampler of the policy runtimes: its own seeded table, its own log.
fn policy_sampler(ctxt: &SpanCtxt) -> bool {
    match policy_state() {
        Some(st) => {
            let mut log = st.sampler_log.lock().unwrap();
            let decision = st.sampler_table[log.len() % st.sampler_table.len()];
            log.push(SamplerCall {
                seen: Ids::of(ctxt),
                decision,
                thread: tid(),
            });
            decision
        }
        None => {
            ORPHANS.emit(emit::evt!("policy sampler called outside a tree"));
            true
        }
    }
}

type PRt = Runtime<PolicySink, TraceparentFilter<SamplerFn>, TraceparentCtxt<ThreadLocalCtxt>, FakeClock, CountingRng>;

const POLICY_RNG: u64 = 1u64 << 56;

static PRT_A: LazyLock<PRt> = LazyLock::new(|| {
    Runtime::build(
        PolicySink,
        TraceparentFilter::new_with_sampler(policy_sampler as SamplerFn),
        TraceparentCtxt::new(ThreadLocalCtxt::new()),
        clock(),
        CountingRng::starting_at(POLICY_RNG),
    )
});

/// No sampler (every new trace is sampled), on the thread-local storage SHARED with `RT1` /
/// `RT_RE2` / the `&TraceparentCtxt` runtime.
static PRT_B: LazyLock<PRt> = LazyLock::new(|| {
    Runtime::build(
        PolicySink,
        TraceparentFilter::new(),
        TraceparentCtxt::new(ThreadLocalCtxt::shared()),
        clock(),
        CountingRng::starting_at(POLICY_RNG + (1 << 52)),
    )
});

static PSLOT_C: AmbientSlot = AmbientSlot::new();

impl_env!(PEnvA, "policy:generic-runtime+sampler", true, [PolicySink, TraceparentFilter<SamplerFn>, TraceparentCtxt<ThreadLocalCtxt>, FakeClock, CountingRng], &PRT_A);
impl_env!(PEnvB, "policy:generic-runtime-no-sampler-shared-storage", true, [PolicySink, TraceparentFilter<SamplerFn>, TraceparentCtxt<ThreadLocalCtxt>, FakeClock, CountingRng], &PRT_B);
ambient_env!(PEnvC, "policy:setup_with_sampler-slot", PSLOT_C);

const N_POLICY_RT: u64 = 3;

// --- policy spans -----------------------------------------------------------------------------------

#[emit::span(rt: *P::rt(), "policy {pid}", pid)]
fn policy_span_sync<P: Env>(pid: u32, st: &std::sync::Arc<PolicyState>, who: Who, plan: &SpanPlan, cur: Tp) {
    policy_body::<P>(pid, st, who, plan, cur)
}

#[emit::span(rt: *P::rt(), "policy {pid}", pid)]
async fn policy_span_async<P: Env>(pid: u32, st: &std::sync::Arc<PolicyState>, who: Who, plan: &SpanPlan, cur: Tp) {
    // a real suspension point: the frame is exited and entered again before the body runs
    YieldNow::new().await;
    policy_body::<P>(pid, st, who, plan, cur)
}

/// `block_on` for the futures the components create. If polling panics (only ever under a defect), the
/// future is leaked instead of dropped: `FrameFuture`'s destructor enters the frame once more, and a
/// second panic while the first one unwinds would abort the whole monitor before it can report the
/// first one with a precise signature.
fn drive<F: std::future::Future>(f: F) -> F::Output {
    let mut f = Box::pin(f);
    match std::panic::catch_unwind(std::panic::AssertUnwindSafe(|| block_on(f.as_mut()))) {
        Ok(v) => v,
        Err(p) => {
            std::mem::forget(f);
            std::panic::resume_unwind(p)
        }
    }
}

/// Start one policy span on policy runtime `P` where the current traceparent is `cur`.
fn pspan<P: Env>(st: &std::sync::Arc<PolicyState>, who: Who, has_sampler: bool, plan: &SpanPlan, cur: Tp) {
    if plan.is_async {
        // The future the span macro generates cannot be leaked the way `drive` does: if entering its
        // frame panics, the async fn's own cleanup drops the `FrameFuture`, whose destructor enters
        // again - a panic in a destructor while unwinding aborts the process. So the component first
        // enters a frame of the same kind synchronously (the current traceparent, pushed once more:
        // harmless by the restoration rule); if THAT panics it is reported precisely and the async
        // span is not started.
        if let Err(m) = catch(|| emit_traceparent::Traceparent::current().push().call(|| ())) {
            st.problem(
                format!("reentrant:panic:{}-enters-a-traceparent-frame", who.name()),
                format!("Traceparent::current().push().call(..) inside the {} (before an async policy span) panicked: {}", who.name(), m),
            );
            return;
        }
    }
    let pid = st.id();
    st.spans.lock().unwrap().push(PSpan {
        pid,
        who,
        penv: P::NAME,
        has_sampler,
        cur,
        inside: None,
    });
    st.count(format!("policy-spans:{}:{}", who.name(), if cur.valid() { "child-of-current" } else { "own-new-trace" }));
    if plan.is_async {
        drive(policy_span_async::<P>(pid, st, who, plan, cur));
    } else {
        policy_span_sync::<P>(pid, st, who, plan, cur);
    }
    let after = Tp::of(&emit_traceparent::Traceparent::current());
    if after != cur {
        st.problem(
            format!("reentrant:traceparent-not-restored:after-policy-span:{}", who.name()),
            format!("policy span {} started by the {} where the current traceparent was {}; after it returned it is {}", pid, who.name(), cur.show(), after.show()),
        );
    }
}

fn pspan_on(prt: u8, st: &std::sync::Arc<PolicyState>, who: Who, plan: &SpanPlan, cur: Tp) {
    match prt {
        0 => pspan::<PEnvA>(st, who, true, plan, cur),
        1 => pspan::<PEnvB>(st, who, false, plan, cur),
        _ => pspan::<PEnvC>(st, who, true, plan, cur),
    }
}

fn policy_body<P: Env>(pid: u32, st: &std::sync::Arc<PolicyState>, who: Who, plan: &SpanPlan, _cur: Tp) {
    let inside = Tp::of(&emit_traceparent::Traceparent::current());
    let ids = Ids::of(&SpanCtxt::current(P::rt().ctxt()));
    if let Some(s) = st.spans.lock().unwrap().iter_mut().find(|s| s.pid == pid) {
        s.inside = Some((inside, ids));
    }
    if plan.event {
        emit_policy::<P>(st, who, inside);
    }
    if let Some((on_thread, child)) = &plan.child {
        let has_sampler = st.spans.lock().unwrap().iter().find(|s| s.pid == pid).map(|s| s.has_sampler).unwrap_or(true);
        if *on_thread {
            // the documented way to carry the context to another thread
            let cx = current_tree_cx();
            let f = P::in_current_frame(Box::new(|| {
                let run = || {
                    let _acting = Acting::enter();
                    let there = Tp::of(&emit_traceparent::Traceparent::current());
                    if there != inside {
                        st.problem(
                            format!("reentrant:policy-span:captured-frame-does-not-carry-traceparent:{}", who.name()),
                            format!("policy span {}: Frame::current(policy ctxt) captured where the traceparent is {} shows {} on the other thread", pid, inside.show(), there.show()),
                        );
                    }
                    pspan::<P>(st, who, has_sampler, child, there);
                };
                match &cx {
                    Some(cx) => with_tree(cx, run),
                    None => run(),
                }
            }));
            std::thread::scope(|s| {
                if let Err(p) = s.spawn(f).join() {
                    std::panic::resume_unwind(p);
                }
            });
            st.count(format!("policy-spans:{}:child-on-another-thread", who.name()));
        } else {
            pspan::<P>(st, who, has_sampler, child, inside);
        }
        let again = Tp::of(&emit_traceparent::Traceparent::current());
        if again != inside {
            st.problem(
                format!("reentrant:traceparent-not-restored:after-nested-policy-span:{}", who.name()),
                format!("inside policy span {} the traceparent was {}, after its nested span it is {}", pid, inside.show(), again.show()),
            );
        }
    }
}

fn emit_policy<P: Env>(st: &std::sync::Arc<PolicyState>, who: Who, cur: Tp) {
    let pev = st.id();
    st.pevents.lock().unwrap().push(PEvent {
        pev,
        who,
        same_rt: false,
        cur,
    });
    emit::info!(rt: *P::rt(), "policy event {pev}", pev);
}

fn emit_policy_on(prt: u8, st: &std::sync::Arc<PolicyState>, who: Who, cur: Tp) {
    match prt {
        0 => emit_policy::<PEnvA>(st, who, cur),
        1 => emit_policy::<PEnvB>(st, who, cur),
        _ => emit_policy::<PEnvC>(st, who, cur),
    }
}

fn emit_same<X: Env>(st: &std::sync::Arc<PolicyState>, who: Who, cur: Tp) {
    let pev = st.id();
    st.pevents.lock().unwrap().push(PEvent {
        pev,
        who,
        same_rt: true,
        cur,
    });
    emit::info!(rt: *X::rt(), "policy event {pev}", pev);
}

// --- generating and running one action -----------------------------------------------------------

fn gen_span_plan(g: &mut Rng, depth: u32) -> SpanPlan {
    SpanPlan {
        is_async: g.chance(1, 3),
        event: g.chance(1, 2),
        child: if depth < 2 && g.chance(1, 3) { Some((g.chance(1, 3), Box::new(gen_span_plan(g, depth + 1)))) } else { None },
    }
}

fn gen_inner(g: &mut Rng) -> Inner {
    match g.below(6) {
        0 => Inner::Nothing,
        1 => Inner::Read,
        2 | 3 => Inner::Span {
            prt: g.below(N_POLICY_RT) as u8,
            plan: gen_span_plan(g, 1),
        },
        4 => Inner::EmitSame,
        _ => Inner::EmitPolicy { prt: g.below(N_POLICY_RT) as u8 },
    }
}

fn gen_header(g: &mut Rng) -> Tp {
    let trace = (0xabu128 << 120) | g.next() as u128;
    let span = (0xcdu64 << 56) | (g.next() >> 8);
    match g.below(6) {
        0 | 1 => Tp { trace: Some(trace), span: Some(span), flags: 1 },
        2 | 3 => Tp { trace: Some(trace), span: Some(span), flags: 0 },
        4 => Tp { trace: None, span: None, flags: g.below(2) as u8 },
        _ => Tp { trace: Some(trace), span: None, flags: g.below(2) as u8 },
    }
}

fn gen_act(g: &mut Rng) -> Act {
    match g.below(12) {
        0 => Act::Read,
        1 | 2 | 3 => Act::Span {
            prt: g.below(N_POLICY_RT) as u8,
            plan: gen_span_plan(g, 0),
        },
        4 | 5 => Act::PlainFrame {
            fut: g.chance(1, 3),
            inner: gen_inner(g),
        },
        6 => Act::CurrentFrame { inner: gen_inner(g) },
        7 | 8 => Act::PushTp {
            header: gen_header(g),
            with_state: g.chance(1, 3),
            fut: g.chance(1, 3),
            inner: gen_inner(g),
        },
        9 => Act::PushState { inner: gen_inner(g) },
        10 => Act::EmitSame,
        _ => Act::EmitPolicy { prt: g.below(N_POLICY_RT) as u8 },
    }
}

#[derive(Clone, PartialEq, Debug)]
struct Snapshot {
    tp: Tp,
    state: String,
    ids: Ids,
    /// `emit_traceparent::current()` (the pair) agrees with `Traceparent::current()` / `Tracestate::current()`
    pair_ok: bool,
}

fn snapshot<X: Env>() -> Snapshot {
    let (tp, ts) = emit_traceparent::current();
    let alone = emit_traceparent::Traceparent::current();
    let state_alone = emit_traceparent::Tracestate::current();
    Snapshot {
        // (both ways of reading it; they are documented as equivalent)
        pair_ok: Tp::of(&tp) == Tp::of(&alone) && ts.get() == state_alone.get(),
        tp: Tp::of(&alone),
        state: ts.get().to_string(),
        ids: Ids::of(&SpanCtxt::current(X::rt().ctxt())),
    }
}

/// A snapshot taken by the component `who` at `place`, checked for the two things every read must satisfy:
/// the pair accessor agrees with the single ones, and ("the current traceparent always equals the trace id,
/// the innermost span's id and the sampled flag"; "if the current Traceparent is not sampled, then no
/// SpanCtxt will be returned") `SpanCtxt::current(ctxt)` shows exactly the traceparent's ids when it is
/// sampled and nothing when it is not.
fn checked_snapshot<X: Env>(st: &PolicyState, who: Who, place: &str) -> Snapshot {
    let snap = snapshot::<X>();
    let w = who.name();
    if !snap.pair_ok {
        st.problem(format!("reentrant:current-pair-differs-from-traceparent-current:{}:{}", place, w), "emit_traceparent::current() != (Traceparent::current(), Tracestate::current())".into());
    }
    let consistent = if snap.tp.sampled() { snap.ids.trace == snap.tp.trace && snap.ids.span == snap.tp.span } else { snap.ids == Ids::EMPTY };
    if !consistent {
        st.problem(
            format!("reentrant:span-ctxt-disagrees-with-traceparent:{}:{}", place, w),
            format!("read by the {} {}: Traceparent::current() is {} and SpanCtxt::current(ctxt) is {}", w, place, snap.tp.show(), snap.ids.show()),
        );
    }
    snap
}

fn do_inner<X: Env>(st: &std::sync::Arc<PolicyState>, who: Who, inner: &Inner, cur: Tp) {
    match inner {
        Inner::Nothing => {}
        Inner::Read => {
            let _ = checked_snapshot::<X>(st, who, "nested-read");
        }
        Inner::Span { prt, plan } => pspan_on(*prt, st, who, plan, cur),
        Inner::EmitSame => emit_same::<X>(st, who, cur),
        Inner::EmitPolicy { prt } => emit_policy_on(*prt, st, who, cur),
    }
}

fn do_act<X: Env>(st: &std::sync::Arc<PolicyState>, who: Who, act: &Act, before: &Snapshot) {
    let xc = X::rt().ctxt();
    let w = who.name();
    match act {
        Act::Read => {}
        Act::Span { prt, plan } => pspan_on(*prt, st, who, plan, before.tp),
        Act::EmitSame => emit_same::<X>(st, who, before.tp),
        Act::EmitPolicy { prt } => emit_policy_on(*prt, st, who, before.tp),
        Act::PlainFrame { fut, inner } => {
            let body = || {
                let inside = checked_snapshot::<X>(st, who, "inside-its-plain-frame");
                if inside.tp != before.tp {
                    st.problem(
                        format!("reentrant:non-span-frame-changes-traceparent:{}", w),
                        format!("inside Frame::push(ctxt, plain props) entered by the {} the traceparent is {}, outside {}", w, inside.tp.show(), before.tp.show()),
                    );
                }
                do_inner::<X>(st, who, inner, inside.tp);
            };
            let frame = emit::Frame::push(xc, ("policy", 1));
            if *fut {
                drive(frame.in_future(async {
                    YieldNow::new().await;
                    body()
                }));
            } else {
                frame.call(body);
            }
        }
        Act::CurrentFrame { inner } => {
            emit::Frame::current(xc).call(|| {
                let inside = checked_snapshot::<X>(st, who, "inside-its-current-frame");
                if inside != *before {
                    st.problem(
                        format!("reentrant:current-frame-changes-context:{}", w),
                        format!("inside Frame::current(ctxt).call entered by the {}: {:?}, outside {:?}", w, inside, before),
                    );
                }
                do_inner::<X>(st, who, inner, inside.tp);
            });
        }
        Act::PushTp { header, with_state, fut, inner } => {
            let body = || {
                let inside = checked_snapshot::<X>(st, who, "inside-its-pushed-header");
                if inside.tp != *header {
                    st.problem(
                        format!("reentrant:pushed-header-not-current:{}", w),
                        format!("inside the header {} pushed by the {} the traceparent is {}", header.show(), w, inside.tp.show()),
                    );
                }
                if *with_state && inside.state != "policy=1" {
                    st.problem(
                        format!("reentrant:pushed-tracestate-not-current:{}", w),
                        format!("inside push(traceparent, tracestate) by the {} the tracestate is {:?}", w, inside.state),
                    );
                }
                do_inner::<X>(st, who, inner, *header);
            };
            let frame = if *with_state {
                emit_traceparent::push(header.to_traceparent(), emit_traceparent::Tracestate::new_raw("policy=1"))
            } else {
                header.to_traceparent().push()
            };
            if *fut {
                drive(frame.in_future(async {
                    YieldNow::new().await;
                    body()
                }));
            } else {
                frame.call(body);
            }
        }
        Act::PushState { inner } => {
            emit_traceparent::Tracestate::new_raw("policy=2").push().call(|| {
                let inside = checked_snapshot::<X>(st, who, "inside-its-pushed-tracestate");
                if inside.tp != before.tp || inside.state != "policy=2" {
                    st.problem(
                        format!("reentrant:pushed-tracestate-not-current:{}", w),
                        format!("inside Tracestate::push by the {}: traceparent {} (outside {}), tracestate {:?}", w, inside.tp.show(), before.tp.show(), inside.state),
                    );
                }
                do_inner::<X>(st, who, inner, inside.tp);
            });
        }
    }
}

/// Called by the re-entrant components of runtime `X` whenever they are consulted.
fn maybe_act<X: Env>(who: Who) {
    if std::thread::panicking() || ACTING.with(|a| a.get()) > 0 {
        return;
    }
    let Some(st) = policy_state() else { return };
    let act = {
        let mut g = st.g.lock().unwrap();
        let p = st.p[who as usize];
        if !g.chance(p, 16) {
            return;
        }
        let mut left = st.left.lock().unwrap();
        if *left == 0 {
            return;
        }
        *left -= 1;
        gen_act(&mut g)
    };
    let _acting = Acting::enter();
    let w = who.name();
    st.count(format!("acts:{}:{}", w, act.name()));
    st.acts.lock().unwrap().push(format!("{}: {:?}", w, act));
    let before = match catch(|| checked_snapshot::<X>(&st, who, "when-consulted")) {
        Ok(b) => b,
        Err(m) => {
            st.problem(format!("reentrant:panic:{}-reads-current", w), format!("reading Traceparent::current() / SpanCtxt::current(ctxt) inside the {} panicked: {}", w, m));
            return;
        }
    };
    if who == Who::Sampler && before.tp.valid() {
        st.problem(
            "reentrant:sampler-consulted-inside-a-valid-trace".into(),
            format!("the sampler is running while Traceparent::current() is {} (a span started here is a child / continuation)", before.tp.show()),
        );
    }
    if let Err(m) = catch(|| do_act::<X>(&st, who, &act, &before)) {
        st.problem(format!("reentrant:panic:{}-{}", w, act.name()), format!("{:?} inside the {} panicked: {}", act, w, m));
    }
    match catch(|| checked_snapshot::<X>(&st, who, "after-acting")) {
        Ok(after) => {
            if after != before {
                let what = if after.tp != before.tp {
                    "traceparent"
                } else if after.state != before.state {
                    "tracestate"
                } else {
                    "span-ctxt"
                };
                st.problem(
                    format!("reentrant:context-left-behind:{}:{}-{}", what, w, act.name()),
                    format!("before {:?} inside the {}: {:?}; after it: {:?}", act, w, before, after),
                );
            }
        }
        Err(m) => st.problem(format!("reentrant:panic:{}-reads-current", w), format!("reading the current context after {:?} inside the {} panicked: {}", act, w, m)),
    }
}

// --- the re-entrant components ---------------------------------------------------------------------

fn re_sampler<X: Env>(ctxt: &SpanCtxt) -> bool {
    maybe_act::<X>(Who::Sampler);
    table_sampler(ctxt)
}

/// Acts, then asks the wrapped filter.
pub struct ReFilter<X, F>(F, std::marker::PhantomData<fn() -> X>);

impl<X: Env, F: emit::Filter> emit::Filter for ReFilter<X, F> {
    fn matches<E: emit::event::ToEvent>(&self, evt: E) -> bool {
        let evt = evt.to_event();
        maybe_act::<X>(Who::Filter);
        self.0.matches(&evt)
    }
}

/// Acts and lets everything pass (for `and_emit_when` on a `Setup`).
pub struct RePass<X>(std::marker::PhantomData<fn() -> X>);

impl<X: Env> emit::Filter for RePass<X> {
    fn matches<E: emit::event::ToEvent>(&self, _: E) -> bool {
        maybe_act::<X>(Who::Filter);
        true
    }
}

/// Acts (while it still holds the event it was handed), then records the event.
pub struct ReEmitter<X>(std::marker::PhantomData<fn() -> X>);

impl<X: Env> emit::Emitter for ReEmitter<X> {
    fn emit<E: emit::event::ToEvent>(&self, evt: E) {
        let evt = evt.to_event();
        maybe_act::<X>(Who::Emitter);
        Routed.emit(&evt)
    }

    fn blocking_flush(&self, _: std::time::Duration) -> bool {
        true
    }
}

const RE_RNG: u64 = 1u64 << 52;

type ReF1 = ReFilter<EnvReGeneric, TraceparentFilter<SamplerFn>>;
static RT_RE1: LazyLock<Runtime<ReEmitter<EnvReGeneric>, ReF1, TpCtxt, FakeClock, CountingRng>> = LazyLock::new(|| {
    Runtime::build(
        ReEmitter(std::marker::PhantomData),
        ReFilter(TraceparentFilter::new_with_sampler(re_sampler::<EnvReGeneric> as SamplerFn), std::marker::PhantomData),
        tp_ctxt(),
        clock(),
        CountingRng::starting_at(RE_RNG),
    )
});
impl_env!(EnvReGeneric, "reentrant:generic-runtime", true, [ReEmitter<EnvReGeneric>, ReF1, TpCtxt, FakeClock, CountingRng], &RT_RE1);

type ReF2 = ReFilter<EnvReGenericInSampled, And<TraceparentFilter<SamplerFn>, InSampledTraceFilter>>;
static RT_RE2: LazyLock<Runtime<ReEmitter<EnvReGenericInSampled>, ReF2, TpCtxt, FakeClock, CountingRng>> = LazyLock::new(|| {
    Runtime::build(
        ReEmitter(std::marker::PhantomData),
        ReFilter(
            And::new(TraceparentFilter::new_with_sampler(re_sampler::<EnvReGenericInSampled> as SamplerFn), in_sampled_trace_filter(true)),
            std::marker::PhantomData,
        ),
        // (the storage the no-sampler policy runtime also uses)
        TraceparentCtxt::new(ThreadLocalCtxt::shared()),
        clock(),
        CountingRng::starting_at(RE_RNG + (1 << 48)),
    )
});
impl_env!(EnvReGenericInSampled, "reentrant:generic-runtime+in-sampled-filter", true, [ReEmitter<EnvReGenericInSampled>, ReF2, TpCtxt, FakeClock, CountingRng], &RT_RE2);

static SLOT_RE3: AmbientSlot = AmbientSlot::new();
static SLOT_RE4: AmbientSlot = AmbientSlot::new();
ambient_env!(EnvReSetup, "reentrant:setup_with_sampler-slot", SLOT_RE3);
ambient_env!(EnvReSetupInSampled, "reentrant:setup_with_sampler-slot+in-sampled-filter", SLOT_RE4);

const N_REENTRANT: usize = 4;

fn init_envs() {
    LazyLock::force(&RT1);
    LazyLock::force(&RT2);
    LazyLock::force(&PRT_A);
    LazyLock::force(&PRT_B);
    LazyLock::force(&RT_RE1);
    LazyLock::force(&RT_RE2);
    let _ = emit_traceparent::setup_with_sampler(policy_sampler)
        .emit_to(PolicySink)
        .with_clock(clock())
        .with_rng(CountingRng::starting_at(POLICY_RNG + (2 << 52)))
        .init_slot(&PSLOT_C);
    let _ = emit_traceparent::setup_with_sampler(re_sampler::<EnvReSetup>)
        .and_emit_when(RePass::<EnvReSetup>(std::marker::PhantomData))
        .emit_to(ReEmitter::<EnvReSetup>(std::marker::PhantomData))
        .with_clock(clock())
        .with_rng(CountingRng::starting_at(RE_RNG + (2 << 48)))
        .init_slot(&SLOT_RE3);
    let _ = emit_traceparent::setup_with_sampler(re_sampler::<EnvReSetupInSampled>)
        .and_emit_when(in_sampled_trace_filter(true))
        .and_emit_when(RePass::<EnvReSetupInSampled>(std::marker::PhantomData))
        .emit_to(ReEmitter::<EnvReSetupInSampled>(std::marker::PhantomData))
        .with_clock(clock())
        .with_rng(CountingRng::starting_at(RE_RNG + (3 << 48)))
        .init_slot(&SLOT_RE4);
    // exactly the documented set-up path, with the emitter / clock / rng replaced
    let _ = emit_traceparent::setup_with_sampler(table_sampler)
        .emit_to(Routed)
        .with_clock(clock())
        .with_rng(CountingRng::starting_at(1 << 40))
        .init_slot(&SLOT3);
    let _ = emit_traceparent::setup_with_sampler(table_sampler)
        .and_emit_when(in_sampled_trace_filter(true))
        .emit_to(Routed)
        .with_clock(clock())
        .with_rng(CountingRng::starting_at(1 << 44))
        .init_slot(&SLOT4);
}

// ---------------------------------------------------------------------------
// oracle
// ---------------------------------------------------------------------------

#[derive(Clone, Copy, PartialEq, Eq, Debug)]
enum Role {
    NewTrace,
    Continued,
}

struct Oracle<'a> {
    in_sampled: bool,
    run: &'a TreeRun,
    obs: HashMap<(u32, Point), Vec<&'a Obs>>,
    spans: HashMap<u32, Vec<Seen>>,
    events: HashMap<u32, Vec<Seen>>,
    stray: Vec<Seen>,
    /// span id (as observed in the node's body) -> (node, role, how it was reached)
    roles: HashMap<u64, (u32, Role, &'static str)>,
    found: Vec<(String, String)>,
    /// program points that are never reached because a scripted panic unwinds past them
    unwound: HashSet<(u32, Point)>,
    n_panics_caught: u64,
    n_cancelled: u64,
    n_cancelled_unpolled: u64,
    n_cancelled_unsampled: u64,
    n_setup_control: u64,
    n_ended_by_complete_with: u64,
    n_ended_by_complete_with_unsampled: u64,
    /// indexes into `found` whose signature is reported without the runtime's name
    no_env_suffix: HashSet<usize>,
    // measurements
    n_tp_reads: u64,
    n_new_sampled: u64,
    n_new_unsampled: u64,
    n_continued_spans: u64,
    n_spans_in_unsampled: u64,
    n_span_events: u64,
    n_events: u64,
    n_events_suppressed: u64,
    n_headers: HashMap<&'static str, u64>,
    n_reused: HashMap<&'static str, u64>,
    n_remote: u64,
    n_handoffs: u64,
    n_groups_interleaved: u64,
    n_explicit: u64,
    nontrivial: bool,
}

fn kind(n: &Node) -> &'static str {
    match (&n.variant, n.is_async) {
        (Variant::Top, _) => "top",
        (Variant::ResultAware { fail: false }, false) => "sync-result-ok",
        (Variant::ResultAware { fail: true }, false) => "sync-result-err",
        (Variant::ResultAware { fail: false }, true) => "async-result-ok",
        (Variant::ResultAware { fail: true }, true) => "async-result-err",
        (Variant::Guard(GuardEnd::Complete), false) => "sync-guard-complete",
        (Variant::Guard(GuardEnd::Complete), true) => "async-guard-complete",
        (Variant::Guard(GuardEnd::CompleteWith), false) => "sync-guard-complete_with",
        (Variant::Guard(GuardEnd::CompleteWith), true) => "async-guard-complete_with",
        (Variant::Setup { .. }, false) => "sync-setup",
        (Variant::Setup { .. }, true) => "async-setup",
        (Variant::Manual { complete_with: false, .. }, _) => "new_span-dropped",
        (Variant::Manual { complete_with: true, .. }, _) => "new_span-complete_with",
        (Variant::ExplicitTrace(_), false) => "sync-explicit-trace-id",
        (Variant::ExplicitTrace(_), true) => "async-explicit-trace-id",
        (_, false) => "sync",
        (_, true) => "async",
    }
}

fn header_kind(spec: &HeaderSpec) -> &'static str {
    match spec {
        HeaderSpec::Fresh { flags, .. } => {
            if flags & 1 == 1 {
                "header-sampled"
            } else {
                "header-unsampled"
            }
        }
        HeaderSpec::Invalid { flags, trace, span } => match (trace.is_some(), span.is_some(), flags & 1 == 1) {
            (false, false, true) => "header-invalid-flag-01",
            (false, false, false) => "header-invalid-flag-00",
            (true, _, true) => "header-invalid-zero-parent-id-flag-01",
            (true, _, false) => "header-invalid-zero-parent-id-flag-00",
            (_, _, true) => "header-invalid-zero-trace-id-flag-01",
            (_, _, false) => "header-invalid-zero-trace-id-flag-00",
        },
        HeaderSpec::SameTrace { .. } => "header-same-trace",
    }
}

fn via_name(v: &Via) -> &'static str {
    match v {
        Via::Direct => "direct",
        Via::Thread => "thread",
        Via::Props { .. } => "props",
        Via::TraceOnly { .. } => "trace-only",
        Via::Plain { .. } => "plain-frame",
        Via::Header { spec, .. } => header_kind(spec),
        Via::Remote => "remote",
        Via::Catch => "catch",
        Via::Cancel { .. } => "cancelled-future",
    }
}

impl<'a> Oracle<'a> {
    fn new(in_sampled: bool, run: &'a TreeRun) -> Self {
        let mut obs: HashMap<(u32, Point), Vec<&Obs>> = HashMap::new();
        for o in &run.log {
            obs.entry((o.node, o.point)).or_default().push(o);
        }
        let mut spans: HashMap<u32, Vec<Seen>> = HashMap::new();
        let mut events: HashMap<u32, Vec<Seen>> = HashMap::new();
        let mut stray = Vec::new();
        for c in &run.events {
            let s = seen(c);
            if s.is_span {
                match s.node {
                    Some(n) => spans.entry(n).or_default().push(s),
                    None => stray.push(s),
                }
            } else {
                match s.eid {
                    Some(e) => events.entry(e).or_default().push(s),
                    None => stray.push(s),
                }
            }
        }
        Oracle {
            in_sampled,
            run,
            obs,
            spans,
            events,
            stray,
            roles: HashMap::new(),
            found: Vec::new(),
            unwound: HashSet::new(),
            n_panics_caught: 0,
            n_cancelled: 0,
            n_cancelled_unpolled: 0,
            n_cancelled_unsampled: 0,
            n_setup_control: 0,
            n_ended_by_complete_with: 0,
            n_ended_by_complete_with_unsampled: 0,
            no_env_suffix: HashSet::new(),
            n_tp_reads: 0,
            n_new_sampled: 0,
            n_new_unsampled: 0,
            n_continued_spans: 0,
            n_spans_in_unsampled: 0,
            n_span_events: 0,
            n_events: 0,
            n_events_suppressed: 0,
            n_headers: HashMap::new(),
            n_reused: HashMap::new(),
            n_remote: 0,
            n_handoffs: 0,
            n_groups_interleaved: 0,
            n_explicit: 0,
            nontrivial: false,
        }
    }

    fn bad(&mut self, sig: String, what: String) {
        self.found.push((format!("C18:{}", sig), what));
    }

    /// All reads of `Traceparent::current()` at `(node, point)` must equal `want`
    /// (`exact`: including the other flag bits; otherwise trace id, span id and the sampled bit).
    fn expect_tp(&mut self, node: u32, point: Point, want: &Tp, exact: bool, sig: &str) {
        let v: Vec<&'a Obs> = self.obs.get(&(node, point)).cloned().unwrap_or_default();
        if self.unwound.contains(&(node, point)) {
            if !v.is_empty() {
                self.bad(
                    "interpreter:point-reached-although-a-panic-unwinds-past-it".into(),
                    format!("node {} point {:?}", node, point),
                );
            }
            return;
        }
        if v.len() != 1 {
            self.bad(
                format!("interpreter:point-read-{}-times", v.len().min(2)),
                format!("node {} point {:?} was read {} times (monitor expects once)", node, point, v.len()),
            );
        }
        for o in v {
            self.n_tp_reads += 1;
            let got = o.tp.unwrap_or(Tp::EMPTY);
            let same = got.trace == want.trace && got.span == want.span && if exact { got.flags == want.flags } else { got.sampled() == want.sampled() };
            if !same {
                self.bad(
                    sig.to_string(),
                    format!(
                        "Traceparent::current() at node {} {:?} is {} but the model says {} (trace/span/flags)",
                        node,
                        point,
                        got.show(),
                        want.show()
                    ),
                );
            }
        }
    }

    /// `outer`: the traceparent that is current where the node's span starts.
    fn walk(&mut self, node: &Node, outer: &Tp, via: &'static str) {
        // a header pushed and entered by the span macro's `setup:` fn is, for the span, exactly a
        // header pushed by hand around it: the span is created in it
        let (setup_outer, setup_via);
        let (outer, via) = match &node.variant {
            Variant::Setup { header: Some(spec), .. } => match self.run.headers.iter().find(|(n, s, _)| *n == node.id && *s == u16::MAX) {
                Some((_, _, h)) => {
                    *self.n_headers.entry("setup-header").or_default() += 1;
                    if let HeaderSpec::SameTrace { .. } = spec {
                        if h.trace != outer.trace {
                            self.bad(
                                "interpreter:same-trace-header-built-from-wrong-current".into(),
                                format!("setup header {} built at node {} where the model says {}", h.show(), node.id, outer.show()),
                            );
                        }
                    }
                    setup_outer = *h;
                    setup_via = match header_kind(spec) {
                        "header-sampled" => "setup-header-sampled",
                        "header-unsampled" => "setup-header-unsampled",
                        "header-invalid-flag-01" => "setup-header-invalid-flag-01",
                        "header-invalid-flag-00" => "setup-header-invalid-flag-00",
                        "header-invalid-zero-parent-id-flag-01" => "setup-header-invalid-zero-parent-id-flag-01",
                        "header-invalid-zero-parent-id-flag-00" => "setup-header-invalid-zero-parent-id-flag-00",
                        "header-invalid-zero-trace-id-flag-01" => "setup-header-invalid-zero-trace-id-flag-01",
                        "header-invalid-zero-trace-id-flag-00" => "setup-header-invalid-zero-trace-id-flag-00",
                        _ => "setup-header-same-trace",
                    };
                    (&setup_outer, setup_via)
                }
                None => {
                    self.bad(
                        "setup-did-not-run".into(),
                        format!("node {}: the `setup:` fn of the span never ran", node.id),
                    );
                    (outer, via)
                }
            },
            Variant::Setup { header: None, .. } => {
                self.n_setup_control += 1;
                (outer, via)
            }
            _ => (outer, via),
        };
        let is_span = node.variant != Variant::Top;
        let enter = match self.obs.get(&(node.id, Point::Enter)).map(|v| v.as_slice()) {
            Some([o]) => *o,
            other => {
                let n = other.map(|v| v.len()).unwrap_or(0);
                self.bad(
                    format!("interpreter:body-ran-{}-times", n.min(2)),
                    format!("body of node {} ran {} times", node.id, n),
                );
                return;
            }
        };
        self.n_tp_reads += 1;
        let k = kind(node);
        let got = enter.tp.unwrap_or(Tp::EMPTY);
        let where_ = format!("{}:via={}", k, via);
        if node.unwinds {
            let last = (node.steps.len().max(1) - 1) as u16;
            self.unwound.insert((node.id, Point::Exit));
            self.unwound.insert((node.id, Point::After(last)));
            self.unwound.insert((node.id, Point::ViaOut(last)));
            self.unwound.insert((node.id, Point::Resume(last)));
        }
        if matches!(node.variant, Variant::ExplicitTrace(_)) {
            self.n_explicit += 1;
        }

        let inside: Tp = if !is_span {
            if got != *outer {
                self.bad(
                    "traceparent-changed-without-span-or-header".into(),
                    format!("top level sees {} instead of {}", got.show(), outer.show()),
                );
            }
            *outer
        } else if outer.valid() {
            // a child span / a continued trace
            self.n_continued_spans += 1;
            self.nontrivial = true;
            if !outer.sampled() {
                self.n_spans_in_unsampled += 1;
            }
            if got.trace != outer.trace {
                self.bad(
                    format!("child-span-leaves-the-trace:{}", where_),
                    format!(
                        "node {} started inside trace {:x?} but its current traceparent has trace id {:x?}",
                        node.id, outer.trace, got.trace
                    ),
                );
            }
            if got.sampled() != outer.sampled() {
                self.bad(
                    format!(
                        "sampled-flag-not-inherited:{}:{}",
                        if outer.sampled() { "sampled-parent" } else { "unsampled-parent" },
                        where_
                    ),
                    format!(
                        "node {} started under {} but its current traceparent is {}",
                        node.id,
                        outer.show(),
                        got.show()
                    ),
                );
            }
            if got.span.is_none() || got.span == outer.span {
                self.bad(
                    format!("span-without-its-own-span-id-in-traceparent:{}", where_),
                    format!(
                        "node {} started under {} and its current traceparent is {} (expected the node's own span id)",
                        node.id,
                        outer.show(),
                        got.show()
                    ),
                );
            }
            if let Some(s) = got.span {
                self.roles.insert(s, (node.id, Role::Continued, via));
            }
            got
        } else {
            // a new trace: the sampler decides
            let calls: Vec<&SamplerCall> = self.run.sampler_log.iter().filter(|c| c.seen.span.is_some() && c.seen.span == got.span).collect();
            if got.trace.is_none() || got.span.is_none() {
                self.bad(
                    format!("new-trace-without-ids:{}", where_),
                    format!("node {} starts a new trace but its current traceparent is {}", node.id, got.show()),
                );
            }
            if outer.trace.is_some() && got.trace == outer.trace {
                // Not judged: the statement does not say which trace id a new trace gets (observed on
                // the unchanged tree: a sampled header with a non-zero trace id and an all-zero parent
                // id hands its trace id to the new root). Counted for the evidence only.
                *self
                    .n_reused
                    .entry(if outer.sampled() { "new-trace-reuses-trace-id-of-invalid-header:flag-01" } else { "new-trace-reuses-trace-id-of-invalid-header:flag-00" })
                    .or_default() += 1;
            }
            if let Some(s) = got.span {
                self.roles.insert(s, (node.id, Role::NewTrace, via));
            }
            match calls.as_slice() {
                [] => {
                    self.bad(
                        format!("sampler-not-called-for-new-trace:{}", where_),
                        format!(
                            "node {} starts a new trace (current traceparent where it starts: {}) but the sampler log has no call for span id {:x?}",
                            node.id,
                            outer.show(),
                            got.span
                        ),
                    );
                }
                [c, rest @ ..] => {
                    if !rest.is_empty() {
                        self.bad(
                            format!("sampler-called-{}-times-for-one-trace:{}", (rest.len() + 1).min(3), where_),
                            format!("node {} starts a new trace and the sampler was called {} times for it", node.id, rest.len() + 1),
                        );
                    }
                    if c.seen.trace != got.trace {
                        self.bad(
                            format!("sampler-saw-another-trace-id:{}", where_),
                            format!("sampler was shown trace id {:x?}, the trace is {:x?}", c.seen.trace, got.trace),
                        );
                    }
                    if c.decision {
                        self.n_new_sampled += 1;
                    } else {
                        self.n_new_unsampled += 1;
                    }
                    if got.sampled() != c.decision {
                        self.bad(
                            format!(
                                "sampler-decision-not-applied:{}:{}",
                                if c.decision { "said-sampled" } else { "said-unsampled" },
                                where_
                            ),
                            format!(
                                "the sampler answered {} for node {} but the current traceparent inside it is {}",
                                c.decision,
                                node.id,
                                got.show()
                            ),
                        );
                    }
                }
            }
            got
        };

        // the span event
        if is_span {
            let evs = self.spans.remove(&node.id).unwrap_or_default();
            self.n_span_events += evs.len() as u64;
            // what the model says, independent of what the traceparent inside showed
            let model_sampled = if outer.valid() {
                outer.sampled()
            } else {
                self.run
                    .sampler_log
                    .iter()
                    .find(|c| c.seen.span.is_some() && c.seen.span == got.span)
                    .map(|c| c.decision)
                    .unwrap_or(inside.sampled())
            };
            let ends_by_complete_with = !node.unwinds
                && matches!(
                    node.variant,
                    Variant::ResultAware { .. } | Variant::Guard(GuardEnd::CompleteWith) | Variant::Manual { complete_with: true, .. }
                );
            if ends_by_complete_with {
                self.n_ended_by_complete_with += 1;
                if !model_sampled {
                    self.n_ended_by_complete_with_unsampled += 1;
                }
            }
            let want = if model_sampled { 1 } else { 0 };
            if evs.len() != want {
                let why = if outer.valid() {
                    if model_sampled {
                        "in-sampled-trace"
                    } else {
                        "in-unsampled-trace"
                    }
                } else if model_sampled {
                    "sampled-by-sampler"
                } else {
                    "rejected-by-sampler"
                };
                let under = if !outer.valid() && *outer != Tp::EMPTY {
                    if outer.sampled() {
                        ":under-invalid-header-flag-01"
                    } else {
                        ":under-invalid-header-flag-00"
                    }
                } else {
                    ""
                };
                self.bad(
                    format!(
                        "{}{}-span-events:{}{}:{}",
                        // (async nodes that never get to their end are the ones dropped while suspended)
                        if node.unwinds && node.is_async { "cancelled:" } else { "" },
                        evs.len().min(2),
                        why,
                        under,
                        where_
                    ),
                    format!(
                        "node {} ({}, started under {}) produced {} span events, expected {}",
                        node.id,
                        why,
                        outer.show(),
                        evs.len(),
                        want
                    ),
                );
            }
            if model_sampled {
                let want_parent = if outer.valid() { outer.span.map(hex_span) } else { None };
                for e in &evs {
                    if e.trace != inside.trace.map(hex_trace) || e.span != inside.span.map(hex_span) || e.parent != want_parent {
                        self.bad(
                            format!("{}span-event-ids:{}", if node.unwinds && node.is_async { "cancelled:" } else { "" }, where_),
                            format!(
                                "span event of node {} carries trace_id={:?} span_id={:?} span_parent={:?}; current traceparent inside it {}, where it started {}",
                                node.id,
                                e.trace,
                                e.span,
                                e.parent,
                                inside.show(),
                                outer.show()
                            ),
                        );
                    }
                }
            }
        }

        let restored = |what: &str| format!("traceparent-not-restored:{}:{}", what, k);
        for (i, step) in node.steps.iter().enumerate() {
            let i = i as u16;
            match step {
                Step::Event(eid) => {
                    let evs = self.events.remove(eid).unwrap_or_default();
                    self.n_events += evs.len() as u64;
                    let in_trace = inside.valid();
                    if !in_trace || inside.sampled() {
                        if evs.len() != 1 {
                            self.bad(
                                format!(
                                    "event-emitted-{}-times:{}",
                                    evs.len().min(2),
                                    if in_trace { "in-sampled-trace" } else { "outside-any-trace" }
                                ),
                                format!("event {} in node {} (current traceparent {}) was emitted {} times", eid, node.id, inside.show(), evs.len()),
                            );
                        }
                        if in_trace {
                            for e in &evs {
                                if e.trace != inside.trace.map(hex_trace) || e.span != inside.span.map(hex_span) {
                                    self.bad(
                                        format!("event-ids:{}", k),
                                        format!(
                                            "event {} in node {} carries trace_id={:?} span_id={:?}, current traceparent {}",
                                            eid,
                                            node.id,
                                            e.trace,
                                            e.span,
                                            inside.show()
                                        ),
                                    );
                                }
                            }
                        }
                    } else if self.in_sampled {
                        self.n_events_suppressed += 1;
                        if !evs.is_empty() {
                            self.bad(
                                "event-emitted-in-unsampled-trace-with-sampled-trace-filter".into(),
                                format!("event {} in node {} (current traceparent {}) was emitted {} times", eid, node.id, inside.show(), evs.len()),
                            );
                        }
                    }
                    // unsampled trace without the sampled-trace filter: unconstrained
                }
                Step::Panic => {}
                Step::Yield => {
                    if node.is_async {
                        self.expect_tp(node.id, Point::Resume(i), &inside, true, &restored("after-yield"));
                    }
                }
                Step::Child { node: child, via } => {
                    let vn = via_name(via);
                    self.expect_tp(node.id, Point::Before(i), &inside, true, &restored("before-child"));
                    let child_outer = match via {
                        Via::Direct => inside,
                        Via::Thread => {
                            self.n_handoffs += 1;
                            // what the other thread sees inside the captured `Frame::current(ctxt)`
                            let seen_there = self
                                .obs
                                .get(&(node.id, Point::ViaIn(i)))
                                .and_then(|v| v.first())
                                .map(|o| o.tp.unwrap_or(Tp::EMPTY));
                            let there = match seen_there {
                                Some(t) if t != inside => {
                                    self.n_tp_reads += 1;
                                    // one precise signature, then carry on from what was actually there
                                    // (otherwise every span below would be reported again)
                                    self.found.push((
                                        format!(
                                            "C18:captured-frame-does-not-carry-traceparent:{}",
                                            if t == Tp::EMPTY { "other-thread-sees-none" } else { "other-thread-sees-another" }
                                        ),
                                        format!(
                                            "node {} step {}: Frame::current(ctxt).in_fn(..) captured where Traceparent::current() is {} but on the thread it was handed to Traceparent::current() is {}",
                                            node.id,
                                            i,
                                            inside.show(),
                                            t.show()
                                        ),
                                    ));
                                    self.no_env_suffix.insert(self.found.len() - 1);
                                    t
                                }
                                Some(t) => {
                                    self.n_tp_reads += 1;
                                    t
                                }
                                None => {
                                    self.bad("interpreter:handoff-not-observed".into(), format!("node {} step {}", node.id, i));
                                    inside
                                }
                            };
                            self.expect_tp(node.id, Point::ViaOut(i), &there, true, &restored("after-child-on-other-thread"));
                            there
                        }
                        Via::Header { spec, .. } => {
                            *self.n_headers.entry(vn).or_default() += 1;
                            match self.run.headers.iter().find(|(n, s, _)| *n == node.id && *s == i) {
                                Some((_, _, h)) => {
                                    let h = *h;
                                    if let HeaderSpec::SameTrace { .. } = spec {
                                        if h.trace != inside.trace {
                                            self.bad(
                                                "interpreter:same-trace-header-built-from-wrong-current".into(),
                                                format!("header {} built at node {} where the model says {}", h.show(), node.id, inside.show()),
                                            );
                                        }
                                    }
                                    self.expect_tp(node.id, Point::ViaIn(i), &h, true, &format!("pushed-header-not-current:{}", vn));
                                    self.expect_tp(node.id, Point::ViaOut(i), &h, true, &format!("traceparent-not-restored:after-child:inside-{}", vn));
                                    h
                                }
                                None => {
                                    self.bad("interpreter:header-not-recorded".into(), format!("node {} step {}", node.id, i));
                                    inside
                                }
                            }
                        }
                        Via::Remote => {
                            self.n_remote += 1;
                            match self.run.headers.iter().find(|(n, s, _)| *n == node.id && *s == i) {
                                Some((_, _, h)) => {
                                    let h = *h;
                                    if h != inside {
                                        self.bad(
                                            format!("outgoing-header-differs-from-current:{}", k),
                                            format!(
                                                "the header formatted from Traceparent::current() at node {} parses to {} but the current traceparent is {}",
                                                node.id,
                                                h.show(),
                                                inside.show()
                                            ),
                                        );
                                    }
                                    self.expect_tp(node.id, Point::RemoteTop(i), &Tp::EMPTY, true, "fresh-thread-has-a-traceparent");
                                    self.expect_tp(node.id, Point::ViaIn(i), &h, true, "pushed-header-not-current:remote");
                                    self.expect_tp(node.id, Point::ViaOut(i), &h, true, "traceparent-not-restored:after-child:inside-remote-header");
                                    self.expect_tp(node.id, Point::RemoteEnd(i), &Tp::EMPTY, true, "traceparent-not-restored:after-pushed-header:remote-thread");
                                    h
                                }
                                None => {
                                    self.bad("interpreter:header-not-recorded".into(), format!("node {} step {}", node.id, i));
                                    inside
                                }
                            }
                        }
                        Via::Plain { .. } => {
                            // `Frame::push(ctxt, plain props).call(..)` (on the way to a scripted panic)
                            self.expect_tp(node.id, Point::ViaIn(i), &inside, true, "non-span-frame-changes-traceparent");
                            self.expect_tp(node.id, Point::ViaOut(i), &inside, true, "traceparent-not-restored:after-child:inside-non-span-frame");
                            inside
                        }
                        Via::Catch => {
                            // the panic that unwinds through the spans / pushed headers / frames below is
                            // caught here: after it (the `After` read below) everything must be as before
                            match self.run.caught.iter().find(|(n, s, _)| *n == node.id && *s == i) {
                                Some((_, _, true)) => self.n_panics_caught += 1,
                                other => self.bad(
                                    "interpreter:scripted-panic-not-caught".into(),
                                    format!("node {} step {}: {:?}", node.id, i, other),
                                ),
                            }
                            inside
                        }
                        Via::Cancel { polls } => {
                            // the child's future was polled `polls` times and dropped: spans of the chain
                            // complete inside their frames (sampled: one event each with their own ids;
                            // unsampled: nothing), and the `After` read must show the traceparent restored
                            match self.run.caught.iter().find(|(n, s, _)| *n == node.id && *s == i) {
                                Some((_, _, false)) => {}
                                other => self.bad(
                                    "interpreter:cancelled-future-finished-or-missing".into(),
                                    format!("node {} step {}: {:?}", node.id, i, other),
                                ),
                            }
                            if *polls == 0 {
                                if self.obs.contains_key(&(child.id, Point::Enter)) {
                                    self.bad("cancelled:never-polled-future-ran".into(), format!("node {} ran although its future was never polled", child.id));
                                }
                                self.n_cancelled_unpolled += 1;
                                self.expect_tp(node.id, Point::After(i), &inside, true, "cancelled:traceparent-not-restored:after-dropping-an-unpolled-future");
                                continue;
                            }
                            self.n_cancelled += 1;
                            if !inside.sampled() && inside.valid() {
                                self.n_cancelled_unsampled += 1;
                            }
                            inside
                        }
                        Via::Props { .. } | Via::TraceOnly { .. } => unreachable!("not generated for C18"),
                    };
                    self.walk(child, &child_outer, vn);
                    self.expect_tp(
                        node.id,
                        Point::After(i),
                        &inside,
                        true,
                        &format!("{}:child-via={}:{}", restored("after-child"), vn, if child.is_async { "async-child" } else { "sync-child" }),
                    );
                }
                Step::Group { nodes, .. } => {
                    self.expect_tp(node.id, Point::Before(i), &inside, true, &restored("before-group"));
                    if let Some((_, _, order)) = self.run.polls.iter().find(|(n, s, _)| *n == node.id && *s == i) {
                        if interleaved(order) {
                            self.n_groups_interleaved += 1;
                        }
                    }
                    for n in nodes {
                        self.walk(n, &inside, "group");
                    }
                    self.expect_tp(node.id, Point::After(i), &inside, true, &restored("after-group"));
                }
            }
        }
        self.expect_tp(node.id, Point::Exit, &inside, true, &restored("at-exit"));
    }

    fn finish(&mut self) {
        // every sampler call must belong to a span that started a new trace
        let calls: Vec<SamplerCall> = self.run.sampler_log.clone();
        for c in &calls {
            match c.seen.span.and_then(|s| self.roles.get(&s).copied()) {
                Some((_, Role::NewTrace, _)) => {}
                Some((node, Role::Continued, via)) => self.bad(
                    format!(
                        "sampler-called-for-{}",
                        if via.starts_with("header") || via.starts_with("setup-header") || via == "remote" {
                            format!("continued-trace:via={}", via)
                        } else {
                            format!("child-span:via={}", via)
                        }
                    ),
                    format!("the sampler was called with {} for node {}, which does not start a new trace", c.seen.show(), node),
                ),
                None => self.bad(
                    "sampler-called-for-unknown-span".into(),
                    format!("the sampler was called with {} which is no node's span", c.seen.show()),
                ),
            }
        }
        let mut left: Vec<String> = Vec::new();
        for (n, v) in self.spans.drain() {
            left.push(format!("{} span event(s) with id={} (no such node)", v.len(), n));
        }
        for (e, v) in self.events.drain() {
            left.push(format!("{} event(s) with eid={} (no such event)", v.len(), e));
        }
        let stray = std::mem::take(&mut self.stray);
        for s in &stray {
            if s.is_span {
                // a span event without the `id` its frame pushes: the span was rejected (its frame is
                // a disabled one) and completed all the same
                self.bad(
                    "span-event-from-a-rejected-span".into(),
                    format!("a span event without its frame's props was emitted (trace_id={:?} span_id={:?}): {}", s.trace, s.span, s.raw.to_json()),
                );
            } else {
                left.push(format!("event without eid: {}", s.raw.to_json()));
            }
        }
        if !left.is_empty() {
            self.bad("unexplained-events".into(), left.join("; "));
        }
        for p in &self.run.problems {
            self.bad("outgoing-header-does-not-parse".into(), p.clone());
        }
    }
}

// ---------------------------------------------------------------------------
// one case
// ---------------------------------------------------------------------------

#[derive(Default)]
struct Shapes {
    all: HashSet<u64>,
    nontrivial: HashSet<u64>,
}

static SHAPES: LazyLock<Mutex<Shapes>> = LazyLock::new(|| Mutex::new(Shapes::default()));

fn gen_cfg() -> GenCfg {
    GenCfg {
        traceparent: true,
        max_depth: 6,
        max_fan: 4,
        max_nodes: if cfg!(miri) { 8 } else { 30 },
    }
}

fn case_input(seed: u64, index: u64) -> (Node, Vec<bool>) {
    let mut g = Rng::stream(seed, &[18, 1, index]);
    let tree = gen_tree(&mut g, &gen_cfg());
    let n = 1 + g.usize(6);
    let bias = *g.pick(&[0u64, 4, 8, 12, 16]);
    let table = (0..n).map(|_| g.chance(bias, 16)).collect();
    (tree, table)
}

/// Judge what the re-entrant components of one tree run did (see the section comment above).
fn judge_policy(r: &mut Report, st: &PolicyState, same_rt: &[vcommon::rec::Captured], in_sampled: bool, env: &str, case: &dyn Fn() -> Json) {
    let mut found: Vec<(String, String)> = std::mem::take(&mut *st.problems.lock().unwrap());
    let pol = st.sink.take();
    let spans = st.spans.lock().unwrap().clone();
    let pevents = st.pevents.lock().unwrap().clone();
    let calls = st.sampler_log.lock().unwrap().clone();
    let num = |c: &vcommon::rec::Captured, k: &str| c.get(k).and_then(|v| v.parse::<u32>().ok());
    let mut explained: HashSet<u64> = HashSet::new();

    for sp in &spans {
        let w = sp.who.name();
        let Some((inside, ids)) = sp.inside else {
            found.push((format!("reentrant:policy-span:body-did-not-run:{}", w), format!("policy span {} on {} never ran its body", sp.pid, sp.penv)));
            continue;
        };
        let own: Vec<&SamplerCall> = calls.iter().filter(|c| c.seen.span.is_some() && c.seen.span == inside.span).collect();
        let model_sampled;
        if sp.cur.valid() {
            // a child of whatever is current (the current traceparent is shared by every TraceparentCtxt)
            model_sampled = sp.cur.sampled();
            if inside.trace != sp.cur.trace {
                found.push((format!("reentrant:policy-span:child-leaves-the-trace:{}", w), format!("policy span {} started where the traceparent was {} but inside it is {}", sp.pid, sp.cur.show(), inside.show())));
            }
            if inside.sampled() != sp.cur.sampled() {
                found.push((format!("reentrant:policy-span:sampled-flag-not-inherited:{}", w), format!("policy span {} started under {} but inside it is {}", sp.pid, sp.cur.show(), inside.show())));
            }
            if inside.span.is_none() || inside.span == sp.cur.span {
                found.push((format!("reentrant:policy-span:no-own-span-id-in-traceparent:{}", w), format!("policy span {} started under {} and inside it is {}", sp.pid, sp.cur.show(), inside.show())));
            }
            if !own.is_empty() {
                found.push((format!("reentrant:policy-sampler-called-for-child:{}", w), format!("policy span {} started under the valid traceparent {} and the policy sampler was consulted for it", sp.pid, sp.cur.show())));
            }
            r.observe("reentrant:policy-spans:child-of-current", 1);
        } else {
            // the root of its own new trace
            if inside.trace.is_none() || inside.span.is_none() {
                found.push((format!("reentrant:policy-span:new-trace-without-ids:{}", w), format!("policy span {} starts a new trace but inside it the traceparent is {}", sp.pid, inside.show())));
            }
            if sp.has_sampler {
                match own.as_slice() {
                    [] => {
                        model_sampled = inside.sampled();
                        found.push((
                            format!("reentrant:policy-span:sampler-not-called-for-new-trace:{}", w),
                            format!("policy span {} on {} started where the traceparent was {} (not valid: it is the root of a new trace, traceparent inside {}) but its runtime's sampler was never consulted for it", sp.pid, sp.penv, sp.cur.show(), inside.show()),
                        ));
                    }
                    [c, rest @ ..] => {
                        model_sampled = c.decision;
                        if !rest.is_empty() {
                            found.push((format!("reentrant:policy-span:sampler-called-{}-times-for-one-trace:{}", (rest.len() + 1).min(3), w), format!("policy span {}", sp.pid)));
                        }
                        if c.seen.trace != inside.trace {
                            found.push((format!("reentrant:policy-span:sampler-saw-another-trace-id:{}", w), format!("policy span {}: sampler shown {}, traceparent inside {}", sp.pid, c.seen.show(), inside.show())));
                        }
                        if inside.sampled() != c.decision {
                            found.push((
                                format!("reentrant:policy-span:sampler-decision-not-applied:{}:{}", if c.decision { "said-sampled" } else { "said-unsampled" }, w),
                                format!("policy span {}: its sampler answered {} but the traceparent inside it is {}", sp.pid, c.decision, inside.show()),
                            ));
                        }
                    }
                }
            } else {
                model_sampled = true;
                if !inside.sampled() {
                    found.push((format!("reentrant:policy-span:unsampled-without-a-sampler:{}", w), format!("policy span {} on a runtime without a sampler: traceparent inside {}", sp.pid, inside.show())));
                }
            }
            if let Some(s) = inside.span {
                explained.insert(s);
            }
            r.observe(&format!("reentrant:policy-spans:own-new-trace:started-in-{}", w), 1);
        }
        // SpanCtxt::current(policy ctxt) inside
        let want_parent = if sp.cur.valid() { sp.cur.span } else { None };
        let ids_ok = if inside.sampled() { ids.trace == inside.trace && ids.span == inside.span && ids.parent == want_parent } else { ids == Ids::EMPTY };
        if !ids_ok {
            found.push((
                format!("reentrant:policy-span:span-ctxt-disagrees-with-traceparent:{}", w),
                format!("inside policy span {} Traceparent::current() is {} and SpanCtxt::current(policy ctxt) is {} (started under {})", sp.pid, inside.show(), ids.show(), sp.cur.show()),
            ));
        }
        // its span event
        let evs: Vec<&vcommon::rec::Captured> = pol.iter().filter(|c| c.get("evt_kind") == Some("span") && num(c, "pid") == Some(sp.pid)).collect();
        r.observe("reentrant:policy-span-events", evs.len() as u64);
        let want = model_sampled as usize;
        if evs.len() != want {
            found.push((
                format!(
                    "reentrant:policy-span:{}-span-events:{}:{}",
                    evs.len().min(2),
                    if sp.cur.valid() { if model_sampled { "in-sampled-trace" } else { "in-unsampled-trace" } } else if model_sampled { "sampled-root" } else { "rejected-root" },
                    w
                ),
                format!("policy span {} (started under {}, inside {}) produced {} span events, expected {}", sp.pid, sp.cur.show(), inside.show(), evs.len(), want),
            ));
        }
        if model_sampled {
            for e in &evs {
                if e.get("trace_id").map(|s| s.to_string()) != inside.trace.map(hex_trace) || e.get("span_id").map(|s| s.to_string()) != inside.span.map(hex_span) || e.get("span_parent").map(|s| s.to_string()) != want_parent.map(hex_span) {
                    found.push((
                        format!("reentrant:policy-span:span-event-ids:{}", w),
                        format!("span event of policy span {} carries trace_id={:?} span_id={:?} span_parent={:?}; inside {}, started under {}", sp.pid, e.get("trace_id"), e.get("span_id"), e.get("span_parent"), inside.show(), sp.cur.show()),
                    ));
                }
            }
        }
    }
    for c in &calls {
        if !c.seen.span.map(|s| explained.contains(&s)).unwrap_or(false) {
            found.push(("reentrant:policy-sampler-called-for-unknown-span".into(), format!("the policy sampler was called with {} which is no policy span that starts a new trace", c.seen.show())));
        }
    }
    r.observe("reentrant:policy-sampler-calls", calls.len() as u64);

    for pe in &pevents {
        let w = pe.who.name();
        let evs: Vec<&vcommon::rec::Captured> = if pe.same_rt { same_rt.iter().filter(|c| num(c, "pev") == Some(pe.pev)).collect() } else { pol.iter().filter(|c| num(c, "pev") == Some(pe.pev)).collect() };
        let via = if pe.same_rt { "same-runtime" } else { "policy-runtime" };
        r.observe(&format!("reentrant:events-emitted-by-components:{}", via), 1);
        let in_unsampled = pe.cur.valid() && !pe.cur.sampled();
        if in_unsampled {
            if pe.same_rt && in_sampled && !evs.is_empty() {
                found.push((format!("reentrant:event-emitted-in-unsampled-trace-with-sampled-trace-filter:{}", w), format!("policy event {} emitted under {} was delivered {} times", pe.pev, pe.cur.show(), evs.len())));
            }
            continue; // otherwise unconstrained
        }
        if evs.len() != 1 {
            found.push((
                format!("reentrant:event-delivered-{}-times:{}:{}:{}", evs.len().min(2), if pe.cur.valid() { "in-sampled-trace" } else { "outside-any-trace" }, via, w),
                format!("policy event {} emitted by the {} under {} was delivered {} times", pe.pev, w, pe.cur.show(), evs.len()),
            ));
        }
        if pe.cur.valid() {
            for e in &evs {
                if e.get("trace_id").map(|s| s.to_string()) != pe.cur.trace.map(hex_trace) || e.get("span_id").map(|s| s.to_string()) != pe.cur.span.map(hex_span) {
                    found.push((format!("reentrant:event-ids:{}:{}", via, w), format!("policy event {} emitted under {} carries trace_id={:?} span_id={:?}", pe.pev, pe.cur.show(), e.get("trace_id"), e.get("span_id"))));
                }
            }
        }
    }
    // nothing else may have reached the policy sink
    let stray = pol.iter().filter(|c| num(c, "pid").is_none() && num(c, "pev").is_none()).count();
    if stray > 0 {
        found.push(("reentrant:unexplained-events-on-policy-runtime".into(), format!("{} events on the policy runtimes carry neither pid nor pev", stray)));
    }
    for (k, v) in st.counts.lock().unwrap().iter() {
        r.observe(&format!("reentrant:{}", k), *v);
    }
    let acts = st.acts.lock().unwrap().clone();
    for (sig, what) in found {
        let mut c = case();
        c["reentrant_actions"] = json!(acts);
        r.violation(&format!("C18:{}:{}", sig, env), &what, c);
    }
}

fn eval<X: Env>(r: &mut Report, in_sampled: bool, seed: u64, index: u64, tree: &Node, table: &[bool], policy: Option<std::sync::Arc<PolicyState>>) {
    let mut run = run_tree_ext::<X>(tree, table.to_vec(), policy.clone().map(|p| p as std::sync::Arc<dyn std::any::Any + Send + Sync>));
    r.eval();
    let case = || json!({"seed": seed, "index": index, "env": X::NAME, "sampler_table": table, "tree": tree.to_json()});
    if let Some(st) = &policy {
        // events the components emitted through the runtime under test are judged with the policy log
        let (same_rt, outer): (Vec<_>, Vec<_>) = std::mem::take(&mut run.events).into_iter().partition(|c| c.get("pev").is_some());
        run.events = outer;
        judge_policy(r, st, &same_rt, in_sampled, X::NAME, &case);
        r.observe("reentrant:trees", 1);
    }
    if let Some(msg) = &run.panicked {
        r.violation(&format!("C18:panic:{}", X::NAME), &format!("running the tree panicked: {}", msg), case());
        return;
    }
    let mut o = Oracle::new(in_sampled, &run);
    o.walk(tree, &Tp::EMPTY, "top");
    o.finish();

    r.observe("sampler-calls", run.sampler_log.len() as u64);
    r.observe("traceparent-reads", o.n_tp_reads);
    r.observe("new-traces:sampled", o.n_new_sampled);
    r.observe("new-traces:unsampled", o.n_new_unsampled);
    r.observe("spans-in-existing-trace", o.n_continued_spans);
    r.observe("spans-in-unsampled-trace", o.n_spans_in_unsampled);
    r.observe("span-events", o.n_span_events);
    r.observe("events", o.n_events);
    r.observe("events-suppressed-by-sampled-trace-filter", o.n_events_suppressed);
    for (k, v) in &o.n_headers {
        r.observe(&format!("pushed:{}", k), *v);
    }
    for (k, v) in &o.n_reused {
        r.observe(k, *v);
    }
    r.observe("remote-hops", o.n_remote);
    r.observe("panics-unwound-and-caught", o.n_panics_caught);
    r.observe("futures-cancelled-while-suspended", o.n_cancelled);
    r.observe("futures-cancelled-while-suspended-in-an-unsampled-trace", o.n_cancelled_unsampled);
    r.observe("futures-dropped-without-a-poll", o.n_cancelled_unpolled);
    r.observe("spans-with-a-setup-fn-that-touches-nothing", o.n_setup_control);
    r.observe("spans-ended-through-complete_with", o.n_ended_by_complete_with);
    r.observe("spans-ended-through-complete_with-in-unsampled-trace", o.n_ended_by_complete_with_unsampled);
    r.observe("thread-handoffs", o.n_handoffs);
    r.observe("groups-actually-interleaved", o.n_groups_interleaved);
    r.observe("nodes-with-explicit-trace-id", o.n_explicit);
    r.observe(&format!("trees:{}", X::NAME), 1);
    if X::NAME.starts_with("wrapped:") {
        r.observe("wrapped:trees", 1);
        r.observe("wrapped:new-traces-rejected-by-the-sampler", o.n_new_unsampled);
        r.observe("wrapped:spans-inside-an-unsampled-trace", o.n_spans_in_unsampled);
    }
    r.observe("nodes", tree.count() as u64 - 1);

    let mut shape = Vec::new();
    tree.shape(&mut shape);
    let key = (&shape, table);
    if o.nontrivial && !run.sampler_log.is_empty() {
        r.nontrivial(&key);
    }
    {
        let h = hash_of(&shape);
        let mut s = SHAPES.lock().unwrap();
        s.all.insert(h);
        if o.nontrivial {
            s.nontrivial.insert(h);
        }
    }
    if r.wants_sample() && o.nontrivial && o.n_new_unsampled > 0 && o.n_new_sampled > 0 && index % 5 == 0 {
        let calls: Vec<Json> = run
            .sampler_log
            .iter()
            .map(|c| json!({"saw": c.seen.show(), "decision": c.decision}))
            .collect();
        let n_ev = run.events.len();
        r.sample(|| json!({"seed": seed, "index": index, "env": X::NAME, "sampler_table": table, "sampler_calls": calls, "events_recorded": n_ev, "tree": tree.to_json()}));
    }
    let found = std::mem::take(&mut o.found);
    for (idx, (sig, what)) in found.into_iter().enumerate() {
        if o.no_env_suffix.contains(&idx) {
            r.violation(&sig, &format!("[{}] {}", X::NAME, what), case());
        } else {
            r.violation(&format!("{}:{}", sig, X::NAME), &what, case());
        }
    }
}

fn eval_env(r: &mut Report, env: usize, seed: u64, index: u64, tree: &Node, table: &[bool]) {
    let policy = || Some(std::sync::Arc::new(PolicyState::new(seed, index, env)));
    match env {
        0 => eval::<EnvGeneric>(r, false, seed, index, tree, table, None),
        1 => eval::<EnvGenericInSampled>(r, true, seed, index, tree, table, None),
        2 => eval::<EnvSetup>(r, false, seed, index, tree, table, None),
        3 => eval::<EnvSetupInSampled>(r, true, seed, index, tree, table, None),
        4 => eval::<EnvWrapAssert>(r, false, seed, index, tree, table, None),
        5 => eval::<EnvWrapRef>(r, false, seed, index, tree, table, None),
        6 => eval::<EnvWrapBox>(r, false, seed, index, tree, table, None),
        7 => eval::<EnvWrapArc>(r, false, seed, index, tree, table, None),
        8 => eval::<EnvWrapOption>(r, false, seed, index, tree, table, None),
        9 => eval::<EnvWrapBoxDyn>(r, false, seed, index, tree, table, None),
        10 => eval::<EnvWrapArcAssert>(r, false, seed, index, tree, table, None),
        11 => eval::<EnvWrapAssertBoxDyn>(r, false, seed, index, tree, table, None),
        // the runtimes whose sampler / filter / emitter are instrumented and re-entrant
        12 => eval::<EnvReGeneric>(r, false, seed, index, tree, table, policy()),
        13 => eval::<EnvReGenericInSampled>(r, true, seed, index, tree, table, policy()),
        14 => eval::<EnvReSetup>(r, false, seed, index, tree, table, policy()),
        _ => eval::<EnvReSetupInSampled>(r, true, seed, index, tree, table, policy()),
    }
}

const ENV_NAMES: [&str; 4 + N_WRAPPED + N_REENTRANT] = [
    "generic-runtime",
    "generic-runtime+in-sampled-filter",
    "setup_with_sampler-slot",
    "setup_with_sampler-slot+in-sampled-filter",
    "wrapped:AssertInternal<TraceparentCtxt<ThreadLocalCtxt>>",
    "wrapped:&TraceparentCtxt<ThreadLocalCtxt>",
    "wrapped:Box<TraceparentCtxt<ThreadLocalCtxt>>",
    "wrapped:Arc<TraceparentCtxt<ThreadLocalCtxt>>",
    "wrapped:Option<TraceparentCtxt<ThreadLocalCtxt>>",
    "wrapped:Box<dyn ErasedCtxt>(TraceparentCtxt<ThreadLocalCtxt>)",
    "wrapped:Arc<AssertInternal<TraceparentCtxt<ThreadLocalCtxt>>>",
    "wrapped:AssertInternal<Box<dyn ErasedCtxt>>(TraceparentCtxt<ThreadLocalCtxt>)",
    "reentrant:generic-runtime",
    "reentrant:generic-runtime+in-sampled-filter",
    "reentrant:setup_with_sampler-slot",
    "reentrant:setup_with_sampler-slot+in-sampled-filter",
];

/// `c18 --repro captured-frame`: the smallest program that shows the captured-frame finding,
/// written directly against the real API (no interpreter, no oracle). Prints what it saw.
fn repro_captured_frame() {
    use emit_traceparent::Traceparent;

    #[emit::span(rt: *RT1, "outer")]
    fn outer(cx: &TreeCx) {
        let here = Traceparent::current();
        // the documented way to carry context to another thread (book: propagating-across-threads)
        let there = std::thread::scope(|s| {
            s.spawn(emit::Frame::current(RT1.ctxt()).in_fn(|| {
                with_tree(cx, || {
                    let there = Traceparent::current();
                    inner();
                    there
                })
            }))
            .join()
            .unwrap()
        });
        println!("Traceparent::current() in `outer`:                               {}", here);
        println!("Traceparent::current() inside the captured frame, other thread:  {}", there);
    }

    #[emit::span(rt: *RT1, "inner")]
    fn inner() {}

    let cx = TreeCx::new(vec![true]);
    with_tree(&cx, || outer(&cx));
    for c in cx.0.sampler_log.lock().unwrap().iter() {
        println!("sampler called with trace/parent/span = {} -> {}", c.seen.show(), c.decision);
    }
    for e in cx.0.sink.take() {
        println!(
            "span event {:?}: trace_id={:?} span_id={:?} span_parent={:?}",
            e.get("span_name"),
            e.get("trace_id"),
            e.get("span_id"),
            e.get("span_parent")
        );
    }
}

fn main() {
    let args = Args::parse();
    if args.get("repro") == Some("captured-frame") {
        init_envs();
        repro_captured_frame();
        return;
    }
    let mut r = Report::new(
        "C18",
        &args,
        "one evaluation = one generated span tree + sampler table executed on one trace-context runtime and checked at every program point against the current-traceparent model; \
         non-trivial = distinct (tree shape, sampler table) pairs in which the sampler was called and at least one span was started inside an existing trace (child span or continued header)",
    );
    init_envs();

    if let Some(path) = &args.replay {
        let case = load_replay(path);
        let seed = case.get("seed").and_then(|v| v.as_u64()).unwrap_or(args.seed);
        let index = case.get("index").and_then(|v| v.as_u64()).unwrap_or(0);
        let (tree, table) = case_input(seed, index);
        let env = case.get("env").and_then(|v| v.as_str()).and_then(|n| ENV_NAMES.iter().position(|e| *e == n));
        match env {
            Some(e) => eval_env(&mut r, e, seed, index, &tree, &table),
            None => {
                for e in 0..ENV_NAMES.len() {
                    eval_env(&mut r, e, seed, index, &tree, &table);
                }
            }
        }
        std::process::exit(r.finish());
    }

    let seed = args.seed;
    // Miri interprets ~1000x slower: a fixed small number of trees there, whatever the scale
    let n = if cfg!(miri) { args.get_u64("trees", 10) } else { args.n(4_000, 100_000) };
    let miri_offset = args.get_u64("miri-seed", 0) * n;
    par_cases(&mut r, &args, n, |i, r| {
        let (tree, table) = case_input(seed, i);
        // every tree on a runtime without and one with the sampled-trace filter, alternating generic / erased
        let (a, b) = if i % 2 == 0 { (0, 3) } else { (2, 1) };
        if cfg!(miri) {
            // seconds per tree under Miri: one runtime per tree, rotating over all of them (the
            // rotation starts where the previous Miri seed's trees ended, so every runtime is reached)
            let all = ENV_NAMES.len() as u64;
            eval_env(r, ((i + miri_offset) % all) as usize, seed, i, &tree, &table);
            eprintln!("[c18/miri] tree {} ({} nodes) done at {:.1}s", i, tree.count() - 1, r.elapsed_s());
        } else {
            eval_env(r, a, seed, i, &tree, &table);
            eval_env(r, b, seed, i, &tree, &table);
            // ... and on one of the runtimes whose trace context sits behind a forwarding wrapper
            eval_env(r, 4 + (i % N_WRAPPED as u64) as usize, seed, i, &tree, &table);
            // ... and on one of the runtimes whose sampler / filter / emitter are re-entrant
            eval_env(r, 4 + N_WRAPPED + ((i / 2) % N_REENTRANT as u64) as usize, seed, i, &tree, &table);
        }
    });

    let orphans = ORPHANS.take();
    if !orphans.is_empty() {
        r.violation(
            "C18:interpreter:event-or-sampler-call-outside-any-tree",
            &format!("{} events / sampler calls happened on threads that run no tree", orphans.len()),
            json!({"first": orphans[0].to_json()}),
        );
    }
    {
        let s = SHAPES.lock().unwrap();
        r.set("distinct_shapes", json!({"all": s.all.len(), "with_span_inside_existing_trace": s.nontrivial.len()}));
    }
    std::process::exit(r.finish());
}
