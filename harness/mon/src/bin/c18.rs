/*!
C18 — a sampling decision is made once per trace and governs everything inside it.

Workload: the span-tree interpreter of C04 (`shared/spantree.rs`, real `#[emit::span]` /
`emit::info!` macros; sync / async nodes, thread hand-offs through captured frames, async
siblings under seeded poll interleavings) on the trace-context runtime, built four ways:

* `Runtime<_, TraceparentFilter<sampler>, TraceparentCtxt<ThreadLocalCtxt>, ..>` (generic static),
* the same with `.and(in_sampled_trace_filter(true))`,
* `emit_traceparent::setup_with_sampler(sampler)` installed in an `AmbientSlot` (type-erased),
* the same with `.and_emit_when(in_sampled_trace_filter(true))`.

Every tree additionally runs on one of eight runtimes whose `TraceparentCtxt<ThreadLocalCtxt>` sits
BEHIND a forwarding wrapper (`AssertInternal<_>`, `&_`, `Box<_>`, `Arc<_>`, `Option<_>`,
`Box<dyn ErasedCtxt>`, and the stacks `Arc<AssertInternal<_>>`, `AssertInternal<Box<dyn ErasedCtxt>>`),
same sampler, same oracle, signatures end in `wrapped:<type>`: a wrapper that drops a `Ctxt`
method (e.g. `open_disabled`, which is what makes a sampler-rejected root an unsampled trace)
falls back to the trait default.

The sampler is a seeded table ("decision for the k-th call in this tree") that logs every call
with the `SpanCtxt` it was shown. Trees additionally push headers with `Traceparent::push` /
`emit_traceparent::push(tp, tracestate)` at the top level and around arbitrary children: headers
of another trace (sampled / unsampled, odd flag bytes), all-zero (invalid) headers with either
flag, headers of the *same* trace with another span id / flag; give nodes an explicit, mismatched
`trace_id` property; and hop to a *fresh thread* under a header formatted from
`Traceparent::current()` and parsed back (what an outgoing request would carry).

Spans also end through `complete_with` (`ok_lvl`/`err_lvl` on fns returning Ok and Err, `guard:` spans
completed with `complete()` / `complete_with(..)`, `new_span!` guards dropped or completed with
`complete_with`), and scripted PANICS unwind through chains of synchronous span fns,
`Traceparent::push().call(..)` and `Frame::push(..).call(..)` up to a `catch_unwind`, after which
the same thread carries on (next children, next roots). CANCELLATION: chains of async spans whose future is polled by
hand and dropped while suspended (sampled: one event per started span with its own ids; unsampled:
nothing; `Traceparent::current()` restored after the drop). Spans whose incoming context is established
by the macro's `setup:` control parameter (`#[emit::span(setup: ..)]` and level-named attributes,
sync and async): the setup fn returns a guard that pushes AND enters a sampled / unsampled /
invalid / same-trace header (or touches nothing, as control) and is dropped when the fn returns;
judged exactly like a header pushed by hand around the span.

Oracle — a model of "the current traceparent" walked over the tree:

* a span started while the current traceparent is valid (trace id and span id) is a child /
  continuation: it keeps the trace id and the sampled flag, gets its own span id, and the sampler
  is NOT called for it; a span started otherwise starts a new trace: the sampler is called exactly
  once, with that span's ids, and its answer is the trace's sampled flag;
* `Traceparent::current()` read at every program point of a node equals (trace id, the node's
  span id, sampled flag) — so it is restored after every child, group, yield, pushed header and
  thread hop; inside a pushed header it equals the header;
* sampled: the span event exists exactly once with trace_id / span_id of that traceparent and
  span_parent = the span id that was current where it started (absent for a new trace), and every
  `info!` event in it is emitted with those ids; unsampled: no span event, and with the
  sampled-trace filter no event either; events outside any trace are emitted;
* a remote hop sees exactly the caller's traceparent after format + parse, and the span started
  there is a child of the caller's span (same rule as above); the fresh thread has no traceparent
  before / after the pushed header;
* no sampler call is left unexplained.
*/

#[path = "../shared/spantree.rs"]
mod spantree;

use std::{
    collections::{HashMap, HashSet},
    sync::{LazyLock, Mutex},
};

use emit::{
    and::And,
    platform::thread_local_ctxt::ThreadLocalCtxt,
    runtime::{AmbientClock, AmbientCtxt, AmbientEmitter, AmbientFilter, AmbientRng, AmbientSlot, Runtime},
    SpanCtxt,
};
use emit_traceparent::{in_sampled_trace_filter, InSampledTraceFilter, TraceparentCtxt, TraceparentFilter};
use spantree::*;
use vcommon::{
    rec::{CountingRng, FakeClock},
    *,
};

// ---------------------------------------------------------------------------
// the runtimes under test
// ---------------------------------------------------------------------------

type SamplerFn = fn(&SpanCtxt) -> bool;

fn clock() -> FakeClock {
    let c = FakeClock::new(1_700_000_000_000_000_000);
    c.set_step(1_000);
    c
}

type Rt1 = Runtime<Routed, TraceparentFilter<SamplerFn>, TraceparentCtxt<ThreadLocalCtxt>, FakeClock, CountingRng>;

static RT1: LazyLock<Rt1> = LazyLock::new(|| {
    Runtime::build(
        Routed,
        TraceparentFilter::new_with_sampler(table_sampler as SamplerFn),
        TraceparentCtxt::new(ThreadLocalCtxt::shared()),
        clock(),
        CountingRng::new(),
    )
});

impl_env!(
    EnvGeneric,
    "generic-runtime",
    true,
    [Routed, TraceparentFilter<SamplerFn>, TraceparentCtxt<ThreadLocalCtxt>, FakeClock, CountingRng],
    &RT1
);

type Rt2 = Runtime<Routed, And<TraceparentFilter<SamplerFn>, InSampledTraceFilter>, TraceparentCtxt<ThreadLocalCtxt>, FakeClock, CountingRng>;

static RT2: LazyLock<Rt2> = LazyLock::new(|| {
    Runtime::build(
        Routed,
        And::new(
            TraceparentFilter::new_with_sampler(table_sampler as SamplerFn),
            in_sampled_trace_filter(true),
        ),
        TraceparentCtxt::new(ThreadLocalCtxt::new()),
        clock(),
        CountingRng::starting_at(1 << 36),
    )
});

impl_env!(
    EnvGenericInSampled,
    "generic-runtime+in-sampled-filter",
    true,
    [
        Routed,
        And<TraceparentFilter<SamplerFn>, InSampledTraceFilter>,
        TraceparentCtxt<ThreadLocalCtxt>,
        FakeClock,
        CountingRng
    ],
    &RT2
);

static SLOT3: AmbientSlot = AmbientSlot::new();
static SLOT4: AmbientSlot = AmbientSlot::new();

macro_rules! ambient_env {
    ($name:ident, $label:expr, $slot:ident) => {
        impl_env!(
            $name,
            $label,
            true,
            [
                AmbientEmitter<'static>,
                AmbientFilter<'static>,
                AmbientCtxt<'static>,
                AmbientClock<'static>,
                AmbientRng<'static>
            ],
            $slot.get()
        );
    };
}

ambient_env!(EnvSetup, "setup_with_sampler-slot", SLOT3);
ambient_env!(EnvSetupInSampled, "setup_with_sampler-slot+in-sampled-filter", SLOT4);

// --- the trace context BEHIND every forwarding wrapper the crate offers ---------------------------
// (a wrapper that drops one of the `Ctxt` methods falls back to the trait's default, e.g. a
// rejected root whose frame is not opened with the inner `open_disabled` is no unsampled trace)

type TpCtxt = TraceparentCtxt<ThreadLocalCtxt>;
type DynCtxt = dyn emit::ctxt::ErasedCtxt + Send + Sync;

/// `wrap_env!(Name, STATIC, "label", CtxtType, ctxt_expr, first_rng_value);`
macro_rules! wrap_env {
    ($name:ident, $st:ident, $label:expr, $C:ty, $ctxt:expr, $rng:expr) => {
        static $st: LazyLock<Runtime<Routed, TraceparentFilter<SamplerFn>, $C, FakeClock, CountingRng>> = LazyLock::new(|| {
            Runtime::build(
                Routed,
                TraceparentFilter::new_with_sampler(table_sampler as SamplerFn),
                $ctxt,
                clock(),
                CountingRng::starting_at($rng),
            )
        });
        impl_env!($name, $label, true, [Routed, TraceparentFilter<SamplerFn>, $C, FakeClock, CountingRng], &$st);
    };
}

fn tp_ctxt() -> TpCtxt {
    TraceparentCtxt::new(ThreadLocalCtxt::new())
}

static TPC_FOR_REF: TpCtxt = TraceparentCtxt::new(ThreadLocalCtxt::shared());

wrap_env!(
    EnvWrapAssert,
    W_ASSERT,
    "wrapped:AssertInternal<TraceparentCtxt<ThreadLocalCtxt>>",
    emit::runtime::AssertInternal<TpCtxt>,
    emit::runtime::AssertInternal(tp_ctxt()),
    1u64 << 48
);
wrap_env!(EnvWrapRef, W_REF, "wrapped:&TraceparentCtxt<ThreadLocalCtxt>", &'static TpCtxt, &TPC_FOR_REF, (1u64 << 48) + (1 << 44));
wrap_env!(EnvWrapBox, W_BOX, "wrapped:Box<TraceparentCtxt<ThreadLocalCtxt>>", Box<TpCtxt>, Box::new(tp_ctxt()), (1u64 << 48) + (2 << 44));
wrap_env!(
    EnvWrapArc,
    W_ARC,
    "wrapped:Arc<TraceparentCtxt<ThreadLocalCtxt>>",
    std::sync::Arc<TpCtxt>,
    std::sync::Arc::new(tp_ctxt()),
    (1u64 << 48) + (3 << 44)
);
wrap_env!(
    EnvWrapOption,
    W_OPTION,
    "wrapped:Option<TraceparentCtxt<ThreadLocalCtxt>>",
    Option<TpCtxt>,
    Some(tp_ctxt()),
    (1u64 << 48) + (4 << 44)
);
wrap_env!(
    EnvWrapBoxDyn,
    W_BOXDYN,
    "wrapped:Box<dyn ErasedCtxt>(TraceparentCtxt<ThreadLocalCtxt>)",
    Box<DynCtxt>,
    Box::new(tp_ctxt()) as Box<DynCtxt>,
    (1u64 << 48) + (5 << 44)
);
wrap_env!(
    EnvWrapArcAssert,
    W_ARC_ASSERT,
    "wrapped:Arc<AssertInternal<TraceparentCtxt<ThreadLocalCtxt>>>",
    std::sync::Arc<emit::runtime::AssertInternal<TpCtxt>>,
    std::sync::Arc::new(emit::runtime::AssertInternal(tp_ctxt())),
    (1u64 << 48) + (6 << 44)
);
wrap_env!(
    EnvWrapAssertBoxDyn,
    W_ASSERT_BOXDYN,
    "wrapped:AssertInternal<Box<dyn ErasedCtxt>>(TraceparentCtxt<ThreadLocalCtxt>)",
    emit::runtime::AssertInternal<Box<DynCtxt>>,
    emit::runtime::AssertInternal(Box::new(tp_ctxt()) as Box<DynCtxt>),
    (1u64 << 48) + (7 << 44)
);

const N_WRAPPED: usize = 8;

fn init_envs() {
    LazyLock::force(&RT1);
    LazyLock::force(&RT2);
    // exactly the documented set-up path, with the emitter / clock / rng replaced
    let _ = emit_traceparent::setup_with_sampler(table_sampler)
        .emit_to(Routed)
        .with_clock(clock())
        .with_rng(CountingRng::starting_at(1 << 40))
        .init_slot(&SLOT3);
    let _ = emit_traceparent::setup_with_sampler(table_sampler)
        .and_emit_when(in_sampled_trace_filter(true))
        .emit_to(Routed)
        .with_clock(clock())
        .with_rng(CountingRng::starting_at(1 << 44))
        .init_slot(&SLOT4);
}

// ---------------------------------------------------------------------------
// oracle
// ---------------------------------------------------------------------------

#[derive(Clone, Copy, PartialEq, Eq, Debug)]
enum Role {
    NewTrace,
    Continued,
}

struct Oracle<'a> {
    in_sampled: bool,
    run: &'a TreeRun,
    obs: HashMap<(u32, Point), Vec<&'a Obs>>,
    spans: HashMap<u32, Vec<Seen>>,
    events: HashMap<u32, Vec<Seen>>,
    stray: Vec<Seen>,
    /// span id (as observed in the node's body) -> (node, role, how it was reached)
    roles: HashMap<u64, (u32, Role, &'static str)>,
    found: Vec<(String, String)>,
    /// program points that are never reached because a scripted panic unwinds past them
    unwound: HashSet<(u32, Point)>,
    n_panics_caught: u64,
    n_cancelled: u64,
    n_cancelled_unpolled: u64,
    n_cancelled_unsampled: u64,
    n_setup_control: u64,
    n_ended_by_complete_with: u64,
    n_ended_by_complete_with_unsampled: u64,
    /// indexes into `found` whose signature is reported without the runtime's name
    no_env_suffix: HashSet<usize>,
    // measurements
    n_tp_reads: u64,
    n_new_sampled: u64,
    n_new_unsampled: u64,
    n_continued_spans: u64,
    n_spans_in_unsampled: u64,
    n_span_events: u64,
    n_events: u64,
    n_events_suppressed: u64,
    n_headers: HashMap<&'static str, u64>,
    n_reused: HashMap<&'static str, u64>,
    n_remote: u64,
    n_handoffs: u64,
    n_groups_interleaved: u64,
    n_explicit: u64,
    nontrivial: bool,
}

fn kind(n: &Node) -> &'static str {
    match (&n.variant, n.is_async) {
        (Variant::Top, _) => "top",
        (Variant::ResultAware { fail: false }, false) => "sync-result-ok",
        (Variant::ResultAware { fail: true }, false) => "sync-result-err",
        (Variant::ResultAware { fail: false }, true) => "async-result-ok",
        (Variant::ResultAware { fail: true }, true) => "async-result-err",
        (Variant::Guard(GuardEnd::Complete), false) => "sync-guard-complete",
        (Variant::Guard(GuardEnd::Complete), true) => "async-guard-complete",
        (Variant::Guard(GuardEnd::CompleteWith), false) => "sync-guard-complete_with",
        (Variant::Guard(GuardEnd::CompleteWith), true) => "async-guard-complete_with",
        (Variant::Setup { .. }, false) => "sync-setup",
        (Variant::Setup { .. }, true) => "async-setup",
        (Variant::Manual { complete_with: false, .. }, _) => "new_span-dropped",
        (Variant::Manual { complete_with: true, .. }, _) => "new_span-complete_with",
        (Variant::ExplicitTrace(_), false) => "sync-explicit-trace-id",
        (Variant::ExplicitTrace(_), true) => "async-explicit-trace-id",
        (_, false) => "sync",
        (_, true) => "async",
    }
}

fn header_kind(spec: &HeaderSpec) -> &'static str {
    match spec {
        HeaderSpec::Fresh { flags, .. } => {
            if flags & 1 == 1 {
                "header-sampled"
            } else {
                "header-unsampled"
            }
        }
        HeaderSpec::Invalid { flags, trace, span } => match (trace.is_some(), span.is_some(), flags & 1 == 1) {
            (false, false, true) => "header-invalid-flag-01",
            (false, false, false) => "header-invalid-flag-00",
            (true, _, true) => "header-invalid-zero-parent-id-flag-01",
            (true, _, false) => "header-invalid-zero-parent-id-flag-00",
            (_, _, true) => "header-invalid-zero-trace-id-flag-01",
            (_, _, false) => "header-invalid-zero-trace-id-flag-00",
        },
        HeaderSpec::SameTrace { .. } => "header-same-trace",
    }
}

fn via_name(v: &Via) -> &'static str {
    match v {
        Via::Direct => "direct",
        Via::Thread => "thread",
        Via::Props { .. } => "props",
        Via::TraceOnly { .. } => "trace-only",
        Via::Plain { .. } => "plain-frame",
        Via::Header { spec, .. } => header_kind(spec),
        Via::Remote => "remote",
        Via::Catch => "catch",
        Via::Cancel { .. } => "cancelled-future",
    }
}

impl<'a> Oracle<'a> {
    fn new(in_sampled: bool, run: &'a TreeRun) -> Self {
        let mut obs: HashMap<(u32, Point), Vec<&Obs>> = HashMap::new();
        for o in &run.log {
            obs.entry((o.node, o.point)).or_default().push(o);
        }
        let mut spans: HashMap<u32, Vec<Seen>> = HashMap::new();
        let mut events: HashMap<u32, Vec<Seen>> = HashMap::new();
        let mut stray = Vec::new();
        for c in &run.events {
            let s = seen(c);
            if s.is_span {
                match s.node {
                    Some(n) => spans.entry(n).or_default().push(s),
                    None => stray.push(s),
                }
            } else {
                match s.eid {
                    Some(e) => events.entry(e).or_default().push(s),
                    None => stray.push(s),
                }
            }
        }
        Oracle {
            in_sampled,
            run,
            obs,
            spans,
            events,
            stray,
            roles: HashMap::new(),
            found: Vec::new(),
            unwound: HashSet::new(),
            n_panics_caught: 0,
            n_cancelled: 0,
            n_cancelled_unpolled: 0,
            n_cancelled_unsampled: 0,
            n_setup_control: 0,
            n_ended_by_complete_with: 0,
            n_ended_by_complete_with_unsampled: 0,
            no_env_suffix: HashSet::new(),
            n_tp_reads: 0,
            n_new_sampled: 0,
            n_new_unsampled: 0,
            n_continued_spans: 0,
            n_spans_in_unsampled: 0,
            n_span_events: 0,
            n_events: 0,
            n_events_suppressed: 0,
            n_headers: HashMap::new(),
            n_reused: HashMap::new(),
            n_remote: 0,
            n_handoffs: 0,
            n_groups_interleaved: 0,
            n_explicit: 0,
            nontrivial: false,
        }
    }

    fn bad(&mut self, sig: String, what: String) {
        self.found.push((format!("C18:{}", sig), what));
    }

    /// All reads of `Traceparent::current()` at `(node, point)` must equal `want`
    /// (`exact`: including the other flag bits; otherwise trace id, span id and the sampled bit).
    fn expect_tp(&mut self, node: u32, point: Point, want: &Tp, exact: bool, sig: &str) {
        let v: Vec<&'a Obs> = self.obs.get(&(node, point)).cloned().unwrap_or_default();
        if self.unwound.contains(&(node, point)) {
            if !v.is_empty() {
                self.bad(
                    "interpreter:point-reached-although-a-panic-unwinds-past-it".into(),
                    format!("node {} point {:?}", node, point),
                );
            }
            return;
        }
        if v.len() != 1 {
            self.bad(
                format!("interpreter:point-read-{}-times", v.len().min(2)),
                format!("node {} point {:?} was read {} times (monitor expects once)", node, point, v.len()),
            );
        }
        for o in v {
            self.n_tp_reads += 1;
            let got = o.tp.unwrap_or(Tp::EMPTY);
            let same = got.trace == want.trace && got.span == want.span && if exact { got.flags == want.flags } else { got.sampled() == want.sampled() };
            if !same {
                self.bad(
                    sig.to_string(),
                    format!(
                        "Traceparent::current() at node {} {:?} is {} but the model says {} (trace/span/flags)",
                        node,
                        point,
                        got.show(),
                        want.show()
                    ),
                );
            }
        }
    }

    /// `outer`: the traceparent that is current where the node's span starts.
    fn walk(&mut self, node: &Node, outer: &Tp, via: &'static str) {
        // a header pushed and entered by the span macro's `setup:` fn is, for the span, exactly a
        // header pushed by hand around it: the span is created in it
        let (setup_outer, setup_via);
        let (outer, via) = match &node.variant {
            Variant::Setup { header: Some(spec), .. } => match self.run.headers.iter().find(|(n, s, _)| *n == node.id && *s == u16::MAX) {
                Some((_, _, h)) => {
                    *self.n_headers.entry("setup-header").or_default() += 1;
                    if let HeaderSpec::SameTrace { .. } = spec {
                        if h.trace != outer.trace {
                            self.bad(
                                "interpreter:same-trace-header-built-from-wrong-current".into(),
                                format!("setup header {} built at node {} where the model says {}", h.show(), node.id, outer.show()),
                            );
                        }
                    }
                    setup_outer = *h;
                    setup_via = match header_kind(spec) {
                        "header-sampled" => "setup-header-sampled",
                        "header-unsampled" => "setup-header-unsampled",
                        "header-invalid-flag-01" => "setup-header-invalid-flag-01",
                        "header-invalid-flag-00" => "setup-header-invalid-flag-00",
                        "header-invalid-zero-parent-id-flag-01" => "setup-header-invalid-zero-parent-id-flag-01",
                        "header-invalid-zero-parent-id-flag-00" => "setup-header-invalid-zero-parent-id-flag-00",
                        "header-invalid-zero-trace-id-flag-01" => "setup-header-invalid-zero-trace-id-flag-01",
                        "header-invalid-zero-trace-id-flag-00" => "setup-header-invalid-zero-trace-id-flag-00",
                        _ => "setup-header-same-trace",
                    };
                    (&setup_outer, setup_via)
                }
                None => {
                    self.bad(
                        "setup-did-not-run".into(),
                        format!("node {}: the `setup:` fn of the span never ran", node.id),
                    );
                    (outer, via)
                }
            },
            Variant::Setup { header: None, .. } => {
                self.n_setup_control += 1;
                (outer, via)
            }
            _ => (outer, via),
        };
        let is_span = node.variant != Variant::Top;
        let enter = match self.obs.get(&(node.id, Point::Enter)).map(|v| v.as_slice()) {
            Some([o]) => *o,
            other => {
                let n = other.map(|v| v.len()).unwrap_or(0);
                self.bad(
                    format!("interpreter:body-ran-{}-times", n.min(2)),
                    format!("body of node {} ran {} times", node.id, n),
                );
                return;
            }
        };
        self.n_tp_reads += 1;
        let k = kind(node);
        let got = enter.tp.unwrap_or(Tp::EMPTY);
        let where_ = format!("{}:via={}", k, via);
        if node.unwinds {
            let last = (node.steps.len().max(1) - 1) as u16;
            self.unwound.insert((node.id, Point::Exit));
            self.unwound.insert((node.id, Point::After(last)));
            self.unwound.insert((node.id, Point::ViaOut(last)));
            self.unwound.insert((node.id, Point::Resume(last)));
        }
        if matches!(node.variant, Variant::ExplicitTrace(_)) {
            self.n_explicit += 1;
        }

        let inside: Tp = if !is_span {
            if got != *outer {
                self.bad(
                    "traceparent-changed-without-span-or-header".into(),
                    format!("top level sees {} instead of {}", got.show(), outer.show()),
                );
            }
            *outer
        } else if outer.valid() {
            // a child span / a continued trace
            self.n_continued_spans += 1;
            self.nontrivial = true;
            if !outer.sampled() {
                self.n_spans_in_unsampled += 1;
            }
            if got.trace != outer.trace {
                self.bad(
                    format!("child-span-leaves-the-trace:{}", where_),
                    format!(
                        "node {} started inside trace {:x?} but its current traceparent has trace id {:x?}",
                        node.id, outer.trace, got.trace
                    ),
                );
            }
            if got.sampled() != outer.sampled() {
                self.bad(
                    format!(
                        "sampled-flag-not-inherited:{}:{}",
                        if outer.sampled() { "sampled-parent" } else { "unsampled-parent" },
                        where_
                    ),
                    format!(
                        "node {} started under {} but its current traceparent is {}",
                        node.id,
                        outer.show(),
                        got.show()
                    ),
                );
            }
            if got.span.is_none() || got.span == outer.span {
                self.bad(
                    format!("span-without-its-own-span-id-in-traceparent:{}", where_),
                    format!(
                        "node {} started under {} and its current traceparent is {} (expected the node's own span id)",
                        node.id,
                        outer.show(),
                        got.show()
                    ),
                );
            }
            if let Some(s) = got.span {
                self.roles.insert(s, (node.id, Role::Continued, via));
            }
            got
        } else {
            // a new trace: the sampler decides
            let calls: Vec<&SamplerCall> = self.run.sampler_log.iter().filter(|c| c.seen.span.is_some() && c.seen.span == got.span).collect();
            if got.trace.is_none() || got.span.is_none() {
                self.bad(
                    format!("new-trace-without-ids:{}", where_),
                    format!("node {} starts a new trace but its current traceparent is {}", node.id, got.show()),
                );
            }
            if outer.trace.is_some() && got.trace == outer.trace {
                // Not judged: the statement does not say which trace id a new trace gets (observed on
                // the unchanged tree: a sampled header with a non-zero trace id and an all-zero parent
                // id hands its trace id to the new root). Counted for the evidence only.
                *self
                    .n_reused
                    .entry(if outer.sampled() { "new-trace-reuses-trace-id-of-invalid-header:flag-01" } else { "new-trace-reuses-trace-id-of-invalid-header:flag-00" })
                    .or_default() += 1;
            }
            if let Some(s) = got.span {
                self.roles.insert(s, (node.id, Role::NewTrace, via));
            }
            match calls.as_slice() {
                [] => {
                    self.bad(
                        format!("sampler-not-called-for-new-trace:{}", where_),
                        format!(
                            "node {} starts a new trace (current traceparent where it starts: {}) but the sampler log has no call for span id {:x?}",
                            node.id,
                            outer.show(),
                            got.span
                        ),
                    );
                }
                [c, rest @ ..] => {
                    if !rest.is_empty() {
                        self.bad(
                            format!("sampler-called-{}-times-for-one-trace:{}", (rest.len() + 1).min(3), where_),
                            format!("node {} starts a new trace and the sampler was called {} times for it", node.id, rest.len() + 1),
                        );
                    }
                    if c.seen.trace != got.trace {
                        self.bad(
                            format!("sampler-saw-another-trace-id:{}", where_),
                            format!("sampler was shown trace id {:x?}, the trace is {:x?}", c.seen.trace, got.trace),
                        );
                    }
                    if c.decision {
                        self.n_new_sampled += 1;
                    } else {
                        self.n_new_unsampled += 1;
                    }
                    if got.sampled() != c.decision {
                        self.bad(
                            format!(
                                "sampler-decision-not-applied:{}:{}",
                                if c.decision { "said-sampled" } else { "said-unsampled" },
                                where_
                            ),
                            format!(
                                "the sampler answered {} for node {} but the current traceparent inside it is {}",
                                c.decision,
                                node.id,
                                got.show()
                            ),
                        );
                    }
                }
            }
            got
        };

        // the span event
        if is_span {
            let evs = self.spans.remove(&node.id).unwrap_or_default();
            self.n_span_events += evs.len() as u64;
            // what the model says, independent of what the traceparent inside showed
            let model_sampled = if outer.valid() {
                outer.sampled()
            } else {
                self.run
                    .sampler_log
                    .iter()
                    .find(|c| c.seen.span.is_some() && c.seen.span == got.span)
                    .map(|c| c.decision)
                    .unwrap_or(inside.sampled())
            };
            let ends_by_complete_with = !node.unwinds
                && matches!(
                    node.variant,
                    Variant::ResultAware { .. } | Variant::Guard(GuardEnd::CompleteWith) | Variant::Manual { complete_with: true, .. }
                );
            if ends_by_complete_with {
                self.n_ended_by_complete_with += 1;
                if !model_sampled {
                    self.n_ended_by_complete_with_unsampled += 1;
                }
            }
            let want = if model_sampled { 1 } else { 0 };
            if evs.len() != want {
                let why = if outer.valid() {
                    if model_sampled {
                        "in-sampled-trace"
                    } else {
                        "in-unsampled-trace"
                    }
                } else if model_sampled {
                    "sampled-by-sampler"
                } else {
                    "rejected-by-sampler"
                };
                let under = if !outer.valid() && *outer != Tp::EMPTY {
                    if outer.sampled() {
                        ":under-invalid-header-flag-01"
                    } else {
                        ":under-invalid-header-flag-00"
                    }
                } else {
                    ""
                };
                self.bad(
                    format!(
                        "{}{}-span-events:{}{}:{}",
                        // (async nodes that never get to their end are the ones dropped while suspended)
                        if node.unwinds && node.is_async { "cancelled:" } else { "" },
                        evs.len().min(2),
                        why,
                        under,
                        where_
                    ),
                    format!(
                        "node {} ({}, started under {}) produced {} span events, expected {}",
                        node.id,
                        why,
                        outer.show(),
                        evs.len(),
                        want
                    ),
                );
            }
            if model_sampled {
                let want_parent = if outer.valid() { outer.span.map(hex_span) } else { None };
                for e in &evs {
                    if e.trace != inside.trace.map(hex_trace) || e.span != inside.span.map(hex_span) || e.parent != want_parent {
                        self.bad(
                            format!("{}span-event-ids:{}", if node.unwinds && node.is_async { "cancelled:" } else { "" }, where_),
                            format!(
                                "span event of node {} carries trace_id={:?} span_id={:?} span_parent={:?}; current traceparent inside it {}, where it started {}",
                                node.id,
                                e.trace,
                                e.span,
                                e.parent,
                                inside.show(),
                                outer.show()
                            ),
                        );
                    }
                }
            }
        }

        let restored = |what: &str| format!("traceparent-not-restored:{}:{}", what, k);
        for (i, step) in node.steps.iter().enumerate() {
            let i = i as u16;
            match step {
                Step::Event(eid) => {
                    let evs = self.events.remove(eid).unwrap_or_default();
                    self.n_events += evs.len() as u64;
                    let in_trace = inside.valid();
                    if !in_trace || inside.sampled() {
                        if evs.len() != 1 {
                            self.bad(
                                format!(
                                    "event-emitted-{}-times:{}",
                                    evs.len().min(2),
                                    if in_trace { "in-sampled-trace" } else { "outside-any-trace" }
                                ),
                                format!("event {} in node {} (current traceparent {}) was emitted {} times", eid, node.id, inside.show(), evs.len()),
                            );
                        }
                        if in_trace {
                            for e in &evs {
                                if e.trace != inside.trace.map(hex_trace) || e.span != inside.span.map(hex_span) {
                                    self.bad(
                                        format!("event-ids:{}", k),
                                        format!(
                                            "event {} in node {} carries trace_id={:?} span_id={:?}, current traceparent {}",
                                            eid,
                                            node.id,
                                            e.trace,
                                            e.span,
                                            inside.show()
                                        ),
                                    );
                                }
                            }
                        }
                    } else if self.in_sampled {
                        self.n_events_suppressed += 1;
                        if !evs.is_empty() {
                            self.bad(
                                "event-emitted-in-unsampled-trace-with-sampled-trace-filter".into(),
                                format!("event {} in node {} (current traceparent {}) was emitted {} times", eid, node.id, inside.show(), evs.len()),
                            );
                        }
                    }
                    // unsampled trace without the sampled-trace filter: unconstrained
                }
                Step::Panic => {}
                Step::Yield => {
                    if node.is_async {
                        self.expect_tp(node.id, Point::Resume(i), &inside, true, &restored("after-yield"));
                    }
                }
                Step::Child { node: child, via } => {
                    let vn = via_name(via);
                    self.expect_tp(node.id, Point::Before(i), &inside, true, &restored("before-child"));
                    let child_outer = match via {
                        Via::Direct => inside,
                        Via::Thread => {
                            self.n_handoffs += 1;
                            // what the other thread sees inside the captured `Frame::current(ctxt)`
                            let seen_there = self
                                .obs
                                .get(&(node.id, Point::ViaIn(i)))
                                .and_then(|v| v.first())
                                .map(|o| o.tp.unwrap_or(Tp::EMPTY));
                            let there = match seen_there {
                                Some(t) if t != inside => {
                                    self.n_tp_reads += 1;
                                    // one precise signature, then carry on from what was actually there
                                    // (otherwise every span below would be reported again)
                                    self.found.push((
                                        format!(
                                            "C18:captured-frame-does-not-carry-traceparent:{}",
                                            if t == Tp::EMPTY { "other-thread-sees-none" } else { "other-thread-sees-another" }
                                        ),
                                        format!(
                                            "node {} step {}: Frame::current(ctxt).in_fn(..) captured where Traceparent::current() is {} but on the thread it was handed to Traceparent::current() is {}",
                                            node.id,
                                            i,
                                            inside.show(),
                                            t.show()
                                        ),
                                    ));
                                    self.no_env_suffix.insert(self.found.len() - 1);
                                    t
                                }
                                Some(t) => {
                                    self.n_tp_reads += 1;
                                    t
                                }
                                None => {
                                    self.bad("interpreter:handoff-not-observed".into(), format!("node {} step {}", node.id, i));
                                    inside
                                }
                            };
                            self.expect_tp(node.id, Point::ViaOut(i), &there, true, &restored("after-child-on-other-thread"));
                            there
                        }
                        Via::Header { spec, .. } => {
                            *self.n_headers.entry(vn).or_default() += 1;
                            match self.run.headers.iter().find(|(n, s, _)| *n == node.id && *s == i) {
                                Some((_, _, h)) => {
                                    let h = *h;
                                    if let HeaderSpec::SameTrace { .. } = spec {
                                        if h.trace != inside.trace {
                                            self.bad(
                                                "interpreter:same-trace-header-built-from-wrong-current".into(),
                                                format!("header {} built at node {} where the model says {}", h.show(), node.id, inside.show()),
                                            );
                                        }
                                    }
                                    self.expect_tp(node.id, Point::ViaIn(i), &h, true, &format!("pushed-header-not-current:{}", vn));
                                    self.expect_tp(node.id, Point::ViaOut(i), &h, true, &format!("traceparent-not-restored:after-child:inside-{}", vn));
                                    h
                                }
                                None => {
                                    self.bad("interpreter:header-not-recorded".into(), format!("node {} step {}", node.id, i));
                                    inside
                                }
                            }
                        }
                        Via::Remote => {
                            self.n_remote += 1;
                            match self.run.headers.iter().find(|(n, s, _)| *n == node.id && *s == i) {
                                Some((_, _, h)) => {
                                    let h = *h;
                                    if h != inside {
                                        self.bad(
                                            format!("outgoing-header-differs-from-current:{}", k),
                                            format!(
                                                "the header formatted from Traceparent::current() at node {} parses to {} but the current traceparent is {}",
                                                node.id,
                                                h.show(),
                                                inside.show()
                                            ),
                                        );
                                    }
                                    self.expect_tp(node.id, Point::RemoteTop(i), &Tp::EMPTY, true, "fresh-thread-has-a-traceparent");
                                    self.expect_tp(node.id, Point::ViaIn(i), &h, true, "pushed-header-not-current:remote");
                                    self.expect_tp(node.id, Point::ViaOut(i), &h, true, "traceparent-not-restored:after-child:inside-remote-header");
                                    self.expect_tp(node.id, Point::RemoteEnd(i), &Tp::EMPTY, true, "traceparent-not-restored:after-pushed-header:remote-thread");
                                    h
                                }
                                None => {
                                    self.bad("interpreter:header-not-recorded".into(), format!("node {} step {}", node.id, i));
                                    inside
                                }
                            }
                        }
                        Via::Plain { .. } => {
                            // `Frame::push(ctxt, plain props).call(..)` (on the way to a scripted panic)
                            self.expect_tp(node.id, Point::ViaIn(i), &inside, true, "non-span-frame-changes-traceparent");
                            self.expect_tp(node.id, Point::ViaOut(i), &inside, true, "traceparent-not-restored:after-child:inside-non-span-frame");
                            inside
                        }
                        Via::Catch => {
                            // the panic that unwinds through the spans / pushed headers / frames below is
                            // caught here: after it (the `After` read below) everything must be as before
                            match self.run.caught.iter().find(|(n, s, _)| *n == node.id && *s == i) {
                                Some((_, _, true)) => self.n_panics_caught += 1,
                                other => self.bad(
                                    "interpreter:scripted-panic-not-caught".into(),
                                    format!("node {} step {}: {:?}", node.id, i, other),
                                ),
                            }
                            inside
                        }
                        Via::Cancel { polls } => {
                            // the child's future was polled `polls` times and dropped: spans of the chain
                            // complete inside their frames (sampled: one event each with their own ids;
                            // unsampled: nothing), and the `After` read must show the traceparent restored
                            match self.run.caught.iter().find(|(n, s, _)| *n == node.id && *s == i) {
                                Some((_, _, false)) => {}
                                other => self.bad(
                                    "interpreter:cancelled-future-finished-or-missing".into(),
                                    format!("node {} step {}: {:?}", node.id, i, other),
                                ),
                            }
                            if *polls == 0 {
                                if self.obs.contains_key(&(child.id, Point::Enter)) {
                                    self.bad("cancelled:never-polled-future-ran".into(), format!("node {} ran although its future was never polled", child.id));
                                }
                                self.n_cancelled_unpolled += 1;
                                self.expect_tp(node.id, Point::After(i), &inside, true, "cancelled:traceparent-not-restored:after-dropping-an-unpolled-future");
                                continue;
                            }
                            self.n_cancelled += 1;
                            if !inside.sampled() && inside.valid() {
                                self.n_cancelled_unsampled += 1;
                            }
                            inside
                        }
                        Via::Props { .. } | Via::TraceOnly { .. } => unreachable!("not generated for C18"),
                    };
                    self.walk(child, &child_outer, vn);
                    self.expect_tp(
                        node.id,
                        Point::After(i),
                        &inside,
                        true,
                        &format!("{}:child-via={}:{}", restored("after-child"), vn, if child.is_async { "async-child" } else { "sync-child" }),
                    );
                }
                Step::Group { nodes, .. } => {
                    self.expect_tp(node.id, Point::Before(i), &inside, true, &restored("before-group"));
                    if let Some((_, _, order)) = self.run.polls.iter().find(|(n, s, _)| *n == node.id && *s == i) {
                        if interleaved(order) {
                            self.n_groups_interleaved += 1;
                        }
                    }
                    for n in nodes {
                        self.walk(n, &inside, "group");
                    }
                    self.expect_tp(node.id, Point::After(i), &inside, true, &restored("after-group"));
                }
            }
        }
        self.expect_tp(node.id, Point::Exit, &inside, true, &restored("at-exit"));
    }

    fn finish(&mut self) {
        // every sampler call must belong to a span that started a new trace
        let calls: Vec<SamplerCall> = self.run.sampler_log.clone();
        for c in &calls {
            match c.seen.span.and_then(|s| self.roles.get(&s).copied()) {
                Some((_, Role::NewTrace, _)) => {}
                Some((node, Role::Continued, via)) => self.bad(
                    format!(
                        "sampler-called-for-{}",
                        if via.starts_with("header") || via.starts_with("setup-header") || via == "remote" {
                            format!("continued-trace:via={}", via)
                        } else {
                            format!("child-span:via={}", via)
                        }
                    ),
                    format!("the sampler was called with {} for node {}, which does not start a new trace", c.seen.show(), node),
                ),
                None => self.bad(
                    "sampler-called-for-unknown-span".into(),
                    format!("the sampler was called with {} which is no node's span", c.seen.show()),
                ),
            }
        }
        let mut left: Vec<String> = Vec::new();
        for (n, v) in self.spans.drain() {
            left.push(format!("{} span event(s) with id={} (no such node)", v.len(), n));
        }
        for (e, v) in self.events.drain() {
            left.push(format!("{} event(s) with eid={} (no such event)", v.len(), e));
        }
        let stray = std::mem::take(&mut self.stray);
        for s in &stray {
            if s.is_span {
                // a span event without the `id` its frame pushes: the span was rejected (its frame is
                // a disabled one) and completed all the same
                self.bad(
                    "span-event-from-a-rejected-span".into(),
                    format!("a span event without its frame's props was emitted (trace_id={:?} span_id={:?}): {}", s.trace, s.span, s.raw.to_json()),
                );
            } else {
                left.push(format!("event without eid: {}", s.raw.to_json()));
            }
        }
        if !left.is_empty() {
            self.bad("unexplained-events".into(), left.join("; "));
        }
        for p in &self.run.problems {
            self.bad("outgoing-header-does-not-parse".into(), p.clone());
        }
    }
}

// ---------------------------------------------------------------------------
// one case
// ---------------------------------------------------------------------------

#[derive(Default)]
struct Shapes {
    all: HashSet<u64>,
    nontrivial: HashSet<u64>,
}

static SHAPES: LazyLock<Mutex<Shapes>> = LazyLock::new(|| Mutex::new(Shapes::default()));

fn gen_cfg() -> GenCfg {
    GenCfg {
        traceparent: true,
        max_depth: 6,
        max_fan: 4,
        max_nodes: if cfg!(miri) { 8 } else { 30 },
    }
}

fn case_input(seed: u64, index: u64) -> (Node, Vec<bool>) {
    let mut g = Rng::stream(seed, &[18, 1, index]);
    let tree = gen_tree(&mut g, &gen_cfg());
    let n = 1 + g.usize(6);
    let bias = *g.pick(&[0u64, 4, 8, 12, 16]);
    let table = (0..n).map(|_| g.chance(bias, 16)).collect();
    (tree, table)
}

fn eval<X: Env>(r: &mut Report, in_sampled: bool, seed: u64, index: u64, tree: &Node, table: &[bool]) {
    let run = run_tree::<X>(tree, table.to_vec());
    r.eval();
    let case = || json!({"seed": seed, "index": index, "env": X::NAME, "sampler_table": table, "tree": tree.to_json()});
    if let Some(msg) = &run.panicked {
        r.violation(&format!("C18:panic:{}", X::NAME), &format!("running the tree panicked: {}", msg), case());
        return;
    }
    let mut o = Oracle::new(in_sampled, &run);
    o.walk(tree, &Tp::EMPTY, "top");
    o.finish();

    r.observe("sampler-calls", run.sampler_log.len() as u64);
    r.observe("traceparent-reads", o.n_tp_reads);
    r.observe("new-traces:sampled", o.n_new_sampled);
    r.observe("new-traces:unsampled", o.n_new_unsampled);
    r.observe("spans-in-existing-trace", o.n_continued_spans);
    r.observe("spans-in-unsampled-trace", o.n_spans_in_unsampled);
    r.observe("span-events", o.n_span_events);
    r.observe("events", o.n_events);
    r.observe("events-suppressed-by-sampled-trace-filter", o.n_events_suppressed);
    for (k, v) in &o.n_headers {
        r.observe(&format!("pushed:{}", k), *v);
    }
    for (k, v) in &o.n_reused {
        r.observe(k, *v);
    }
    r.observe("remote-hops", o.n_remote);
    r.observe("panics-unwound-and-caught", o.n_panics_caught);
    r.observe("futures-cancelled-while-suspended", o.n_cancelled);
    r.observe("futures-cancelled-while-suspended-in-an-unsampled-trace", o.n_cancelled_unsampled);
    r.observe("futures-dropped-without-a-poll", o.n_cancelled_unpolled);
    r.observe("spans-with-a-setup-fn-that-touches-nothing", o.n_setup_control);
    r.observe("spans-ended-through-complete_with", o.n_ended_by_complete_with);
    r.observe("spans-ended-through-complete_with-in-unsampled-trace", o.n_ended_by_complete_with_unsampled);
    r.observe("thread-handoffs", o.n_handoffs);
    r.observe("groups-actually-interleaved", o.n_groups_interleaved);
    r.observe("nodes-with-explicit-trace-id", o.n_explicit);
    r.observe(&format!("trees:{}", X::NAME), 1);
    if X::NAME.starts_with("wrapped:") {
        r.observe("wrapped:trees", 1);
        r.observe("wrapped:new-traces-rejected-by-the-sampler", o.n_new_unsampled);
        r.observe("wrapped:spans-inside-an-unsampled-trace", o.n_spans_in_unsampled);
    }
    r.observe("nodes", tree.count() as u64 - 1);

    let mut shape = Vec::new();
    tree.shape(&mut shape);
    let key = (&shape, table);
    if o.nontrivial && !run.sampler_log.is_empty() {
        r.nontrivial(&key);
    }
    {
        let h = hash_of(&shape);
        let mut s = SHAPES.lock().unwrap();
        s.all.insert(h);
        if o.nontrivial {
            s.nontrivial.insert(h);
        }
    }
    if r.wants_sample() && o.nontrivial && o.n_new_unsampled > 0 && o.n_new_sampled > 0 && index % 5 == 0 {
        let calls: Vec<Json> = run
            .sampler_log
            .iter()
            .map(|c| json!({"saw": c.seen.show(), "decision": c.decision}))
            .collect();
        let n_ev = run.events.len();
        r.sample(|| json!({"seed": seed, "index": index, "env": X::NAME, "sampler_table": table, "sampler_calls": calls, "events_recorded": n_ev, "tree": tree.to_json()}));
    }
    let found = std::mem::take(&mut o.found);
    for (idx, (sig, what)) in found.into_iter().enumerate() {
        if o.no_env_suffix.contains(&idx) {
            r.violation(&sig, &format!("[{}] {}", X::NAME, what), case());
        } else {
            r.violation(&format!("{}:{}", sig, X::NAME), &what, case());
        }
    }
}

fn eval_env(r: &mut Report, env: usize, seed: u64, index: u64, tree: &Node, table: &[bool]) {
    match env {
        0 => eval::<EnvGeneric>(r, false, seed, index, tree, table),
        1 => eval::<EnvGenericInSampled>(r, true, seed, index, tree, table),
        2 => eval::<EnvSetup>(r, false, seed, index, tree, table),
        3 => eval::<EnvSetupInSampled>(r, true, seed, index, tree, table),
        4 => eval::<EnvWrapAssert>(r, false, seed, index, tree, table),
        5 => eval::<EnvWrapRef>(r, false, seed, index, tree, table),
        6 => eval::<EnvWrapBox>(r, false, seed, index, tree, table),
        7 => eval::<EnvWrapArc>(r, false, seed, index, tree, table),
        8 => eval::<EnvWrapOption>(r, false, seed, index, tree, table),
        9 => eval::<EnvWrapBoxDyn>(r, false, seed, index, tree, table),
        10 => eval::<EnvWrapArcAssert>(r, false, seed, index, tree, table),
        _ => eval::<EnvWrapAssertBoxDyn>(r, false, seed, index, tree, table),
    }
}

const ENV_NAMES: [&str; 4 + N_WRAPPED] = [
    "generic-runtime",
    "generic-runtime+in-sampled-filter",
    "setup_with_sampler-slot",
    "setup_with_sampler-slot+in-sampled-filter",
    "wrapped:AssertInternal<TraceparentCtxt<ThreadLocalCtxt>>",
    "wrapped:&TraceparentCtxt<ThreadLocalCtxt>",
    "wrapped:Box<TraceparentCtxt<ThreadLocalCtxt>>",
    "wrapped:Arc<TraceparentCtxt<ThreadLocalCtxt>>",
    "wrapped:Option<TraceparentCtxt<ThreadLocalCtxt>>",
    "wrapped:Box<dyn ErasedCtxt>(TraceparentCtxt<ThreadLocalCtxt>)",
    "wrapped:Arc<AssertInternal<TraceparentCtxt<ThreadLocalCtxt>>>",
    "wrapped:AssertInternal<Box<dyn ErasedCtxt>>(TraceparentCtxt<ThreadLocalCtxt>)",
];

/// `c18 --repro captured-frame`: the smallest program that shows the captured-frame finding,
/// written directly against the real API (no interpreter, no oracle). Prints what it saw.
fn repro_captured_frame() {
    use emit_traceparent::Traceparent;

    #[emit::span(rt: *RT1, "outer")]
    fn outer(cx: &TreeCx) {
        let here = Traceparent::current();
        // the documented way to carry context to another thread (book: propagating-across-threads)
        let there = std::thread::scope(|s| {
            s.spawn(emit::Frame::current(RT1.ctxt()).in_fn(|| {
                with_tree(cx, || {
                    let there = Traceparent::current();
                    inner();
                    there
                })
            }))
            .join()
            .unwrap()
        });
        println!("Traceparent::current() in `outer`:                               {}", here);
        println!("Traceparent::current() inside the captured frame, other thread:  {}", there);
    }

    #[emit::span(rt: *RT1, "inner")]
    fn inner() {}

    let cx = TreeCx::new(vec![true]);
    with_tree(&cx, || outer(&cx));
    for c in cx.0.sampler_log.lock().unwrap().iter() {
        println!("sampler called with trace/parent/span = {} -> {}", c.seen.show(), c.decision);
    }
    for e in cx.0.sink.take() {
        println!(
            "span event {:?}: trace_id={:?} span_id={:?} span_parent={:?}",
            e.get("span_name"),
            e.get("trace_id"),
            e.get("span_id"),
            e.get("span_parent")
        );
    }
}

fn main() {
    let args = Args::parse();
    if args.get("repro") == Some("captured-frame") {
        init_envs();
        repro_captured_frame();
        return;
    }
    let mut r = Report::new(
        "C18",
        &args,
        "one evaluation = one generated span tree + sampler table executed on one trace-context runtime and checked at every program point against the current-traceparent model; \
         non-trivial = distinct (tree shape, sampler table) pairs in which the sampler was called and at least one span was started inside an existing trace (child span or continued header)",
    );
    init_envs();

    if let Some(path) = &args.replay {
        let case = load_replay(path);
        let seed = case.get("seed").and_then(|v| v.as_u64()).unwrap_or(args.seed);
        let index = case.get("index").and_then(|v| v.as_u64()).unwrap_or(0);
        let (tree, table) = case_input(seed, index);
        let env = case.get("env").and_then(|v| v.as_str()).and_then(|n| ENV_NAMES.iter().position(|e| *e == n));
        match env {
            Some(e) => eval_env(&mut r, e, seed, index, &tree, &table),
            None => {
                for e in 0..ENV_NAMES.len() {
                    eval_env(&mut r, e, seed, index, &tree, &table);
                }
            }
        }
        std::process::exit(r.finish());
    }

    let seed = args.seed;
    // Miri interprets ~1000x slower: a fixed small number of trees there, whatever the scale
    let n = if cfg!(miri) { args.get_u64("trees", 10) } else { args.n(4_000, 100_000) };
    par_cases(&mut r, &args, n, |i, r| {
        let (tree, table) = case_input(seed, i);
        // every tree on a runtime without and one with the sampled-trace filter, alternating generic / erased
        let (a, b) = if i % 2 == 0 { (0, 3) } else { (2, 1) };
        if cfg!(miri) {
            // seconds per tree under Miri: one runtime per tree, rotating over the four
            eval_env(r, (i % (4 + N_WRAPPED as u64)) as usize, seed, i, &tree, &table);
            eprintln!("[c18/miri] tree {} ({} nodes) done at {:.1}s", i, tree.count() - 1, r.elapsed_s());
        } else {
            eval_env(r, a, seed, i, &tree, &table);
            eval_env(r, b, seed, i, &tree, &table);
            // ... and on one of the runtimes whose trace context sits behind a forwarding wrapper
            eval_env(r, 4 + (i % N_WRAPPED as u64) as usize, seed, i, &tree, &table);
        }
    });

    let orphans = ORPHANS.take();
    if !orphans.is_empty() {
        r.violation(
            "C18:interpreter:event-or-sampler-call-outside-any-tree",
            &format!("{} events / sampler calls happened on threads that run no tree", orphans.len()),
            json!({"first": orphans[0].to_json()}),
        );
    }
    {
        let s = SHAPES.lock().unwrap();
        r.set("distinct_shapes", json!({"all": s.all.len(), "with_span_inside_existing_trace": s.nontrivial.len()}));
    }
    std::process::exit(r.finish());
}
