/*!
C17 — level filtering follows the most specific module rule.

Oracle: a linear-scan reference written from the statement. For a `MinLevelPathMap`: among the
registered paths that equal the event's module or are an ancestor of it at `::` boundaries take the
longest (the last registration of equal paths wins), else the map's default, else accept. For a
`MinLevelFilter`: the event's level (typed, or any documented textual form: any case, any prefix of
the long names / abbreviations, optional trailing digits or `(n)`), or the filter's
`treat_unleveled_as` for events without one, or Info, must be at least the minimum.

The real filters are evaluated generically, through `&dyn ErasedFilter`, boxed, built through
`min_by_path_filter` / `FromIterator`, and rebuilt after de-duplicating and shuffling the
registrations. `Path::is_child_of` is compared with the same ancestor predicate.

Unconstrained (totality only): events whose `lvl` value matches no documented form (junk text,
numbers, padded text).
*/

use std::sync::OnceLock;

use emit::{
    platform::thread_local_ctxt::ThreadLocalCtxt,
    Ctxt, Props,
    filter::ErasedFilter,
    level::{min_by_path_filter, min_filter, MinLevelFilter, MinLevelPathMap},
    well_known::KEY_LVL,
    Empty, Event, Filter, Level, Path, Template, Value,
};
use vcommon::*;

/// `lvl` occurring more than once in `and_props` chains that are not type-erased (the first value
/// decides, readable or not), through the generic path, erased views, a real runtime and macro call sites.
#[path = "../shared/c17_chains.rs"]
mod chains;

const SEGS: [&str; 15] = ["a", "aa", "b", "ab", "é", "a_1", "app", "app2", "app_util", "v1", "v10", "db", "http", "noisy", "other"];
const LEVELS: [Level; 4] = [Level::Debug, Level::Info, Level::Warn, Level::Error];
const WORDS: [(&str, usize); 6] = [("DEBUG", 0), ("DBG", 0), ("INFORMATION", 1), ("WARNING", 2), ("WRN", 2), ("ERROR", 3)];

fn rank(l: Level) -> usize {
    match l {
        Level::Debug => 0,
        Level::Info => 1,
        Level::Warn => 2,
        Level::Error => 3,
    }
}

fn lname(i: usize) -> &'static str {
    ["debug", "info", "warn", "error"][i]
}

// ---------------------------------------------------------------------------
// model
// ---------------------------------------------------------------------------

#[derive(Clone, Debug, PartialEq, Eq, Hash)]
struct Rule {
    min: usize,
    unleveled: Option<usize>,
}

impl Rule {
    fn real(&self) -> MinLevelFilter {
        let f = min_filter(LEVELS[self.min]);
        match self.unleveled {
            Some(d) => f.treat_unleveled_as(LEVELS[d]),
            None => f,
        }
    }
}

#[derive(Clone, Debug, PartialEq, Eq, Hash)]
enum Lvl {
    Missing,
    Typed(usize),
    /// text, the level a documented form denotes
    Text(String, usize),
    /// the same documented text, handed over as an owned `String`
    OwnedText(String, usize),
    /// a documented text (possibly padded with ASCII whitespace) or the typed level, carried to the
    /// filter some other way; must be read exactly like the plain text / typed value
    Carried(Carrier, String, usize),
    /// present, and by no reading a level (empty / unknown word / malformed text / number / bool /
    /// null): the event is without a level, so the configured default applies, else Info
    Unreadable(Unreadable),
    /// present, not a documented form, but the lenient parser may still read a level out of it
    /// ("info warn", random text starting with a level letter): outcome not judged
    Junk(String),
}

/// A `lvl` value that cannot be read as a level.
#[derive(Clone, Debug, PartialEq, Eq, Hash)]
enum Unreadable {
    Empty,
    /// a word that is no prefix of any level name or abbreviation
    Word(String),
    /// text that does not start with a letter, or has a control character after the letters
    Malformed(String),
    NumericText(String),
    Int(i64),
    /// the float n + 0.5
    Float(i32),
    Bool(bool),
    Null,
}

impl Unreadable {
    fn kind(&self) -> &'static str {
        match self {
            Unreadable::Empty => "empty-text",
            Unreadable::Word(_) => "unknown-word",
            Unreadable::Malformed(_) => "malformed-text",
            Unreadable::NumericText(_) => "numeric-text",
            Unreadable::Int(_) => "integer",
            Unreadable::Float(_) => "float",
            Unreadable::Bool(_) => "bool",
            Unreadable::Null => "null",
        }
    }
}

const UNKNOWN_WORDS: [&str; 14] = ["trace", "verbose", "fatal", "critical", "notice", "off", "none", "xyz", "infox", "erroneous", "dbug", "warm", "ifo", "TRACE"];
const MALFORMED: [&str; 6] = ["1info", "é", "warn\u{7}", "(info)", "-", "_debug"];

fn gen_unreadable(g: &mut Rng) -> Unreadable {
    match g.below(10) {
        0 => Unreadable::Empty,
        1..=2 => Unreadable::Word(g.pick(&UNKNOWN_WORDS).to_string()),
        3 => Unreadable::Malformed(g.pick(&MALFORMED).to_string()),
        4 => Unreadable::NumericText(g.pick(&["3", "17", "-1", "0"]).to_string()),
        5..=6 => Unreadable::Int(g.irange(-3, 40)),
        7 => Unreadable::Float(g.irange(-2, 5) as i32),
        8 => Unreadable::Bool(g.bool()),
        _ => Unreadable::Null,
    }
}

/// How a level reaches the filter.
#[derive(Clone, Copy, Debug, PartialEq, Eq, Hash)]
enum Carrier {
    /// the text padded with ASCII whitespace on one or both sides, as a borrowed str
    Padded,
    /// the padded text as an owned String
    PaddedOwned,
    /// `Value::from_display` / `capture_display` of a foreign severity type printing the text
    FromDisplay,
    CaptureDisplay,
    /// the typed `emit::Level` after `to_owned()` / `to_shared()`
    TypedOwned,
    TypedShared,
    /// the text after `to_owned()` / `to_shared()`
    TextOwned,
    TextShared,
    /// the text captured through serde / sval
    FromSerde,
    CaptureSerde,
    FromSval,
    CaptureSval,
    /// the typed level / the text buffered in a ThreadLocalCtxt frame and read back as an ambient property
    AmbientTyped,
    AmbientText,
}

const CARRIERS: [Carrier; 14] = [
    Carrier::Padded,
    Carrier::PaddedOwned,
    Carrier::FromDisplay,
    Carrier::CaptureDisplay,
    Carrier::TypedOwned,
    Carrier::TypedShared,
    Carrier::TextOwned,
    Carrier::TextShared,
    Carrier::FromSerde,
    Carrier::CaptureSerde,
    Carrier::FromSval,
    Carrier::CaptureSval,
    Carrier::AmbientTyped,
    Carrier::AmbientText,
];

const PADS: [&str; 7] = [" ", "\t", "\n", "\r\n", "  ", " \t\r\n ", "\n\n"];

fn pad(g: &mut Rng, s: &str) -> String {
    let (l, r) = match g.below(3) {
        0 => (*g.pick(&PADS), ""),
        1 => ("", *g.pick(&PADS)),
        _ => (*g.pick(&PADS), *g.pick(&PADS)),
    };
    format!("{}{}{}", l, s, r)
}

const LONG_LENS: [usize; 15] = [30, 31, 32, 33, 63, 64, 65, 127, 128, 129, 255, 256, 257, 1000, 5000];

/// `form` followed by trailing detail the lenient parser ignores (`INFO(4)` style), exactly
/// `total` bytes long. The tail starts with a non-letter ASCII character; with `multibyte` it
/// contains non-ASCII characters. No control characters anywhere.
fn long_form(form: &str, total: usize, multibyte: bool, variant: usize) -> String {
    let (open, chunks): (&str, &[&str]) = match (variant % 3, multibyte) {
        (0, false) => ("(", &["upstream latency 1234ms", "; retry 3 of 5", "; peer 10.0.0.7:443"]),
        (1, false) => (": ", &["disk almost full on /dev/sda1", " - 97% used", ", inode table ok"]),
        (_, false) => ("[", &["code=E1042; ", "detail=connection reset by peer; ", "Info=none; "]),
        (0, true) => ("(", &["latence élevée 1234ms", "; 再試行 3/5", "; höst 10.0.0.7 😀"]),
        (1, true) => (": ", &["disque presque plein sur /dev/sda1 — 97 %", " · ディスク", " ≈ ok"]),
        (_, true) => ("[", &["код=E1042; ", "détail=connexion réinitialisée; ", "情報=なし; "]),
    };
    let mut s = String::with_capacity(total);
    s.push_str(form);
    s.push_str(open);
    let mut i = 0;
    while s.len() + chunks[i % chunks.len()].len() <= total {
        s.push_str(chunks[i % chunks.len()]);
        i += 1;
    }
    while s.len() < total {
        s.push('.');
    }
    s
}

/// A foreign severity type: only its Display is known to emit.
struct Sev(String);

impl std::fmt::Display for Sev {
    fn fmt(&self, f: &mut std::fmt::Formatter) -> std::fmt::Result {
        f.write_str(&self.0)
    }
}

fn tl_ctxt() -> ThreadLocalCtxt {
    static TL: OnceLock<ThreadLocalCtxt> = OnceLock::new();
    *TL.get_or_init(ThreadLocalCtxt::new)
}

impl Lvl {
    fn class(&self) -> &'static str {
        match self {
            Lvl::Carried(_, t, _) if t.len() >= 30 => "long-rendering",
            Lvl::Carried(c, _, _) => match c {
                Carrier::Padded | Carrier::PaddedOwned => "padded-text",
                Carrier::FromDisplay | Carrier::CaptureDisplay => "foreign-display",
                Carrier::TypedOwned | Carrier::TypedShared => "typed-owned-value",
                Carrier::TextOwned | Carrier::TextShared => "text-owned-value",
                Carrier::FromSerde | Carrier::CaptureSerde => "serde",
                Carrier::FromSval | Carrier::CaptureSval => "sval",
                Carrier::AmbientTyped | Carrier::AmbientText => "ambient-buffered",
            },
            Lvl::Missing => "missing",
            Lvl::Typed(_) => "typed",
            Lvl::Text(..) => "text",
            Lvl::OwnedText(..) => "owned-text",
            Lvl::Junk(_) => "junk",
            Lvl::Unreadable(_) => "unreadable",
        }
    }

    fn unreadable_kind(&self) -> Option<&'static str> {
        match self {
            Lvl::Unreadable(u) => Some(u.kind()),
            _ => None,
        }
    }

    /// `Some(Some(level))` = leveled, `Some(None)` = without a level, `None` = not settled by the statement.
    fn denotes(&self) -> Option<Option<usize>> {
        match self {
            Lvl::Missing | Lvl::Unreadable(_) => Some(None),
            Lvl::Typed(l) | Lvl::Text(_, l) | Lvl::OwnedText(_, l) | Lvl::Carried(_, _, l) => Some(Some(*l)),
            Lvl::Junk(_) => None,
        }
    }
}

/// `Some(accept)` when the statement settles it.
fn rule_accepts(rule: &Rule, lvl: &Lvl) -> Option<bool> {
    let level = match lvl.denotes()? {
        Some(l) => l,
        None => rule.unleveled.unwrap_or(1),
    };
    Some(level >= rule.min)
}

fn is_ancestor_or_equal(ancestor: &str, module: &str) -> bool {
    let a: Vec<&str> = ancestor.split("::").collect();
    let m: Vec<&str> = module.split("::").collect();
    a.len() <= m.len() && a.iter().zip(m.iter()).all(|(x, y)| x == y)
}

/// The linear scan: index of the registration in effect, if any.
fn effective<'a>(regs: &'a [(String, Rule)], default: &'a Option<Rule>, module: &str) -> Option<&'a Rule> {
    let mut best: Option<(usize, &Rule)> = None;
    for (p, rule) in regs {
        if is_ancestor_or_equal(p, module) {
            let depth = p.split("::").count();
            match best {
                Some((d, _)) if d > depth => {}
                // same depth means same path: the later registration wins
                _ => best = Some((depth, rule)),
            }
        }
    }
    best.map(|(_, r)| r).or(default.as_ref())
}

// ---------------------------------------------------------------------------
// generators
// ---------------------------------------------------------------------------

fn gen_path(g: &mut Rng, max: usize) -> String {
    let n = 1 + g.usize(max);
    (0..n).map(|_| *g.pick(&SEGS)).collect::<Vec<_>>().join("::")
}

fn gen_rule(g: &mut Rng) -> Rule {
    // a third of the rules put the configured unleveled default and Info on different sides of the minimum
    if g.chance(1, 3) {
        let min = 1 + g.usize(3);
        let unleveled = if min == 1 { 0 } else { min + g.usize(4 - min) };
        return Rule { min, unleveled: Some(unleveled) };
    }
    Rule { min: g.usize(4), unleveled: if g.chance(1, 3) { Some(g.usize(4)) } else { None } }
}

/// Does the configured unleveled default decide differently from Info under this rule?
fn default_differs_from_info(rule: &Rule) -> bool {
    match rule.unleveled {
        Some(d) => (d >= rule.min) != (1 >= rule.min),
        None => false,
    }
}

fn gen_text_level(g: &mut Rng) -> (String, usize) {
    let (w, l) = WORDS[g.usize(WORDS.len())];
    // canonical names are prefixes of the long ones, so they come out of the same rule
    let n = match g.below(4) {
        0 => w.len(),
        1 => 1,
        2 => lname(l).len().min(w.len()),
        _ => 1 + g.usize(w.len()),
    };
    let mut s: String = w[..n]
        .chars()
        .map(|c| match g.below(3) {
            0 => c,
            _ => c.to_ascii_lowercase(),
        })
        .collect();
    if g.chance(1, 4) {
        s = s.to_ascii_uppercase();
    }
    match g.below(6) {
        0 => s.push_str(&g.below(40).to_string()),
        1 => s.push_str(&format!("({})", g.below(40))),
        _ => {}
    }
    // the letters actually kept decide the level (e.g. `d` is a prefix of both DEBUG and DBG: same level)
    (s, l)
}

fn gen_junk(g: &mut Rng) -> String {
    match g.below(4) {
        0 => "info warn".to_string(),
        1 => "e rror".to_string(),
        _ => {
            let n = g.usize(6);
            (0..n).map(|_| char::from_u32(g.below(0x250) as u32).unwrap_or('?')).collect()
        }
    }
}

fn gen_carried(g: &mut Rng) -> Lvl {
    let c = *g.pick(&CARRIERS);
    let (s, l) = gen_text_level(g);
    // long renderings: the same form with trailing detail, around and beyond small-buffer sizes
    if g.chance(1, 4) {
        let total = match g.below(20) {
            0 => 5000,
            1..=2 => 1000,
            _ => LONG_LENS[g.usize(13)],
        };
        return Lvl::Carried(c, long_form(&s, total, g.bool(), g.usize(3)), l);
    }
    match c {
        Carrier::Padded | Carrier::PaddedOwned => Lvl::Carried(c, pad(g, &s), l),
        // padding is trimmed whatever the carrier
        _ if g.chance(1, 4) => Lvl::Carried(c, pad(g, &s), l),
        _ => Lvl::Carried(c, s, l),
    }
}

fn gen_lvl(g: &mut Rng) -> Lvl {
    if g.chance(1, 4) {
        return gen_carried(g);
    }
    match g.below(20) {
        0..=3 => Lvl::Missing,
        4..=7 => Lvl::Typed(g.usize(4)),
        8..=13 => {
            let (s, l) = gen_text_level(g);
            Lvl::Text(s, l)
        }
        14..=15 => {
            let (s, l) = gen_text_level(g);
            Lvl::OwnedText(s, l)
        }
        16 => Lvl::Junk(gen_junk(g)),
        _ => Lvl::Unreadable(gen_unreadable(g)),
    }
}

fn gen_module(g: &mut Rng, regs: &[(String, Rule)]) -> (String, &'static str) {
    if regs.is_empty() || g.chance(1, 5) {
        return (gen_path(g, 6), "random");
    }
    let p = &regs[g.usize(regs.len())].0;
    let segs: Vec<&str> = p.split("::").collect();
    match g.below(9) {
        6 => {
            // an unregistered segment in the middle, followed by a segment that is registered
            // as a child elsewhere: app::db registered, event from app::http::db
            let mut v: Vec<&str> = segs.clone();
            let at = if v.len() > 1 { 1 + g.usize(v.len() - 1) } else { 0 };
            v.insert(at, *g.pick(&["http", "other", "v1", "zz9"]));
            (v.join("::"), "detour")
        }
        7 => (format!("{}::{}", g.pick(&["other", "http", "b"]), p), "nested-under-unregistered"),
        8 => {
            // the registered name plus a digit / underscore suffix, with or without children
            let mut v: Vec<String> = segs.iter().map(|s| s.to_string()).collect();
            let i = if g.bool() { 0 } else { v.len() - 1 };
            v[i].push_str(*g.pick(&["2", "0", "_util", "_"]));
            if g.bool() {
                v.push(g.pick(&["db", "http", "a"]).to_string());
            }
            (v.join("::"), "suffix-sibling")
        }
        0 => (p.clone(), "equal"),
        1 => {
            let n = 1 + g.usize(segs.len());
            (segs[..n].join("::"), "ancestor")
        }
        2 => (format!("{}::{}", p, gen_path(g, 3)), "descendant"),
        3 => {
            // textual prefix sibling: extend the last segment
            let mut s = p.clone();
            s.push_str(*g.pick(&["a", "_1", "é", "b"]));
            if g.bool() {
                s.push_str("::");
                s.push_str(&gen_path(g, 2));
            }
            (s, "prefix-sibling")
        }
        4 => {
            // shorter textual prefix of the last segment
            let last = segs[segs.len() - 1];
            let cut: String = last.chars().take(last.chars().count().saturating_sub(1)).collect();
            if cut.is_empty() {
                (gen_path(g, 3), "random")
            } else {
                let mut v: Vec<String> = segs[..segs.len() - 1].iter().map(|s| s.to_string()).collect();
                v.push(cut);
                (v.join("::"), "truncated-segment")
            }
        }
        _ => {
            let mut v: Vec<&str> = segs.clone();
            let i = g.usize(v.len());
            v[i] = *g.pick(&SEGS);
            (v.join("::"), "sibling")
        }
    }
}

/// Paths of depth <= 2 as `&'static str`, so `Path::new_raw` (static segments) is exercised too.
fn static_pool() -> &'static Vec<&'static str> {
    static POOL: OnceLock<Vec<&'static str>> = OnceLock::new();
    POOL.get_or_init(|| {
        let mut v: Vec<&'static str> = Vec::new();
        for a in SEGS {
            v.push(a);
            for b in SEGS {
                v.push(Box::leak(format!("{}::{}", a, b).into_boxed_str()));
            }
        }
        v
    })
}

fn real_path(p: &str, prefer_static: bool) -> Path<'static> {
    if prefer_static {
        if let Some(s) = static_pool().iter().find(|s| **s == p) {
            return Path::new_raw(s);
        }
    }
    Path::new_owned_raw(p.to_string())
}

// ---------------------------------------------------------------------------
// the check
// ---------------------------------------------------------------------------

fn build_map(regs: &[(String, Rule)], default: &Option<Rule>, statics: bool) -> MinLevelPathMap {
    let mut map = MinLevelPathMap::new();
    // the default is set first, last or in the middle: its position must not matter
    for (p, rule) in regs {
        map.min_level(real_path(p, statics), rule.real());
    }
    if let Some(d) = default {
        map.default_min_level(d.real());
    }
    map
}

/// Evaluate `f` on the event described by (module, lvl) through the generic and erased paths.
/// The four views of one filter on one event.
fn answers<F: Filter + Send + Sync + 'static, P: Props>(f: &F, mdl: Path, props: P) -> Vec<(&'static str, bool)> {
    let evt = Event::new(mdl, Template::literal("c17"), Empty, props);
    let boxed: Box<dyn ErasedFilter + Send + Sync + '_> = Box::new(f);
    vec![
        ("generic", f.matches(&evt)),
        ("ref-dyn", (f as &dyn ErasedFilter).matches(&evt)),
        ("box-dyn", boxed.matches(&evt)),
        ("erased-event", f.matches(evt.erase())),
    ]
}

fn eval_views<F: Filter + Send + Sync + 'static>(f: &F, module: &str, static_mdl: bool, lvl: &Lvl, extra_first: bool) -> Result<Vec<(&'static str, bool)>, String> {
    catch(|| {
        let mdl = if static_mdl { real_path(module, true) } else { Path::new_ref_raw(module) };
        // other properties around the level, before or after it
        let before: &[(&str, i64)] = if extra_first { &[("a", 1), ("level", 3)] } else { &[] };
        let after: [(&str, &str); 1] = [("lvl_", "error")];

        // the level buffered in a ThreadLocalCtxt frame and read back as an ambient property
        if let Lvl::Carried(c @ (Carrier::AmbientTyped | Carrier::AmbientText), text, l) = lvl {
            let ctxt = tl_ctxt();
            let typed = LEVELS[*l];
            let mut frame = match c {
                Carrier::AmbientTyped => ctxt.open_root((KEY_LVL, typed)),
                _ => ctxt.open_root((KEY_LVL, text.as_str())),
            };
            ctxt.enter(&mut frame);
            let out = catch(|| ctxt.with_current(|current| answers(f, mdl, before.and_props(current).and_props(after))));
            ctxt.exit(&mut frame);
            ctxt.close(frame);
            return match out {
                Ok(v) => v,
                Err(m) => panic!("{}", m),
            };
        }

        let typed;
        let sev;
        let owned;
        let lvl_value: Option<Value> = match lvl {
            Lvl::Missing => None,
            Lvl::Typed(l) => {
                typed = LEVELS[*l];
                Some(Value::from_any(&typed))
            }
            Lvl::Text(s, _) | Lvl::Junk(s) => Some(Value::from(s.as_str())),
            Lvl::OwnedText(s, _) => Some(Value::from(s)),
            Lvl::Unreadable(u) => Some(match u {
                Unreadable::Empty => Value::from(""),
                Unreadable::Word(s) | Unreadable::Malformed(s) | Unreadable::NumericText(s) => Value::from(s.as_str()),
                Unreadable::Int(n) => Value::from(*n),
                Unreadable::Float(n) => Value::from(*n as f64 + 0.5),
                Unreadable::Bool(b) => Value::from(*b),
                Unreadable::Null => Value::null(),
            }),
            Lvl::Carried(c, s, l) => Some(match c {
                Carrier::Padded => Value::from(s.as_str()),
                Carrier::PaddedOwned => Value::from(s),
                Carrier::FromDisplay => {
                    sev = Sev(s.clone());
                    Value::from_display(&sev)
                }
                Carrier::CaptureDisplay => {
                    sev = Sev(s.clone());
                    Value::capture_display(&sev)
                }
                Carrier::TypedOwned => {
                    owned = Value::from_any(&LEVELS[*l]).to_owned();
                    owned.by_ref()
                }
                Carrier::TypedShared => {
                    owned = Value::from_any(&LEVELS[*l]).to_shared();
                    owned.by_ref()
                }
                Carrier::TextOwned => {
                    owned = Value::from(s.as_str()).to_owned();
                    owned.by_ref()
                }
                Carrier::TextShared => {
                    owned = Value::from(s.as_str()).to_shared();
                    owned.by_ref()
                }
                Carrier::FromSerde => Value::from_serde(s),
                Carrier::CaptureSerde => Value::capture_serde(s),
                Carrier::FromSval => Value::from_sval(s),
                Carrier::CaptureSval => Value::capture_sval(s),
                Carrier::AmbientTyped | Carrier::AmbientText => unreachable!(),
            }),
        };
        let lvl_prop = lvl_value.map(|v| (KEY_LVL, v));
        answers(f, mdl, before.and_props(lvl_prop).and_props(after))
    })
}

fn map_case(r: &mut Report, seed: u64, index: u64) {
    let mut g = Rng::stream(seed, &[17, 1, index]);
    let n = g.usize(13);
    let mut regs: Vec<(String, Rule)> = Vec::new();
    for _ in 0..n {
        let p = if !regs.is_empty() && g.chance(1, 3) {
            // related to an earlier registration: repeat, child, parent, prefix sibling
            let (q, _) = gen_module(&mut g, &regs);
            if q.split("::").count() > 5 { gen_path(&mut g, 5) } else { q }
        } else {
            gen_path(&mut g, 5)
        };
        regs.push((p, gen_rule(&mut g)));
    }
    let default = if g.bool() { Some(gen_rule(&mut g)) } else { None };
    let statics = g.bool();

    let map = build_map(&regs, &default, statics);
    // the same registrations through `min_by_path_filter` (FromIterator), default added afterwards
    let mut from_iter: MinLevelPathMap = min_by_path_filter(regs.iter().map(|(p, rule)| (real_path(p, !statics), rule.real())));
    if let Some(d) = &default {
        from_iter.default_min_level(d.real());
    }
    // ... and through `FromIterator::collect`
    let mut collected: MinLevelPathMap = regs.iter().map(|(p, rule)| (real_path(p, statics), rule.real())).collect();
    if let Some(d) = &default {
        collected.default_min_level(d.real());
    }
    // de-duplicated (last registration of a path kept) and shuffled, default first
    let mut dedup: Vec<(String, Rule)> = Vec::new();
    for (p, rule) in regs.iter().rev() {
        if !dedup.iter().any(|(q, _)| q == p) {
            dedup.push((p.clone(), rule.clone()));
        }
    }
    g.shuffle(&mut dedup);
    let mut shuffled = MinLevelPathMap::new();
    if let Some(d) = &default {
        shuffled.default_min_level(d.real());
    }
    for (p, rule) in &dedup {
        shuffled.min_level(real_path(p, statics), rule.real());
    }

    let case = |module: &str, lvl: &Lvl| {
        json!({"section": "map", "seed": seed, "index": index, "registrations": format!("{:?}", regs), "default": format!("{:?}", default),
               "shuffled": format!("{:?}", dedup), "module": module, "lvl": format!("{:?}", lvl)})
    };

    let n_events = if cfg!(miri) { 3 } else { 12 };
    for _ in 0..n_events {
        let (module, relation) = gen_module(&mut g, &regs);
        let lvl = gen_lvl(&mut g);
        let static_mdl = g.bool();
        let extra_first = g.bool();
        r.eval();
        r.observe(&format!("level-class:{}", lvl.class()), 1);

        // Path::is_child_of against the same ancestor predicate
        for (p, _) in &regs {
            let want = is_ancestor_or_equal(p, &module);
            let got = catch(|| Path::new_ref_raw(&module).is_child_of(&Path::new_ref_raw(p)));
            r.observe("is_child_of:comparisons", 1);
            if got != Ok(want) {
                r.violation(
                    &format!("C17:is-child-of:{}", if want { "misses-ancestor" } else { "accepts-non-ancestor" }),
                    &format!("Path({:?}).is_child_of({:?}) = {:?}, at `::` boundaries it is {}", module, p, got, want),
                    case(&module, &lvl),
                );
            }
        }

        let rule = effective(&regs, &default, &module);
        let want: Option<bool> = match rule {
            None => Some(true),
            Some(rule) => rule_accepts(rule, &lvl),
        };
        let source = match rule {
            None => "no-rule",
            Some(rule) if default.as_ref().map(|d| std::ptr::eq(d, rule)).unwrap_or(false) => "default",
            Some(_) => "registered",
        };
        let mut answers: Vec<(String, bool)> = Vec::new();
        for (name, m) in [("min-level-calls", &map), ("min-by-path-filter", &from_iter), ("collect", &collected), ("dedup-shuffled", &shuffled)] {
            match eval_views(m, &module, static_mdl, &lvl, extra_first) {
                Ok(v) => answers.extend(v.into_iter().map(|(view, a)| (format!("{}:{}", name, view), a))),
                Err(msg) => r.violation(
                    &format!("C17:panic:path-map:{}:{}", name, lvl.class()),
                    &format!("MinLevelPathMap::matches panicked: {}", msg),
                    case(&module, &lvl),
                ),
            }
        }
        r.observe("path-map:matches-calls", answers.len() as u64);
        match want {
            Some(want) => {
                r.observe(if want { "path-map:judged-accept" } else { "path-map:judged-reject" }, 1);
                r.observe(&format!("path-map:relation:{}", relation), 1);
                if let (Some(kind), Some(rule)) = (lvl.unreadable_kind(), rule) {
                    r.observe(&format!("unreadable-level:path-map:judged:{}", kind), 1);
                    if default_differs_from_info(rule) {
                        r.observe(&format!("unreadable-level:path-map:{}:default-and-info-on-different-sides", source), 1);
                    }
                }
                if source == "registered" {
                    r.nontrivial(&(&dedup, &default, &module, &lvl));
                }
                for (view, got) in &answers {
                    if *got != want {
                        r.violation(
                            &match lvl.unreadable_kind() {
                                Some(kind) => format!("C17:min-level:unreadable-level:{}:path-map:{}:{}", kind, source, if want { "rejects" } else { "accepts" }),
                                None => format!("C17:path-map:{}:{}:{}:{}", if want { "rejects" } else { "accepts" }, source, relation, view),
                            },
                            &format!(
                                "module {:?} lvl {:?}: {} answered {}, the rule in effect ({:?}, from {}) says {}",
                                module, lvl, view, got, rule, source, want
                            ),
                            case(&module, &lvl),
                        );
                        break;
                    }
                }
            }
            None => {
                r.observe("path-map:unjudged-level", 1);
                // whatever is decided, every view and every registration order decides the same
                if let Some((view, _)) = answers.iter().find(|(_, a)| *a != answers[0].1) {
                    r.violation(
                        &format!("C17:path-map:views-disagree:{}", lvl.class()),
                        &format!("module {:?} lvl {:?}: {} and {} disagree", module, lvl, answers[0].0, view),
                        case(&module, &lvl),
                    );
                }
            }
        }
    }
    if r.wants_sample() && index < 2 {
        r.sample(|| json!({"registrations": format!("{:?}", regs), "default": format!("{:?}", default)}));
    }
}

fn filter_case(r: &mut Report, seed: u64, index: u64) {
    let mut g = Rng::stream(seed, &[17, 2, index]);
    let rule = gen_rule(&mut g);
    let f = rule.real();
    let n_events = if cfg!(miri) { 3 } else { 12 };
    for _ in 0..n_events {
        let lvl = gen_lvl(&mut g);
        let module = gen_path(&mut g, 3);
        let extra_first = g.bool();
        r.eval();
        let case = || json!({"section": "filter", "seed": seed, "index": index, "rule": format!("{:?}", rule), "lvl": format!("{:?}", lvl)});
        let answers = match eval_views(&f, &module, false, &lvl, extra_first) {
            Ok(v) => v,
            Err(msg) => {
                r.violation(&format!("C17:panic:min-level-filter:{}", lvl.class()), &format!("MinLevelFilter::matches panicked: {}", msg), case());
                continue;
            }
        };
        r.observe("min-level-filter:matches-calls", answers.len() as u64);
        match rule_accepts(&rule, &lvl) {
            Some(want) => {
                r.observe(if want { "min-level-filter:judged-accept" } else { "min-level-filter:judged-reject" }, 1);
                r.nontrivial(&("filter", &rule, &lvl));
                if let Some(kind) = lvl.unreadable_kind() {
                    r.observe(&format!("unreadable-level:filter:judged:{}", kind), 1);
                    if default_differs_from_info(&rule) {
                        r.observe("unreadable-level:filter:default-and-info-on-different-sides", 1);
                    }
                }
                for (view, got) in &answers {
                    if *got != want {
                        let boundary = match lvl.denotes() {
                            Some(Some(l)) if l == rule.min => "at-minimum",
                            Some(Some(l)) if l > rule.min => "above-minimum",
                            Some(Some(_)) => "below-minimum",
                            _ if rule.unleveled.is_some() => "unleveled-with-default",
                            _ => "unleveled-info",
                        };
                        r.violation(
                            &match lvl.unreadable_kind() {
                                Some(kind) => format!("C17:min-level:unreadable-level:{}:filter:{}:{}", kind, boundary, if want { "rejects" } else { "accepts" }),
                                None => format!("C17:min-level-filter:{}:{}:{}:{}", if want { "rejects" } else { "accepts" }, lvl.class(), boundary, view),
                            },
                            &format!("lvl {:?} against {:?}: {} answered {}, expected {}", lvl, rule, view, got, want),
                            case(),
                        );
                        break;
                    }
                }
            }
            None => {
                r.observe("min-level-filter:unjudged-level", 1);
                if let Some((view, _)) = answers.iter().find(|(_, a)| *a != answers[0].1) {
                    r.violation(&format!("C17:min-level-filter:views-disagree:{}", lvl.class()), &format!("lvl {:?}: generic and {} disagree", lvl, view), case());
                }
            }
        }
    }
}


// ---------------------------------------------------------------------------
// integer-typed level filters (MinLevelFilter<u8>, MinLevelPathMap<u8>)
// ---------------------------------------------------------------------------

#[derive(Clone, Debug, PartialEq, Eq, Hash)]
enum IntLvl {
    Missing,
    /// a number that fits the filter's level type, carried as i64 / u8 / u64 / i32
    InRange(u8, u8),
    OutOfRange(i64),
    Text(String),
    Bool(bool),
    /// the float n + 0.5
    Float(i32),
    Null,
}

impl IntLvl {
    fn unreadable_kind(&self) -> Option<&'static str> {
        match self {
            IntLvl::Missing | IntLvl::InRange(..) => None,
            IntLvl::OutOfRange(_) => Some("out-of-range-integer"),
            IntLvl::Text(_) => Some("text"),
            IntLvl::Bool(_) => Some("bool"),
            IntLvl::Float(_) => Some("float"),
            IntLvl::Null => Some("null"),
        }
    }
}

fn gen_int_lvl(g: &mut Rng) -> IntLvl {
    match g.below(12) {
        0..=1 => IntLvl::Missing,
        2..=5 => IntLvl::InRange(g.below(9) as u8, g.below(4) as u8),
        6..=7 => IntLvl::OutOfRange(*g.pick(&[256i64, 300, -1, -128, 1 << 40, i64::MIN, i64::MAX])),
        8 => IntLvl::Text(g.pick(&["3", "info", "", "0", "warn"]).to_string()),
        9 => IntLvl::Bool(g.bool()),
        10 => IntLvl::Float(g.irange(-2, 6) as i32),
        _ => IntLvl::Null,
    }
}

fn gen_int_rule(g: &mut Rng) -> (u8, Option<u8>) {
    // half of the rules put the configured default and 0 (u8::default()) on different sides of the minimum
    if g.bool() {
        let min = 1 + g.below(6) as u8;
        return (min, Some(min + g.below(3) as u8));
    }
    (g.below(7) as u8, if g.bool() { Some(g.below(9) as u8) } else { None })
}

fn int_rule_real(rule: &(u8, Option<u8>)) -> MinLevelFilter<u8> {
    let f = MinLevelFilter::new(rule.0);
    match rule.1 {
        Some(d) => f.treat_unleveled_as(d),
        None => f,
    }
}

fn int_rule_accepts(rule: &(u8, Option<u8>), lvl: &IntLvl) -> bool {
    let level = match lvl {
        IntLvl::InRange(v, _) => *v,
        _ => rule.1.unwrap_or(0),
    };
    level >= rule.0
}

fn eval_int_views<F: Filter + Send + Sync + 'static>(f: &F, module: &str, lvl: &IntLvl) -> Result<Vec<(&'static str, bool)>, String> {
    catch(|| {
        let value: Option<Value> = match lvl {
            IntLvl::Missing => None,
            IntLvl::InRange(v, 0) => Some(Value::from(*v as i64)),
            IntLvl::InRange(v, 1) => Some(Value::from(*v)),
            IntLvl::InRange(v, 2) => Some(Value::from(*v as u64)),
            IntLvl::InRange(v, _) => Some(Value::from(*v as i32)),
            IntLvl::OutOfRange(n) => Some(Value::from(*n)),
            IntLvl::Text(s) => Some(Value::from(s.as_str())),
            IntLvl::Bool(b) => Some(Value::from(*b)),
            IntLvl::Float(n) => Some(Value::from(*n as f64 + 0.5)),
            IntLvl::Null => Some(Value::null()),
        };
        let after: [(&str, i64); 1] = [("lvl_", 200)];
        answers(f, Path::new_ref_raw(module), value.map(|v| (KEY_LVL, v)).and_props(after))
    })
}

fn int_case(r: &mut Report, seed: u64, index: u64) {
    let mut g = Rng::stream(seed, &[17, 3, index]);
    let rule = gen_int_rule(&mut g);
    let plain = int_rule_real(&rule);
    // a small path map: a, a::b registered, with or without a default
    let regs: Vec<(String, (u8, Option<u8>))> = vec![("a".to_string(), gen_int_rule(&mut g)), ("a::b".to_string(), gen_int_rule(&mut g))];
    let default = if g.bool() { Some(gen_int_rule(&mut g)) } else { None };
    let mut by_calls = MinLevelPathMap::<u8>::new();
    for (p, rule) in &regs {
        by_calls.min_level(real_path(p, false), int_rule_real(rule));
    }
    let mut collected: MinLevelPathMap<u8> = regs.iter().map(|(p, rule)| (real_path(p, true), int_rule_real(rule))).collect();
    if let Some(d) = &default {
        by_calls.default_min_level(int_rule_real(d));
        collected.default_min_level(int_rule_real(d));
    }
    let n_events = if cfg!(miri) { 3 } else { 12 };
    for _ in 0..n_events {
        let lvl = gen_int_lvl(&mut g);
        let module = *g.pick(&["a", "a::b", "a::b::c", "a::c", "b", "ab"]);
        r.eval();
        let in_effect = if module == "a::b" || module == "a::b::c" {
            Some(&regs[1].1)
        } else if module == "a" || module == "a::c" {
            Some(&regs[0].1)
        } else {
            default.as_ref()
        };
        let case = || json!({"section": "integer", "seed": seed, "index": index, "rule": format!("{:?}", rule), "registrations": format!("{:?}", regs), "default": format!("{:?}", default), "module": module, "lvl": format!("{:?}", lvl)});
        let judge = |r: &mut Report, what: &str, want: bool, rule: Option<&(u8, Option<u8>)>, got: Result<Vec<(&'static str, bool)>, String>| {
            if let (Some(kind), Some(rule)) = (lvl.unreadable_kind(), rule) {
                r.observe(&format!("unreadable-level:{}:judged:{}", what, kind), 1);
                if let Some(d) = rule.1 {
                    if (d >= rule.0) != (0 >= rule.0) {
                        r.observe(&format!("unreadable-level:{}:default-and-zero-on-different-sides", what), 1);
                    }
                }
            }
            r.observe(&format!("{}:judged", what), 1);
            match got {
                Err(m) => r.violation(&format!("C17:panic:{}", what), &format!("matches panicked: {}", m), case()),
                Ok(v) => {
                    if let Some((view, got)) = v.iter().find(|(_, a)| *a != want) {
                        let sig = match lvl.unreadable_kind() {
                            Some(kind) => format!("C17:min-level:unreadable-level:{}:{}:{}", kind, what, if want { "rejects" } else { "accepts" }),
                            None => format!("C17:{}:{}", what, if want { "rejects" } else { "accepts" }),
                        };
                        r.violation(&sig, &format!("lvl {:?} against {:?} (module {:?}): {} answered {}, expected {}", lvl, rule, module, view, got, want), case());
                    }
                }
            }
        };
        judge(r, "integer-filter", int_rule_accepts(&rule, &lvl), Some(&rule), eval_int_views(&plain, module, &lvl));
        let want = in_effect.map(|rule| int_rule_accepts(rule, &lvl)).unwrap_or(true);
        judge(r, "integer-path-map", want, in_effect, eval_int_views(&by_calls, module, &lvl));
        judge(r, "integer-path-map", want, in_effect, eval_int_views(&collected, module, &lvl));
        r.nontrivial(&("integer", &rule, &regs, &default, module, &lvl));
    }
}

/// Every unreadable kind against every (minimum, unleveled default) rule of the Level filter.
fn unreadable_table(r: &mut Report) {
    let mut kinds: Vec<Unreadable> = vec![Unreadable::Empty, Unreadable::Null, Unreadable::Bool(true), Unreadable::Bool(false)];
    kinds.extend(UNKNOWN_WORDS.iter().map(|w| Unreadable::Word(w.to_string())));
    kinds.extend(MALFORMED.iter().map(|w| Unreadable::Malformed(w.to_string())));
    kinds.extend(["3", "17", "-1", "0"].iter().map(|w| Unreadable::NumericText(w.to_string())));
    kinds.extend([-3i64, 0, 1, 2, 3, 4, 40, i64::MAX].iter().map(|n| Unreadable::Int(*n)));
    kinds.extend([-1, 0, 1, 2, 3].iter().map(|n| Unreadable::Float(*n)));
    for u in kinds {
        for min in 0..4usize {
            for unleveled in [None, Some(0), Some(1), Some(2), Some(3)] {
                let rule = Rule { min, unleveled };
                let lvl = Lvl::Unreadable(u.clone());
                let want = unleveled.unwrap_or(1) >= min;
                r.eval();
                r.observe("unreadable-level:table", 1);
                r.nontrivial(&("unreadable", &u, &rule));
                let case = || json!({"section": "unreadable", "lvl": format!("{:?}", u), "rule": format!("{:?}", rule)});
                // the plain filter, and a path map using it for a registered module and as the default
                let mut map = MinLevelPathMap::new();
                map.min_level(Path::new_raw("a"), rule.real());
                let mut dmap = MinLevelPathMap::new();
                dmap.default_min_level(rule.real());
                for (what, got) in [
                    ("filter", eval_views(&rule.real(), "a", false, &lvl, false)),
                    ("path-map:registered", eval_views(&map, "a::b", false, &lvl, true)),
                    ("path-map:default", eval_views(&dmap, "b", false, &lvl, false)),
                ] {
                    match got {
                        Err(m) => r.violation(&format!("C17:panic:unreadable-level:{}", u.kind()), &format!("matches panicked: {}", m), case()),
                        Ok(v) => {
                            if let Some((view, got)) = v.iter().find(|(_, a)| *a != want) {
                                r.violation(
                                    &format!("C17:min-level:unreadable-level:{}:{}:{}:{}", u.kind(), what, if unleveled.is_some() { "with-default" } else { "info" }, if want { "rejects" } else { "accepts" }),
                                    &format!("lvl {:?} cannot be read as a level, so {:?} judges the event by {}: {} answered {}, expected {}", u, rule, unleveled.map(lname).unwrap_or("Info"), view, got, want),
                                    case(),
                                );
                            }
                        }
                    }
                }
            }
        }
    }
    r.exhaustive("every unreadable lvl value (empty, null, bools, 14 unknown words, 6 malformed texts, numeric texts, integers, floats) x every minimum x every unleveled default (none / each level) through the plain filter, a registered path-map rule and the map default");
}

fn pad_kind(p: &str) -> &'static str {
    match p {
        " " | "  " => "space",
        "\t" => "tab",
        "\n" | "\n\n" => "newline",
        "\r\n" => "crlf",
        _ => "mixed",
    }
}

/// Metamorphic: a documented form `s` (denoting level `l`) padded with ASCII whitespace, or carried
/// to the filter in any other way, is read exactly like `s`.
fn padded_and_carried(r: &mut Report, s: &str, l: usize) {
    use std::str::FromStr;
    let want = Some(LEVELS[l]);
    for p in PADS {
        for (side, text) in [("leading", format!("{}{}", p, s)), ("trailing", format!("{}{}", s, p)), ("both", format!("{}{}{}", p, s, p))] {
            r.observe("level-text:padded-forms", 1);
            let got = catch(|| (Level::from_str(&text).ok(), Level::try_from_str(&text).ok(), Value::from(text.as_str()).cast::<Level>(), Value::from(&text).cast::<Level>()));
            let case = || json!({"section": "text-forms", "text": text, "unpadded": s});
            match got {
                Err(m) => r.violation("C17:panic:level-padding", &format!("parsing {:?} panicked: {}", text, m), case()),
                Ok((a, b, c, d)) => {
                    for (entry, v) in [("from_str", a), ("try_from_str", b), ("value-cast", c), ("owned-string-cast", d)] {
                        if v != want {
                            r.violation(
                                &format!("C17:level-padding:{}:{}:{}", entry, side, pad_kind(p)),
                                &format!("{:?} reads as {:?} through {}, the same text without the padding ({:?}) is {}", text, v, entry, s, lname(l)),
                                case(),
                            );
                        }
                    }
                }
            }
        }
    }
    // every carrier, bare and padded, at the accepting and at the rejecting minimum
    for c in CARRIERS {
        for text in [s.to_string(), format!(" {}\n", s)] {
            let lvl = Lvl::Carried(c, text.clone(), l);
            for min in [l, l + 1] {
                if min > 3 {
                    continue;
                }
                r.observe("level-text:carried-forms", 1);
                let want = l >= min;
                // an unleveled default on the other side of the minimum, so "read as no level" shows
                let rule = Rule { min, unleveled: Some(if want { 0 } else { 3 }) };
                let case = || json!({"section": "text-forms", "text": text, "carrier": format!("{:?}", c), "min": lname(min)});
                match eval_views(&rule.real(), "a", false, &lvl, false) {
                    Ok(v) => {
                        if let Some((view, got)) = v.iter().find(|(_, a)| *a != want) {
                            r.violation(
                                &format!("C17:level-carrier:{}:{}", lvl.class(), if want { "rejects" } else { "accepts" }),
                                &format!("level {:?} ({}) carried as {:?} against min {}: {} answered {}, the plain text / typed value gives {}", text, lname(l), c, lname(min), view, got, want),
                                case(),
                            );
                        }
                    }
                    Err(m) => r.violation(&format!("C17:panic:level-carrier:{}", lvl.class()), &format!("level {:?} carried as {:?} panicked: {}", text, c, m), case()),
                }
            }
        }
    }
}

/// Long renderings: a documented form followed by ignorable trailing detail, at every length in
/// LONG_LENS, ASCII and multi-byte, through every parser entry point and every carrier.
fn long_renderings(r: &mut Report) {
    use std::str::FromStr;
    let mut variant = 0usize;
    for (w, l) in WORDS {
        let canon = lname(l).len().min(w.len());
        for n in [1, canon, w.len()] {
            for case_kind in 0..3 {
                let form: String = match case_kind {
                    0 => w[..n].to_string(),
                    1 => w[..n].to_ascii_lowercase(),
                    _ => w[..n].chars().enumerate().map(|(i, c)| if i == 0 { c } else { c.to_ascii_lowercase() }).collect(),
                };
                for total in LONG_LENS {
                    for multibyte in [false, true] {
                        variant += 1;
                        let text = long_form(&form, total, multibyte, variant);
                        r.eval();
                        r.observe("level-text:long-renderings", 1);
                        let kind = if multibyte { "multibyte" } else { "ascii" };
                        let case = |what: &str| json!({"section": "long", "form": form, "bytes": total, "multibyte": multibyte, "variant": variant, "what": what});
                        let want = Some(LEVELS[l]);
                        match catch(|| (Level::from_str(&text).ok(), Level::try_from_str(&text).ok(), Value::from(text.as_str()).cast::<Level>(), Value::from(&text).cast::<Level>())) {
                            Err(m) => r.violation("C17:panic:long-rendering:parse", &format!("parsing a {}-byte rendering of {:?} panicked: {}", total, form, m), case("parse")),
                            Ok((a, b, c, d)) => {
                                for (entry, v) in [("from_str", a), ("try_from_str", b), ("value-cast", c), ("owned-string-cast", d)] {
                                    if v != want {
                                        r.violation(
                                            &format!("C17:long-rendering:{}:{}:{}-bytes", entry, kind, total),
                                            &format!("{:?} + {} bytes of trailing detail reads as {:?} through {}, the short form is {}", form, total - form.len(), v, entry, lname(l)),
                                            case(entry),
                                        );
                                    }
                                }
                            }
                        }
                        for c in CARRIERS {
                            if matches!(c, Carrier::TypedOwned | Carrier::TypedShared | Carrier::AmbientTyped) {
                                continue;
                            }
                            let lvl = Lvl::Carried(c, text.clone(), l);
                            for min in [l, l + 1] {
                                if min > 3 {
                                    continue;
                                }
                                r.observe("level-text:long-carried-forms", 1);
                                let want = l >= min;
                                let rule = Rule { min, unleveled: Some(if want { 0 } else { 3 }) };
                                match eval_views(&rule.real(), "a", false, &lvl, false) {
                                    Ok(v) => {
                                        if let Some((view, got)) = v.iter().find(|(_, a)| *a != want) {
                                            r.violation(
                                                &format!("C17:long-rendering:carrier:{:?}:{}:{}-bytes", c, kind, total),
                                                &format!("{:?} + trailing detail ({} bytes) carried as {:?} against min {}: {} answered {}, the short form gives {}", form, total, c, lname(min), view, got, want),
                                                case(&format!("{:?}", c)),
                                            );
                                        }
                                    }
                                    Err(m) => r.violation(&format!("C17:panic:long-rendering:{:?}", c), &format!("a {}-byte rendering carried as {:?} panicked: {}", total, c, m), case(&format!("{:?}", c))),
                                }
                            }
                        }
                    }
                }
            }
        }
    }
    r.exhaustive("54 spellings of the documented level words x 15 total lengths (30..5000 bytes) x ASCII / multi-byte trailing detail, through from_str, try_from_str, Value casts and 11 text carriers at the accepting and rejecting minimum");
}

/// Every documented textual form must denote the level the table says (independent of the filters).
fn text_forms(r: &mut Report) {
    for (w, l) in WORDS {
        for n in 1..=w.len() {
            for variant in 0..3 {
                for tail in ["", "1", "13", "(4)"] {
                    let mut s: String = match variant {
                        0 => w[..n].to_string(),
                        1 => w[..n].to_ascii_lowercase(),
                        _ => w[..n].chars().enumerate().map(|(i, c)| if i % 2 == 0 { c.to_ascii_lowercase() } else { c }).collect(),
                    };
                    s.push_str(tail);
                    r.eval();
                    r.observe("level-text:forms", 1);
                    padded_and_carried(r, &s, l);
                    let lvl = Lvl::Text(s.clone(), l);
                    // min = the level itself accepts, min = the next level rejects
                    for min in 0..4usize {
                        let rule = Rule { min, unleveled: Some(if l >= min { 0 } else { 3 }) };
                        let want = l >= min;
                        match eval_views(&rule.real(), "a", false, &lvl, false) {
                            Ok(v) => {
                                if let Some((view, got)) = v.iter().find(|(_, a)| *a != want) {
                                    r.violation(
                                        &format!("C17:level-text:{}:{}", lname(l), if tail.is_empty() { "plain" } else { "with-trailer" }),
                                        &format!("lvl {:?} (denotes {}) against min {}: {} answered {}", s, lname(l), lname(min), view, got),
                                        json!({"section": "text-forms", "text": s, "min": lname(min)}),
                                    );
                                }
                            }
                            Err(m) => r.violation("C17:panic:level-text", &format!("lvl {:?} panicked: {}", s, m), json!({"section": "text-forms", "text": s})),
                        }
                    }
                }
            }
        }
    }
    r.exhaustive("every prefix of DEBUG/DBG/INFORMATION/WARNING/WRN/ERROR in upper, lower and mixed case, bare and with the trailers 1, 13, (4), against every minimum; each of them padded with 7 ASCII whitespace strings on either / both sides through from_str, try_from_str and Value casts; each of them through 14 carriers (padded, owned String, foreign Display, OwnedValue, serde, sval, ThreadLocalCtxt-buffered) at the accepting and rejecting minimum");
}

/// The sibling / detour scenarios named in the property's review, against every level, through
/// both public construction paths.
fn named_scenarios(r: &mut Report) {
    let scenarios: [(&[&str], &[&str]); 6] = [
        (&["app", "app::db"], &["app", "app::db", "app::db::pool", "app::http::db", "app::http", "app2", "app2::db", "app_util", "app_util::db", "db", "other::app::db"]),
        (&["app", "app2", "app_util", "app::db"], &["app", "app2", "app_util", "app::db", "app2::db", "app_util::db", "app22", "ap", "app::db2"]),
        (&["v1", "v10", "v1::db"], &["v1", "v10", "v1::db", "v10::db", "v100", "v1::http::db", "v"]),
        (&["noisy"], &["noisy", "other::noisy", "noisy::other", "noisy2", "nois", "other"]),
        (&["a", "aa", "a::a"], &["a", "aa", "a::a", "aa::a", "a::aa", "aaa", "a::a::a", "a::b::a"]),
        (&["é", "é::db"], &["é", "éa", "é::db", "é::http::db", "éa::db"]),
    ];
    for (si, (paths, modules)) in scenarios.iter().enumerate() {
        // every assignment of two distinct minimums keeps the rules distinguishable
        for rot in 0..4usize {
            let regs: Vec<(String, Rule)> = paths.iter().enumerate().map(|(i, p)| (p.to_string(), Rule { min: (i + rot) % 4, unleveled: None })).collect();
            for default in [None, Some(Rule { min: (rot + 2) % 4, unleveled: None })] {
                let incremental = build_map(&regs, &default, rot % 2 == 0);
                let mut by_fn: MinLevelPathMap = min_by_path_filter(regs.iter().map(|(p, rule)| (real_path(p, rot % 2 == 1), rule.real())));
                let mut collected: MinLevelPathMap = regs.iter().rev().map(|(p, rule)| (real_path(p, false), rule.real())).collect();
                if let Some(d) = &default {
                    by_fn.default_min_level(d.real());
                    collected.default_min_level(d.real());
                }
                for module in modules.iter() {
                    for l in 0..4usize {
                        r.eval();
                        r.observe("named-scenarios:pairs", 1);
                        let lvl = Lvl::Typed(l);
                        let rule = effective(&regs, &default, module);
                        let want = rule.map(|rule| l >= rule.min).unwrap_or(true);
                        r.nontrivial(&("named", si, rot, default.is_some(), module, l));
                        for (name, m) in [("min-level-calls", &incremental), ("min-by-path-filter", &by_fn), ("collect", &collected)] {
                            let case = || json!({"section": "named", "registrations": format!("{:?}", regs), "default": format!("{:?}", default), "module": module, "lvl": lname(l)});
                            match eval_views(m, module, false, &lvl, false) {
                                Ok(v) => {
                                    if let Some((view, got)) = v.iter().find(|(_, a)| *a != want) {
                                        r.violation(
                                            &format!("C17:path-map:named:{}:{}:{}", if want { "rejects" } else { "accepts" }, paths.join("+"), name),
                                            &format!("registrations {:?} default {:?}: module {:?} at {} answered {} through {}:{}, the rule in effect ({:?}) says {}", regs, default, module, lname(l), got, name, view, rule, want),
                                            case(),
                                        );
                                    }
                                }
                                Err(msg) => r.violation("C17:panic:path-map:named", &format!("matches panicked: {}", msg), case()),
                            }
                        }
                    }
                }
            }
        }
    }
    r.exhaustive("the named sibling / detour scenarios (app/app2/app_util/app::db, v1/v10, noisy, a/aa/a::a, é) x 4 level assignments x with/without default x every listed module x every level x 3 construction paths");
}

fn main() {
    let args = Args::parse();
    let mut r = Report::new(
        "C17",
        &args,
        "one evaluation = one (filter or path map, event) pair answered through every view and registration order; \
         non-trivial = distinct (registrations, default, module, level value) where a registered path is in effect and the level is one the statement settles, \
         plus distinct (minimum, unleveled default, level value) for the plain filter, \
         plus distinct (and_props chain with its `lvl` occurrences, shadowing class, filter) for the chains in which `lvl` may occur more than once",
    );
    let seed = args.seed;

    if let Some(path) = &args.replay {
        let case = load_replay(path);
        let seed = case.get("seed").and_then(|v| v.as_u64()).unwrap_or(seed);
        let index = case.get("index").and_then(|v| v.as_u64()).unwrap_or(0);
        match case.get("section").and_then(|v| v.as_str()) {
            Some("map") => map_case(&mut r, seed, index),
            Some("filter") => filter_case(&mut r, seed, index),
            Some("named") => named_scenarios(&mut r),
            Some("long") => long_renderings(&mut r),
            Some("integer") => int_case(&mut r, seed, index),
            Some("unreadable") => unreadable_table(&mut r),
            Some("chains") => match case.get("origin").and_then(|v| v.as_str()) {
                Some("seeded") => chains::chain_case(&mut r, seed, index),
                Some("site") => chains::site_case(&mut r, seed, index),
                Some("site-table") => chains::site_table(&mut r),
                _ => chains::chain_table(&mut r),
            },
            _ => text_forms(&mut r),
        }
        std::process::exit(r.finish());
    }

    text_forms(&mut r);
    named_scenarios(&mut r);
    long_renderings(&mut r);
    unreadable_table(&mut r);
    let n_map = args.n(20_000, 1_600_000);
    par_cases(&mut r, &args, n_map, |i, r| map_case(r, seed, i));
    let n_filter = args.n(4_000, 200_000);
    par_cases(&mut r, &args, n_filter, |i, r| filter_case(r, seed, i));
    let n_int = args.n(2_000, 100_000);
    par_cases(&mut r, &args, n_int, |i, r| int_case(r, seed, i));
    // `lvl` more than once in generic and_props chains
    chains::chain_table(&mut r);
    chains::site_table(&mut r);
    let n_chain = args.n(12_000, 1_000_000);
    par_cases(&mut r, &args, n_chain, |i, r| chains::chain_case(r, seed, i));
    let n_site = args.n(3_000, 200_000);
    par_cases(&mut r, &args, n_site, |i, r| chains::site_case(r, seed, i));
    std::process::exit(r.finish());
}
