/*!
C16 — templates render and compare by meaning, for any text.

Reference model: a template is a list of parts (`Text(s)` / `Hole(label, formatter?)`). Its
**normal form** merges adjacent text, drops empty text and keeps only the labels of holes.

* **render**: the reference renderer walks the model: text verbatim; a hole is replaced by the
  first-wins property value for its label (through the hole's formatter if it has one, else the
  value's plain text) or by `{label}` if the label is absent. The real template (borrowed,
  `'static`, owned, `by_ref`, `to_owned`, cloned, literal) is rendered through `Display`
  (`fmt::Formatter`), `Render::write(&mut String)`, a writer that only has the trait defaults,
  a writer that records every callback, `Template`'s own `Display` and `Event::msg()`; all must
  produce the reference text, and the recorded callbacks must be the model's parts (text merged).
* **outer format flags**: `format!("{:>12}", render)`, `{:.5}`, `{:<8.3}`, `{:^20}`, `{:08}`, ... on
  `Render`, on `Template` itself and nested in another Display's `write!(f, "{:6}", render)`:
  text fragments are verbatim (never padded / truncated); a hole value is what std formatting of
  the model value (through the hole's formatter) gives under the same spec, `{label}` verbatim;
  `==` templates render identically under the same flags.
* **equality**: `a == b` ⇔ equal normal forms, asked in both argument orders, on re-splittings,
  one-edit neighbours, independently drawn pairs and all construction variants of one model;
  reflexive; transitive on triples (on the implementation's own answers); never panics.
* **macro literals**: fixed `tpl!` / `evt!` / `format!` call sites are compared with the
  runtime-built template of the same literal, and `#[emit::fmt]` flags with `std::format!`.
*/

use std::{
    borrow::Cow,
    fmt,
    sync::{
        atomic::{AtomicU64, Ordering},
        OnceLock,
    },
};

use emit::{
    props::ErasedProps,
    template::{self, Formatter, Part},
    value::ToValue,
    Empty, Event, Path, Str, Template, Value,
};
use vcommon::*;

// ---------------------------------------------------------------------------
// model
// ---------------------------------------------------------------------------

#[derive(Clone, Debug, PartialEq, Eq, Hash)]
enum MPart {
    Text(String),
    /// label, formatter index
    Hole(String, Option<usize>),
}

type Model = Vec<MPart>;

#[derive(Clone, Debug, PartialEq, Eq, Hash)]
enum NPart {
    Text(String),
    Hole(String),
}

fn normal(m: &[MPart]) -> Vec<NPart> {
    let mut out: Vec<NPart> = Vec::new();
    for p in m {
        match p {
            MPart::Text(s) if s.is_empty() => {}
            MPart::Text(s) => {
                if let Some(NPart::Text(last)) = out.last_mut() {
                    last.push_str(s);
                } else {
                    out.push(NPart::Text(s.clone()));
                }
            }
            MPart::Hole(l, _) => out.push(NPart::Hole(l.clone())),
        }
    }
    out
}

#[derive(Clone, Debug, PartialEq)]
enum Val {
    I(i64),
    S(String),
    B(bool),
    F(f64),
}

impl Val {
    /// The plain text of the value, written without going through emit.
    fn text(&self) -> String {
        match self {
            Val::I(v) => v.to_string(),
            Val::S(v) => v.clone(),
            Val::B(v) => if *v { "true" } else { "false" }.to_string(),
            Val::F(v) => v.to_string(),
        }
    }
}

impl ToValue for Val {
    fn to_value(&self) -> Value<'_> {
        match self {
            Val::I(v) => v.to_value(),
            Val::S(v) => v.to_value(),
            Val::B(v) => v.to_value(),
            Val::F(v) => v.to_value(),
        }
    }
}

type Entry = (String, Val);

fn first_wins<'a>(props: &'a [Entry], label: &str) -> Option<&'a Val> {
    props.iter().find(|(k, _)| k == label).map(|(_, v)| v)
}

// formatters: plain functions, so the reference can apply them to the model value directly
fn f_brackets(v: Value, f: &mut fmt::Formatter) -> fmt::Result {
    write!(f, "[{}]", v)
}
fn f_debug(v: Value, f: &mut fmt::Formatter) -> fmt::Result {
    write!(f, "{:?}", v)
}
fn f_pad(v: Value, f: &mut fmt::Formatter) -> fmt::Result {
    write!(f, "{:>6}", v)
}
fn f_const(_: Value, f: &mut fmt::Formatter) -> fmt::Result {
    f.write_str("#")
}
fn f_twice(v: Value, f: &mut fmt::Formatter) -> fmt::Result {
    write!(f, "{}|{}", v, v)
}
fn f_nothing(_: Value, _: &mut fmt::Formatter) -> fmt::Result {
    Ok(())
}
/// Hands the value the formatter it was given: the only formatter here that sees the flags of an
/// outer placeholder (`format!("{:>12}", render)`). Used by the outer-format-flags section only.
fn f_outer(v: Value, f: &mut fmt::Formatter) -> fmt::Result {
    fmt::Display::fmt(&v, f)
}

type FmtFn = fn(Value, &mut fmt::Formatter) -> fmt::Result;
const FORMATTERS: [FmtFn; 7] = [f_brackets, f_debug, f_pad, f_const, f_twice, f_nothing, f_outer];
/// The seeded generators draw from the first six (their streams are unchanged by `f_outer`).
const GEN_FORMATTERS: usize = 6;
const F_OUTER: usize = 6;

struct Applied<'a>(FmtFn, &'a Val);

impl<'a> fmt::Display for Applied<'a> {
    fn fmt(&self, f: &mut fmt::Formatter) -> fmt::Result {
        (self.0)(self.1.to_value(), f)
    }
}

/// What a hole must be replaced with.
fn hole_text(props: &[Entry], label: &str, formatter: Option<usize>) -> String {
    match (first_wins(props, label), formatter) {
        (Some(v), Some(i)) => Applied(FORMATTERS[i], v).to_string(),
        (Some(v), None) => v.text(),
        (None, _) => format!("{{{}}}", label),
    }
}

fn reference_render(m: &[MPart], props: &[Entry]) -> String {
    let mut out = String::new();
    for p in m {
        match p {
            MPart::Text(s) => out.push_str(s),
            MPart::Hole(l, f) => out.push_str(&hole_text(props, l, *f)),
        }
    }
    out
}

/// Callbacks a recording writer sees, text merged.
#[derive(Clone, Debug, PartialEq)]
enum Cb {
    /// a plain `fmt::Write::write_str` that did not come through a template callback
    Raw(String),
    Text(String),
    Value(String, String),
    Fmt(String, String),
    Label(String),
}

fn normal_cbs(cbs: Vec<Cb>) -> Vec<Cb> {
    let mut out: Vec<Cb> = Vec::new();
    for c in cbs {
        match c {
            Cb::Text(s) if s.is_empty() => {}
            Cb::Text(s) => {
                if let Some(Cb::Text(last)) = out.last_mut() {
                    last.push_str(&s);
                } else {
                    out.push(Cb::Text(s));
                }
            }
            other => out.push(other),
        }
    }
    out
}

fn reference_cbs(m: &[MPart], props: &[Entry]) -> Vec<Cb> {
    let mut out = Vec::new();
    for p in m {
        match p {
            MPart::Text(s) => out.push(Cb::Text(s.clone())),
            MPart::Hole(l, f) => match (first_wins(props, l), f) {
                (Some(v), Some(i)) => out.push(Cb::Fmt(l.clone(), Applied(FORMATTERS[*i], v).to_string())),
                (Some(v), None) => out.push(Cb::Value(l.clone(), v.text())),
                (None, _) => out.push(Cb::Label(l.clone())),
            },
        }
    }
    normal_cbs(out)
}

// ---------------------------------------------------------------------------
// writers
// ---------------------------------------------------------------------------

#[derive(Default)]
struct Recording {
    cbs: Vec<Cb>,
}

impl fmt::Write for Recording {
    fn write_str(&mut self, s: &str) -> fmt::Result {
        // every callback is overridden below, so nothing legitimate arrives here: text must come
        // through `write_text`
        self.cbs.push(Cb::Raw(s.to_string()));
        Ok(())
    }
}

/// A writer whose `write_text` is not `write_str`: text is transformed character by character
/// (so the result does not depend on how the text is split into fragments), holes are marked, and
/// plain `write_str` output is marked as raw.
#[derive(Default)]
struct Marking {
    out: String,
}

fn mark_text(out: &mut String, text: &str) {
    for c in text.chars() {
        out.push(c);
        out.push('\u{b7}');
    }
}

impl fmt::Write for Marking {
    fn write_str(&mut self, s: &str) -> fmt::Result {
        self.out.push_str("RAW[");
        self.out.push_str(s);
        self.out.push(']');
        Ok(())
    }
}

impl template::Write for Marking {
    fn write_text(&mut self, text: &str) -> fmt::Result {
        mark_text(&mut self.out, text);
        Ok(())
    }

    fn write_hole_value(&mut self, label: &str, value: Value) -> fmt::Result {
        self.out.push_str(&format!("\u{27e8}{}={}\u{27e9}", label, value));
        Ok(())
    }

    fn write_hole_fmt(&mut self, label: &str, value: Value, formatter: Formatter) -> fmt::Result {
        self.out.push_str(&format!("\u{27e8}{}~{}\u{27e9}", label, formatter.apply(value)));
        Ok(())
    }

    fn write_hole_label(&mut self, label: &str) -> fmt::Result {
        self.out.push_str(&format!("\u{27e8}?{}\u{27e9}", label));
        Ok(())
    }
}

/// What the marking writer must have produced: the same transformation applied to the model.
fn reference_marked(m: &[MPart], props: &[Entry]) -> String {
    let mut out = String::new();
    for p in m {
        match p {
            MPart::Text(s) => mark_text(&mut out, s),
            MPart::Hole(l, f) => match (first_wins(props, l), f) {
                (Some(v), Some(i)) => out.push_str(&format!("\u{27e8}{}~{}\u{27e9}", l, Applied(FORMATTERS[*i], v))),
                (Some(v), None) => out.push_str(&format!("\u{27e8}{}={}\u{27e9}", l, v.text())),
                (None, _) => out.push_str(&format!("\u{27e8}?{}\u{27e9}", l)),
            },
        }
    }
    out
}

impl template::Write for Recording {
    fn write_text(&mut self, text: &str) -> fmt::Result {
        self.cbs.push(Cb::Text(text.to_string()));
        Ok(())
    }

    fn write_hole_value(&mut self, label: &str, value: Value) -> fmt::Result {
        self.cbs.push(Cb::Value(label.to_string(), value.to_string()));
        Ok(())
    }

    fn write_hole_fmt(&mut self, label: &str, value: Value, formatter: Formatter) -> fmt::Result {
        self.cbs.push(Cb::Fmt(label.to_string(), formatter.apply(value).to_string()));
        Ok(())
    }

    fn write_hole_label(&mut self, label: &str) -> fmt::Result {
        self.cbs.push(Cb::Label(label.to_string()));
        Ok(())
    }
}

/// Only `fmt::Write`; every template callback is the trait default.
#[derive(Default)]
struct Defaults {
    out: String,
    writes: u32,
}

impl fmt::Write for Defaults {
    fn write_str(&mut self, s: &str) -> fmt::Result {
        self.out.push_str(s);
        self.writes += 1;
        Ok(())
    }
}

impl template::Write for Defaults {}

// ---------------------------------------------------------------------------
// generation
// ---------------------------------------------------------------------------

/// One shared buffer per aliased case: text fragments, hole labels and property keys are then
/// sub-slices of it (prefixes that start at the same address with different lengths, e.g. `user`
/// and `user_id` or the ancestors of a dotted name; suffixes; infixes; repeated segments = equal
/// text at different addresses). The model compares text by content only.
#[derive(Clone, Debug, Default)]
struct Arena {
    buf: String,
}

static NO_ARENA: Arena = Arena { buf: String::new() };

impl Arena {
    fn new(g: &mut Rng) -> Arena {
        let n = 1 + g.usize(4);
        let mut buf = String::new();
        for i in 0..n {
            if i > 0 {
                buf.push_str(*g.pick(&[".", "_", ""]));
            }
            buf.push_str(*g.pick(&["a", "b", "ab", "é", "日", "a", "user", "x"]));
        }
        Arena { buf }
    }

    fn aliased(&self) -> bool {
        !self.buf.is_empty()
    }

    /// A seeded sub-slice, biased towards slices that start at the start of the buffer.
    fn slice(&self, g: &mut Rng) -> &str {
        let b: Vec<usize> = self.buf.char_indices().map(|(i, _)| i).chain([self.buf.len()]).collect();
        let start = if g.chance(3, 5) { 0 } else { g.usize(b.len()) };
        let end = start + g.usize(b.len() - start);
        &self.buf[b[start]..b[end]]
    }

    /// The text of `s` as a slice of the buffer (first occurrence for even salts, a seeded one
    /// otherwise), or `s` itself if the buffer does not contain it.
    fn kref<'a>(&'a self, s: &'a str, salt: usize) -> &'a str {
        if self.buf.is_empty() {
            return s;
        }
        let n = self.buf.match_indices(s).count();
        if n == 0 {
            return s;
        }
        let nth = if salt % 2 == 0 { 0 } else { (salt / 2) % n };
        match self.buf.match_indices(s).nth(nth) {
            Some((at, _)) => &self.buf[at..at + s.len()],
            None => s,
        }
    }
}

/// A model whose fragments and labels are all slices of the arena's buffer.
fn gen_model_aliased(g: &mut Rng, ar: &Arena, max_parts: usize) -> Model {
    let n = g.usize(max_parts + 1);
    (0..n)
        .map(|_| {
            if g.chance(2, 5) {
                let f = if g.chance(1, 5) { Some(g.usize(GEN_FORMATTERS)) } else { None };
                MPart::Hole(ar.slice(g).to_string(), f)
            } else {
                MPart::Text(ar.slice(g).to_string())
            }
        })
        .collect()
}

const ALPHABET: [&str; 9] = ["a", "b", "é", "日", "😀", " ", "{", "}", "x"];
const LABELS: [&str; 12] = ["", "a", "b", "é", "日", "x", "ab", "a b", "{", "}", "😀x", "a}"];

/// All strings of up to three characters over the alphabet: the source of `&'static str`s
/// (a static is not a leak, so this also works under Miri's leak checker).
fn table() -> &'static Vec<String> {
    static TABLE: OnceLock<Vec<String>> = OnceLock::new();
    TABLE.get_or_init(|| {
        let mut all = vec![String::new()];
        let mut layer = vec![String::new()];
        for _ in 0..3 {
            let mut next = Vec::new();
            for s in &layer {
                for a in ALPHABET {
                    next.push(format!("{}{}", s, a));
                }
            }
            all.extend(next.iter().cloned());
            layer = next;
        }
        all.sort();
        all
    })
}

fn static_str(s: &str) -> Option<&'static str> {
    let t = table();
    t.binary_search_by(|e| e.as_str().cmp(s)).ok().map(|i| t[i].as_str())
}

fn gen_text(g: &mut Rng, max: usize) -> String {
    let n = g.usize(max + 1);
    (0..n).map(|_| *g.pick(&ALPHABET)).collect()
}

fn gen_model(g: &mut Rng, max_parts: usize, sub: bool) -> Model {
    if g.chance(1, 10) {
        // exactly one text part: the shape `Template::literal` and hole-free `tpl!` have
        return vec![MPart::Text(if sub { g.pick(&["a", "é", "日", "aé", ""]).to_string() } else { gen_text(g, 5) })];
    }
    let n = g.usize(max_parts + 1);
    let mut m = Vec::new();
    for _ in 0..n {
        if g.chance(2, 5) {
            let label = if sub { *g.pick(&LABELS[..3]) } else { *g.pick(&LABELS) };
            let f = if g.chance(1, 4) { Some(g.usize(GEN_FORMATTERS)) } else { None };
            m.push(MPart::Hole(label.to_string(), f));
        } else if sub {
            // tiny space: unrelated pairs collide often
            let n = g.usize(3);
            m.push(MPart::Text((0..n).map(|_| *g.pick(&["a", "é", "日"])).collect()));
        } else if g.chance(1, 6) {
            m.push(MPart::Text(String::new()));
        } else {
            m.push(MPart::Text(gen_text(g, 4)));
        }
    }
    m
}

/// Another part sequence with the same normal form: text re-split at character boundaries,
/// empty fragments sprinkled in, formatters re-drawn.
fn resplit(g: &mut Rng, m: &[MPart]) -> Model {
    let mut out = Vec::new();
    let sprinkle = |g: &mut Rng, out: &mut Model| {
        while g.chance(1, 5) {
            out.push(MPart::Text(String::new()));
        }
    };
    for p in normal(m) {
        sprinkle(g, &mut out);
        match p {
            NPart::Hole(l) => {
                let f = if g.chance(1, 4) { Some(g.usize(GEN_FORMATTERS)) } else { None };
                out.push(MPart::Hole(l, f));
            }
            NPart::Text(s) => {
                let mut cur = String::new();
                for c in s.chars() {
                    if !cur.is_empty() && g.chance(1, 3) {
                        out.push(MPart::Text(std::mem::take(&mut cur)));
                        sprinkle(g, &mut out);
                    }
                    cur.push(c);
                }
                out.push(MPart::Text(cur));
            }
        }
    }
    sprinkle(g, &mut out);
    out
}

/// One edit of the part sequence; returns the edit's name.
fn one_edit(g: &mut Rng, m: &[MPart]) -> (Model, &'static str) {
    let mut out = m.to_vec();
    let texts: Vec<usize> = (0..m.len()).filter(|i| matches!(&m[*i], MPart::Text(s) if !s.is_empty())).collect();
    let holes: Vec<usize> = (0..m.len()).filter(|i| matches!(&m[*i], MPart::Hole(..))).collect();
    for _ in 0..8 {
        match g.below(9) {
            0 if !texts.is_empty() => {
                // substitute one character (possibly of another width)
                let i = *g.pick(&texts);
                if let MPart::Text(s) = &m[i] {
                    let mut cs: Vec<&str> = s.chars().map(|c| ALPHABET.iter().copied().find(|a| a.starts_with(c)).unwrap_or("x")).collect();
                    let k = g.usize(cs.len());
                    cs[k] = *g.pick(&ALPHABET);
                    out[i] = MPart::Text(cs.concat());
                    return (out, "substitute-char");
                }
            }
            1 if !texts.is_empty() => {
                let i = *g.pick(&texts);
                if let MPart::Text(s) = &m[i] {
                    let mut cs: Vec<char> = s.chars().collect();
                    cs.remove(g.usize(cs.len()));
                    out[i] = MPart::Text(cs.into_iter().collect());
                    return (out, "delete-char");
                }
            }
            2 => {
                let at = g.usize(m.len() + 1);
                out.insert(at, MPart::Text(g.pick(&ALPHABET).to_string()));
                return (out, "insert-text");
            }
            3 => {
                let at = g.usize(m.len() + 1);
                out.insert(at, MPart::Text(String::new()));
                return (out, "insert-empty-text");
            }
            4 if !holes.is_empty() => {
                let i = *g.pick(&holes);
                out[i] = MPart::Hole(g.pick(&LABELS).to_string(), None);
                return (out, "relabel-hole");
            }
            5 if !holes.is_empty() => {
                out.remove(*g.pick(&holes));
                return (out, "delete-hole");
            }
            6 => {
                let at = g.usize(m.len() + 1);
                out.insert(at, MPart::Hole(g.pick(&LABELS).to_string(), None));
                return (out, "insert-hole");
            }
            7 if !holes.is_empty() => {
                // a hole becomes its literal text `{label}`
                let i = *g.pick(&holes);
                if let MPart::Hole(l, _) = &m[i] {
                    out[i] = MPart::Text(format!("{{{}}}", l));
                    return (out, "hole-to-text");
                }
            }
            8 if m.len() >= 2 => {
                let i = g.usize(m.len() - 1);
                out.swap(i, i + 1);
                return (out, "swap-neighbours");
            }
            _ => {}
        }
    }
    out.push(MPart::Text("x".into()));
    (out, "append-text")
}

fn gen_props(g: &mut Rng, m: &[MPart]) -> Vec<Entry> {
    let n = g.usize(6);
    let mut next = 0;
    let labels: Vec<&str> = m
        .iter()
        .filter_map(|p| match p {
            MPart::Hole(l, _) => Some(l.as_str()),
            _ => None,
        })
        .collect();
    (0..n)
        .map(|_| {
            next += 1;
            let k = if !labels.is_empty() && g.chance(2, 3) {
                g.pick(&labels).to_string()
            } else {
                g.pick(&LABELS).to_string()
            };
            let v = match g.below(6) {
                0 | 1 => Val::I(100 + next),
                2 => Val::I(*g.pick(&[0, -1, i64::MIN, i64::MAX])),
                3 => Val::S(format!("s{}{}", next, g.pick(&["", "é", "日 ", "😀", "{a}", "}"]))),
                4 => Val::B(g.bool()),
                _ => Val::F(*g.pick(&[1.5, -0.25, 1e21, 3.0])),
            };
            (k, v)
        })
        .collect()
}

#[derive(Clone, Copy, Debug, PartialEq)]
enum How {
    /// every fragment / label borrowed from the case's shared buffer
    Aliased,
    Borrowed,
    Static,
    Owned,
    Shared,
    Mixed,
}

const HOWS: [How; 5] = [How::Borrowed, How::Static, How::Owned, How::Shared, How::Mixed];

/// Real parts for a model. `'static` text comes from the table when the fragment is in it.
fn parts_of<'a>(m: &'a [MPart], ar: &'a Arena, how: How, g: &mut Rng) -> Vec<Part<'a>> {
    m.iter()
        .enumerate()
        .map(|(idx, p)| {
            if how == How::Aliased {
                // salt: mostly the first occurrence (same start address), sometimes another one
                let salt = if g.chance(2, 3) { 0 } else { idx * 2 + 1 };
                return match p {
                    MPart::Text(s) => Part::text_ref(ar.kref(s, salt)),
                    MPart::Hole(l, f) => {
                        let part = if g.bool() { Part::hole_ref(ar.kref(l, salt)) } else { Part::hole_str(Str::new_ref(ar.kref(l, salt))) };
                        match f {
                            Some(i) => part.with_formatter(Formatter::new(FORMATTERS[*i])),
                            None => part,
                        }
                    }
                };
            }
            let h = if how == How::Mixed { HOWS[g.usize(4)] } else { how };
            match p {
                MPart::Text(s) => match h {
                    How::Static => match static_str(s) {
                        Some(st) => Part::text(st),
                        None => Part::text_ref(s),
                    },
                    How::Owned => Part::text_owned(s.clone()),
                    How::Shared => {
                        if g.bool() {
                            Part::text_str(Str::new_shared(s.clone()))
                        } else {
                            Part::text_str(Str::new_cow_ref(Cow::Borrowed(s.as_str())))
                        }
                    }
                    _ => Part::text_ref(s),
                },
                MPart::Hole(l, f) => {
                    let part = match h {
                        How::Static => match static_str(l) {
                            Some(st) => Part::hole(st),
                            None => Part::hole_ref(l),
                        },
                        How::Owned => Part::hole_owned(l.clone()),
                        How::Shared => {
                            if g.bool() {
                                Part::hole_str(Str::new_shared(l.clone()))
                            } else {
                                Part::hole_str(Str::new_cow_ref(Cow::Owned(l.clone())))
                            }
                        }
                        _ => Part::hole_ref(l),
                    };
                    match f {
                        Some(i) => part.with_formatter(Formatter::new(FORMATTERS[*i])),
                        None => part,
                    }
                }
            }
        })
        .collect()
}

/// Fully owned parts (for `Template::new_owned`).
fn owned_parts(m: &[MPart], g: &mut Rng) -> Vec<Part<'static>> {
    m.iter()
        .map(|p| match p {
            MPart::Text(s) => match (static_str(s), g.bool()) {
                (Some(st), true) => Part::text(st),
                _ => Part::text_owned(s.clone()),
            },
            MPart::Hole(l, f) => {
                let part = match (static_str(l), g.bool()) {
                    (Some(st), true) => Part::hole(st),
                    _ => Part::hole_owned(l.clone()),
                };
                match f {
                    Some(i) => part.with_formatter(Formatter::new(FORMATTERS[*i])),
                    None => part,
                }
            }
        })
        .collect()
}

// ---------------------------------------------------------------------------
// checks
// ---------------------------------------------------------------------------

fn has_non_ascii(m: &[MPart]) -> bool {
    m.iter().any(|p| match p {
        MPart::Text(s) => !s.is_ascii(),
        MPart::Hole(l, _) => !l.is_ascii(),
    })
}

fn has_empty_text(m: &[MPart]) -> bool {
    m.iter().any(|p| matches!(p, MPart::Text(s) if s.is_empty()))
}

fn text_class(a: &[MPart], b: &[MPart]) -> &'static str {
    match (has_empty_text(a) || has_empty_text(b), has_non_ascii(a) || has_non_ascii(b)) {
        (true, true) => "empty-fragment+non-ascii",
        (true, false) => "empty-fragment",
        (false, true) => "non-ascii",
        (false, false) => "ascii",
    }
}

struct Ctx<'a> {
    case: &'a dyn Fn() -> Json,
}

fn viol(r: &mut Report, cx: &Ctx, sig: &str, detail: String, extra: Json) {
    let mut case = (cx.case)();
    if let Some(o) = case.as_object_mut() {
        o.insert("detail".into(), json!(detail.clone()));
        o.insert("witness".into(), extra);
    }
    r.violation(sig, &detail, case);
}

/// Render one real template through every writer and compare with the reference.
fn check_render(r: &mut Report, cx: &Ctx, tpl: &Template, variant: &str, m: &[MPart], props: &[Entry]) {
    check_render_in(r, cx, tpl, variant, m, props, &NO_ARENA)
}

/// `ar`: when aliased, the properties are additionally handed over with their keys borrowed from
/// the shared buffer (the same storage the template's labels may come from).
fn check_render_in(r: &mut Report, cx: &Ctx, tpl: &Template, variant: &str, m: &[MPart], props: &[Entry], ar: &Arena) {
    r.observe("templates-rendered", 1);
    let want = reference_render(m, props);
    let want_cbs = reference_cbs(m, props);
    let want_marked = reference_marked(m, props);
    let witness = || json!({"model": format!("{:?}", m), "props": format!("{:?}", props), "variant": variant, "want": want});

    let res = catch(|| {
        let mut outs: Vec<(&'static str, String)> = Vec::new();
        // Display through fmt::Formatter
        outs.push(("display", format!("{}", tpl.render(props))));
        // Render::write into a String
        let mut s = String::new();
        let ok = tpl.render(props).write(&mut s).is_ok();
        outs.push(("write-string", if ok { s } else { format!("<error after {:?}>", s) }));
        // trait defaults only, behind `&mut`
        let mut d = Defaults::default();
        let ok = tpl.render(props).write(&mut d).is_ok();
        outs.push(("write-defaults", if ok { d.out } else { format!("<error after {:?}>", d.out) }));
        // erased properties
        let erased: &dyn ErasedProps = &props;
        outs.push(("display-erased-props", tpl.render(erased).to_string()));
        // the event message
        let evt = Event::new(Path::new_raw("c16"), tpl.by_ref(), Empty, props);
        outs.push(("event-msg", evt.msg().to_string()));
        // recorded callbacks
        let mut rec = Recording::default();
        let ok = tpl.render(props).write(&mut rec).is_ok();
        // a writer whose write_text is not write_str
        let mut marking = Marking::default();
        let ok2 = tpl.render(props).write(&mut marking).is_ok();
        let mut marked = vec![("write-marking", if ok2 { marking.out } else { format!("<error after {:?}>", marking.out) })];
        if ar.aliased() {
            // keys borrowed from the shared buffer, first occurrence = same start address as
            // every other key / label that is a prefix of the buffer
            let aliased: Vec<(&str, &Val)> = props.iter().enumerate().map(|(i, (k, v))| (ar.kref(k, if i % 3 == 2 { i } else { 0 }), v)).collect();
            outs.push(("display-aliased-props", tpl.render(&aliased[..]).to_string()));
            let strs: Vec<(Str, Value)> = aliased.iter().map(|(k, v)| (Str::new_ref(k), v.to_value())).collect();
            let mut s = String::new();
            let _ = tpl.render(&strs[..]).write(&mut s);
            outs.push(("write-string-aliased-str-props", s));
            let mut marking = Marking::default();
            let _ = tpl.render(&aliased[..]).write(&mut marking);
            marked.push(("write-marking-aliased-props", marking.out));
        }
        (outs, rec.cbs, ok, marked)
    });
    match res {
        Err(msg) => viol(r, cx, &format!("C16:render-panics:{}", variant), format!("rendering panicked: {}", msg), witness()),
        Ok((outs, cbs, ok, marked)) => {
            r.observe("renders", (outs.len() + marked.len()) as u64 + 1);
            for (writer, got) in marked {
                r.observe("marking-writer-renders", 1);
                if got != want_marked {
                    let what = if got.contains("RAW[") { "text-bypasses-write_text" } else { "render-differs" };
                    viol(
                        r,
                        cx,
                        &format!("C16:{}:{}:{}", what, writer, variant),
                        format!(
                            "a writer that transforms text in write_text, marks holes and marks plain write_str output as RAW[..] received {:?} from the {} template; the same transformation of the model gives {:?}",
                            got, variant, want_marked
                        ),
                        witness(),
                    );
                }
            }
            for (writer, got) in outs {
                if got != want {
                    viol(
                        r,
                        cx,
                        &format!("C16:render-differs:{}:{}", writer, variant),
                        format!("{} of the {} template wrote {:?}, the reference renders {:?}", writer, variant, got, want),
                        witness(),
                    );
                }
            }
            r.observe("writer-callbacks", cbs.len() as u64);
            let got_cbs = normal_cbs(cbs);
            if !ok || got_cbs != want_cbs {
                viol(
                    r,
                    cx,
                    &format!("C16:callbacks-differ:{}", variant),
                    format!("a recording writer saw {:?}, the model says {:?}", got_cbs, want_cbs),
                    witness(),
                );
            }
        }
    }
    if props.is_empty() {
        // Template's own Display renders without properties
        match catch(|| tpl.to_string()) {
            Ok(got) if got == want => {}
            Ok(got) => viol(
                r,
                cx,
                &format!("C16:render-differs:template-display:{}", variant),
                format!("Display of the {} template wrote {:?}, the reference renders {:?}", variant, got, want),
                witness(),
            ),
            Err(msg) => viol(r, cx, &format!("C16:render-panics:{}", variant), format!("Display panicked: {}", msg), witness()),
        }
    }
}

/// `a == b` in both orders against the normal forms. Returns the implementation's answer.
fn check_eq(r: &mut Report, cx: &Ctx, a: &Template, ma: &[MPart], b: &Template, mb: &[MPart], relation: &str) -> Option<bool> {
    let want = normal(ma) == normal(mb);
    let witness = || json!({"a": format!("{:?}", ma), "b": format!("{:?}", mb), "relation": relation, "equal_normal_forms": want});
    r.observe("comparisons", 2);
    r.observe(
        &format!("pairs:{}:{}", relation.split(':').next().unwrap_or(relation), if want { "equal-normal-forms" } else { "different-normal-forms" }),
        1,
    );
    match catch(|| (a == b, b == a)) {
        Err(msg) => {
            viol(
                r,
                cx,
                &format!("C16:eq-panics:{}", text_class(ma, mb)),
                format!("comparing {:?} with {:?} panicked: {}", ma, mb, msg),
                witness(),
            );
            None
        }
        Ok((ab, ba)) => {
            r.observe(if ab { "eq-answered-true" } else { "eq-answered-false" }, 1);
            if ab != ba {
                viol(
                    r,
                    cx,
                    &format!("C16:eq-not-symmetric:{}", text_class(ma, mb)),
                    format!("a == b is {} but b == a is {} for a = {:?}, b = {:?}", ab, ba, ma, mb),
                    witness(),
                );
            }
            for got in [ab, ba] {
                if got != want {
                    let sig = if want {
                        format!("C16:eq-wrong:equal-forms-reported-unequal:{}", text_class(ma, mb))
                    } else {
                        format!("C16:eq-wrong:unequal-forms-reported-equal:{}", relation)
                    };
                    viol(
                        r,
                        cx,
                        &sig,
                        format!("== answered {} for a = {:?}, b = {:?}; normal forms {:?} vs {:?}", got, ma, mb, normal(ma), normal(mb)),
                        witness(),
                    );
                    break;
                }
            }
            Some(ab)
        }
    }
}

// ---------------------------------------------------------------------------
// outer format flags: `format!("{:>12}", tpl.render(props))`, `{:.5}` on Template, nested `write!`
// ---------------------------------------------------------------------------
//
// Rendering through `Display` hands the template the `fmt::Formatter` of the OUTER placeholder,
// flags included. The statement says text fragments are written verbatim to any writer: a
// fragment is never padded to the width nor truncated to the precision of that placeholder.
// Holes: the unchanged tree hands the outer formatter to the value (a hole without formatter is
// `Display::fmt(&value, f)`, a hole with a formatter gets `formatter.fmt(value, f)`, an absent
// hole is written as `{label}` through `write_fmt`, which starts from default flags). The model
// does exactly that with std: the model value (or `Applied(formatter, value)`) formatted with the
// same literal spec; `{label}` verbatim.

/// Format specs must be literals: one list, from which the table and both dispatchers are made.
macro_rules! outer_specs {
    ($(($idx:literal, $spec:literal, $class:literal)),* $(,)?) => {
        /// (literal spec, flag class)
        const SPECS: &[(&str, &str)] = &[$(($spec, $class)),*];
        fn fmt_spec(i: usize, x: &dyn fmt::Display) -> String {
            match i {
                $($idx => format!($spec, x),)*
                _ => unreachable!("no such spec"),
            }
        }
        fn write_spec(f: &mut fmt::Formatter, i: usize, x: &dyn fmt::Display) -> fmt::Result {
            match i {
                $($idx => write!(f, $spec, x),)*
                _ => unreachable!("no such spec"),
            }
        }
    };
}

outer_specs![
    (0, "{:>12}", "width"),
    (1, "{:.5}", "precision"),
    (2, "{:<8.3}", "width-precision"),
    (3, "{:^20}", "fill-align"),
    (4, "{:08}", "zero-pad"),
    (5, "{:6}", "width"),
    (6, "{:.0}", "precision"),
    (7, "{:*<3.1}", "fill-align"),
    (8, "{:.2}", "precision"),
    (9, "{:+}", "sign"),
    (10, "{:-^9.4}", "fill-align"),
];
const SPEC_W6: usize = 5;
const SPEC_P2: usize = 8;

/// Another `Display` whose `fmt` does `write!(f, "{:6}", inner)`.
struct Nested<'a>(&'a dyn fmt::Display, usize);

impl<'a> fmt::Display for Nested<'a> {
    fn fmt(&self, f: &mut fmt::Formatter) -> fmt::Result {
        write_spec(f, self.1, self.0)
    }
}

fn val_spec(v: &Val, spec: usize) -> String {
    match v {
        Val::I(x) => fmt_spec(spec, x),
        Val::S(x) => fmt_spec(spec, x),
        Val::B(x) => fmt_spec(spec, x),
        Val::F(x) => fmt_spec(spec, x),
    }
}

fn reference_render_spec(m: &[MPart], props: &[Entry], spec: usize) -> String {
    let mut out = String::new();
    for p in m {
        match p {
            MPart::Text(s) => out.push_str(s),
            MPart::Hole(l, f) => match (first_wins(props, l), f) {
                (Some(v), Some(i)) => out.push_str(&fmt_spec(spec, &Applied(FORMATTERS[*i], v))),
                (Some(v), None) => out.push_str(&val_spec(v, spec)),
                (None, _) => out.push_str(&format!("{{{}}}", l)),
            },
        }
    }
    out
}

/// Is `got` the text of the normal form verbatim and in order, with anything at all in the holes?
fn text_is_verbatim(got: &str, nf: &[NPart]) -> bool {
    let b = got.as_bytes();
    // positions reachable after the parts so far
    let mut at: Vec<usize> = vec![0];
    for p in nf {
        match p {
            NPart::Text(t) => {
                at = at.iter().filter(|&&p| b[p..].starts_with(t.as_bytes())).map(|&p| p + t.len()).collect();
            }
            NPart::Hole(_) => {
                if let Some(&min) = at.iter().min() {
                    at = (min..=b.len()).collect();
                }
            }
        }
        if at.is_empty() {
            return false;
        }
    }
    at.contains(&b.len())
}

static FLAG_MODEL_OK: OnceLock<bool> = OnceLock::new();

/// The hole model under flags is an assumption about Value's Display (it forwards the formatter to
/// the std impl of the captured value). Checked once; if it does not hold, only fragments are judged.
fn flag_model_ok(r: &mut Report) -> bool {
    if let Some(ok) = FLAG_MODEL_OK.get() {
        return *ok;
    }
    let mut bad = Vec::new();
    let vals = [
        Val::I(0),
        Val::I(-1),
        Val::I(42),
        Val::I(101),
        Val::I(i64::MIN),
        Val::I(i64::MAX),
        Val::S("s1".into()),
        Val::S("s2日 ".into()),
        Val::S("héllo wörld".into()),
        Val::S("s3{a}".into()),
        Val::S(String::new()),
        Val::B(true),
        Val::B(false),
        Val::F(1.5),
        Val::F(-0.25),
        Val::F(1e21),
        Val::F(3.0),
    ];
    for spec in 0..SPECS.len() {
        for v in &vals {
            let got = fmt_spec(spec, &v.to_value());
            let want = val_spec(v, spec);
            if got != want {
                bad.push(format!("{:?} under {} is {:?}, std gives {:?}", v, SPECS[spec].0, got, want));
            }
        }
    }
    let ok = bad.is_empty();
    if !ok && FLAG_MODEL_OK.get().is_none() {
        r.inconclusive(format!(
            "Value's Display under an outer format spec differs from std's formatting of the same value ({}): holes under outer flags are not judged, fragments still are",
            bad.join("; ")
        ));
    }
    *FLAG_MODEL_OK.get_or_init(|| ok)
}

/// Render `tpl` through `Display` under each of `specs` on the outer placeholder: the `Render`,
/// the `Template` itself and a `Render` nested in another Display's `write!(f, "{:6}", ..)`.
/// Returns what the `Render` wrote per spec (for comparing equal templates).
fn check_outer_flags(r: &mut Report, cx: &Ctx, tpl: &Template, variant: &str, m: &[MPart], props: &[Entry], specs: &[usize]) -> Vec<Option<String>> {
    let holes_judged = flag_model_ok(r);
    let nf = normal(m);
    let want_tpl = reference_render(m, &[]);
    let mut rendered = Vec::new();
    for &spec in specs {
        let (lit, class) = SPECS[spec];
        let want = reference_render_spec(m, props, spec);
        // `{:6}` / `{:.2}` are also reached through another Display impl, itself under plain `{}` or flags
        let nested = spec == SPEC_W6 || spec == SPEC_P2 || spec % 3 == 0;
        let res = catch(|| {
            let render = tpl.render(props);
            let mut outs: Vec<(&'static str, String, bool)> = Vec::new();
            outs.push(("Display of Template", fmt_spec(spec, tpl), true));
            outs.push(("Display of Render", fmt_spec(spec, &render), false));
            if nested {
                outs.push(("write!(f, spec, render) inside another Display impl", format!("{}", Nested(&render, spec)), false));
                outs.push(("write!(f, spec, render) inside another Display impl that is itself padded", format!("{:>40.30}", Nested(&render, spec)), false));
                outs.push(("write!(f, spec, template) inside another Display impl", Nested(tpl, spec).to_string(), true));
            }
            outs
        });
        let witness = |path: &str, got: &str, want: &str| {
            json!({"model": format!("{:?}", m), "props": format!("{:?}", props), "variant": variant, "spec": lit, "through": path, "got": got, "want": want})
        };
        match res {
            Err(msg) => {
                viol(
                    r,
                    cx,
                    &format!("C16:render-panics:outer-format-flags:{}", class),
                    format!("rendering the {} template under {} panicked: {}", variant, lit, msg),
                    witness("Display", "", &want),
                );
                rendered.push(None);
            }
            Ok(outs) => {
                r.observe("renders-under-outer-format-flags", outs.len() as u64);
                r.observe(&format!("renders-under-outer-{}", class), outs.len() as u64);
                // without values every hole is `{label}`: that output is text only
                let text_bad = outs.iter().any(|(_, got, no_values)| *no_values && *got != want_tpl);
                let mut of_render = None;
                for (path, got, no_values) in outs {
                    let want: &str = if no_values { &want_tpl } else { &want };
                    if of_render.is_none() && !no_values {
                        of_render = Some(got.clone());
                    }
                    if got == want {
                        continue;
                    }
                    if no_values || text_bad || !text_is_verbatim(&got, &nf) {
                        viol(
                            r,
                            cx,
                            &format!("C16:text-not-verbatim:outer-format-flags:{}", class),
                            format!(
                                "{} of the {} template under the outer placeholder {} wrote {:?}; with the text fragments verbatim it is {:?}",
                                path, variant, lit, got, want
                            ),
                            witness(path, &got, want),
                        );
                    } else if holes_judged {
                        viol(
                            r,
                            cx,
                            &format!("C16:hole-differs:outer-format-flags:{}", class),
                            format!(
                                "{} of the {} template under the outer placeholder {} wrote {:?}: the text is verbatim but a hole is not its value (through its formatter) formatted with {}, which gives {:?}",
                                path, variant, lit, got, lit, want
                            ),
                            witness(path, &got, want),
                        );
                    }
                }
                rendered.push(of_render);
            }
        }
    }
    rendered
}

fn plain_model(m: &[MPart]) -> bool {
    m.iter().all(|p| !matches!(p, MPart::Hole(_, Some(_))))
}

/// Templates that are `==` must render identically under the same outer flags.
fn check_equal_render_alike(r: &mut Report, cx: &Ctx, specs: &[usize], outs: &[(&[MPart], &Vec<Option<String>>)]) {
    // (formatters are not part of equality: only formatter-free models are comparable)
    if outs.iter().any(|(m, _)| !plain_model(m)) {
        return;
    }
    for (k, &spec) in specs.iter().enumerate() {
        let (lit, class) = SPECS[spec];
        for w in outs.windows(2) {
            r.observe("equal-templates-compared-under-outer-format-flags", 1);
            if let (Some(a), Some(b)) = (&w[0].1[k], &w[1].1[k]) {
                if a != b {
                    viol(
                        r,
                        cx,
                        &format!("C16:equal-templates-render-differently:outer-format-flags:{}", class),
                        format!("two splittings of one normal form render {:?} and {:?} under the outer placeholder {}", a, b, lit),
                        json!({"a": format!("{:?}", w[0].0), "b": format!("{:?}", w[1].0), "spec": lit}),
                    );
                }
            }
        }
    }
}

/// Hand-written templates under every spec (sub-sampled under Miri).
fn outer_flags_fixed(r: &mut Report) {
    let case = || json!({"section": "outer-flags-fixed"});
    let cx = Ctx { case: &case };
    let ho = |l: &str| MPart::Hole(l.to_string(), Some(F_OUTER));
    let hb = |l: &str| MPart::Hole(l.to_string(), Some(0));
    let props: Vec<Entry> = vec![
        e("i", Val::I(42)),
        e("f", Val::F(1.5)),
        e("s", Val::S("héllo wörld".into())),
        e("b", Val::B(true)),
        e("i", Val::I(7)),
        e("n", Val::I(i64::MIN)),
        e("", Val::S(String::new())),
    ];
    // groups of splittings of one normal form
    let groups: Vec<Vec<Model>> = vec![
        vec![vec![t("a")], vec![t(""), t("a"), t("")]],
        vec![vec![t("hello wörld")], vec![t("hello"), t(" "), t("wö"), t("rld")], vec![t("hello wö"), t(""), t("rld")]],
        vec![vec![t("user "), h("i"), t(" logged in")], vec![t("us"), t("er "), h("i"), t(" logged"), t(" in")]],
        vec![vec![t("日本"), t("語"), h("s"), t("")], vec![t("日本語"), h("s")]],
        vec![vec![h("f"), t("-"), h("missing"), t("-"), h("b"), t("-"), h("n"), h("")]],
        vec![vec![t("x"), ho("i"), t("|"), ho("f"), t("|"), ho("s"), t("|"), hb("i"), t("|"), ho("missing"), t("y")]],
        vec![vec![], vec![t("")]],
        vec![vec![t("{"), h("a b"), t("} 😀"), h("s")], vec![t("{"), h("a b"), t("}"), t(" "), t("😀"), h("s")]],
    ];
    let all: Vec<usize> = (0..SPECS.len()).collect();
    for group in &groups {
        if !pick() {
            continue;
        }
        r.eval();
        let mut outs: Vec<Vec<Option<String>>> = Vec::new();
        for (k, m) in group.iter().enumerate() {
            let mut g = Rng::stream(0, &[16, 4, k as u64]);
            let got = if k % 2 == 0 {
                let parts = parts_of(m, &NO_ARENA, How::Borrowed, &mut g);
                let tpl = Template::new_ref(&parts);
                let mut got = check_outer_flags(r, &cx, &tpl, "new_ref", m, &props, &all);
                check_outer_flags(r, &cx, &tpl.to_owned(), "to_owned", m, &[], &all);
                if let [MPart::Text(s)] = &m[..] {
                    got = check_outer_flags(r, &cx, &Template::literal_ref(s), "literal", m, &props, &all);
                }
                got
            } else {
                let tpl = Template::new_owned(owned_parts(m, &mut g));
                check_outer_flags(r, &cx, &tpl, "new_owned", m, &props, &all)
            };
            outs.push(got);
        }
        let pairs: Vec<(&[MPart], &Vec<Option<String>>)> = group.iter().map(|m| &m[..]).zip(outs.iter()).collect();
        check_equal_render_alike(r, &cx, &all, &pairs);
    }
}

const COUNTED: u64 = 1_000_000;

fn seeded_case(r: &mut Report, seed: u64, i: u64) {
    let mut g = Rng::stream(seed, &[16, 1, i]);
    let sub = g.chance(1, 4);
    // one case in four: every fragment, label and property key is a slice of one shared buffer
    let arena = if g.chance(1, 4) { Arena::new(&mut g) } else { Arena::default() };
    let ar = &arena;
    let al = ar.aliased();
    let ma = if al { gen_model_aliased(&mut g, ar, 4) } else { gen_model(&mut g, if sub { 4 } else { 8 }, sub) };
    let mb = resplit(&mut g, &ma);
    let (mc, edit) = one_edit(&mut g, &ma);
    let md = if al { gen_model_aliased(&mut g, ar, 2) } else { gen_model(&mut g, if sub { 4 } else { 8 }, sub) };
    let me = resplit(&mut g, &mb);
    let mut props = gen_props(&mut g, &ma);
    if al {
        // keys from the buffer too: prefixes / extensions of the labels in the same storage
        for (k, _) in props.iter_mut() {
            if g.chance(2, 3) {
                *k = ar.slice(&mut g).to_string();
            }
        }
        r.observe("cases-with-text-labels-keys-from-one-buffer", 1);
    }
    let how_a = if al && g.chance(2, 3) { How::Aliased } else { *g.pick(&HOWS) };
    let how_b = if al && g.chance(2, 3) { How::Aliased } else { *g.pick(&HOWS) };
    let how_cd = if al { How::Aliased } else { How::Mixed };

    let text = format!("{:?}", ma);
    let case = || json!({"section": "seeded", "seed": seed, "index": i, "model": text, "shared_buffer": arena.buf});
    let cx = Ctx { case: &case };
    r.eval();
    let nf = normal(&ma);
    // distinct normal forms are counted over the first COUNTED cases (bounds the hash set)
    if nf.len() >= 2 && i < COUNTED {
        r.nontrivial(&nf);
    }
    if r.wants_sample() && nf.len() >= 3 && i < 64 {
        let (a, b, p) = (format!("{:?}", ma), format!("{:?}", mb), format!("{:?}", props));
        r.sample(move || json!({"model": a, "resplit": b, "props": p}));
    }

    // construction variants of A
    let pa = parts_of(&ma, ar, how_a, &mut g);
    let ta = Template::new_ref(&pa);
    let ta_from: Template = Template::from(&pa[..]);
    let ta_by_ref = ta.by_ref();
    let ta_owned = ta.to_owned();
    let ta_owned_by_ref = ta_owned.by_ref();
    let ta_owned_again = ta_owned.to_owned();
    let ta_clone = ta.clone();
    let ta_new_owned = Template::new_owned(owned_parts(&ma, &mut g));
    let literal = match &ma[..] {
        [MPart::Text(s)] => Some(match (static_str(s), g.bool()) {
            (Some(st), true) => Template::literal(st),
            _ => Template::literal_ref(s),
        }),
        _ => None,
    };
    let mut variants: Vec<(&str, &Template)> = vec![
        ("new_ref", &ta),
        ("from-slice", &ta_from),
        ("by_ref", &ta_by_ref),
        ("to_owned", &ta_owned),
        ("to_owned-by_ref", &ta_owned_by_ref),
        ("to_owned-to_owned", &ta_owned_again),
        ("clone", &ta_clone),
        ("new_owned", &ta_new_owned),
    ];
    if let Some(l) = &literal {
        variants.push(("literal", l));
    }

    // render: every variant with the seeded properties, one of them also without any
    for (name, t) in &variants {
        check_render_in(r, &cx, t, name, &ma, &props, ar);
    }
    let (name, t) = variants[g.usize(variants.len())];
    check_render(r, &cx, t, name, &ma, &[]);
    // the properties only through their first-wins prefix / a reordering that keeps first-wins
    if props.len() >= 2 {
        let mut dedup: Vec<Entry> = Vec::new();
        for (k, v) in &props {
            if !dedup.iter().any(|(dk, _)| dk == k) {
                dedup.push((k.clone(), v.clone()));
            }
        }
        dedup.reverse();
        check_render_in(r, &cx, &ta, "new_ref", &ma, &dedup, ar);
    }

    // equality: all variants of A are equal to each other
    for (na, x) in &variants {
        check_eq(r, &cx, x, &ma, x, &ma, "same-template");
        let (nb, y) = variants[g.usize(variants.len())];
        let _ = (na, nb);
        check_eq(r, &cx, x, &ma, y, &ma, "variants-of-one-model");
    }

    // equality against other models
    let pb = parts_of(&mb, ar, how_b, &mut g);
    let tb = Template::new_ref(&pb);
    let pc = parts_of(&mc, ar, how_cd, &mut g);
    let tc = Template::new_ref(&pc);
    let pd = parts_of(&md, ar, how_cd, &mut g);
    let td = Template::new_ref(&pd);
    let pe = owned_parts(&me, &mut g);
    let te = Template::new_owned(pe);
    let all: [(&Template, &Model, &str); 5] = [
        (&ta, &ma, "a"),
        (&tb, &mb, "resplit"),
        (&tc, &mc, edit),
        (&td, &md, "independent"),
        (&te, &me, "resplit-of-resplit"),
    ];
    let mut answers = [[None; 5]; 5];
    for x in 0..5 {
        for y in x..5 {
            let relation: String = match (x, y) {
                (0, 1) | (0, 4) | (1, 4) => "resplit".into(),
                (0, 2) => format!("one-edit:{}", edit),
                (_, 3) | (3, _) => "independent".into(),
                (x, y) if x == y => "same-template".into(),
                _ => format!("resplit-vs-one-edit:{}", edit),
            };
            let ans = check_eq(r, &cx, all[x].0, all[x].1, all[y].0, all[y].1, &relation);
            answers[x][y] = ans;
            answers[y][x] = ans;
        }
    }
    // transitivity on the implementation's own answers
    for x in 0..5 {
        for y in 0..5 {
            for z in 0..5 {
                if x != y && y != z && x != z {
                    r.observe("triples", 1);
                    if answers[x][y] == Some(true) && answers[y][z] == Some(true) && answers[x][z] == Some(false) {
                        viol(
                            r,
                            &cx,
                            &format!("C16:eq-not-transitive:{}", text_class(all[x].1, all[z].1)),
                            format!("x == y and y == z but x != z for x = {:?}, y = {:?}, z = {:?}", all[x].1, all[y].1, all[z].1),
                            json!({"x": format!("{:?}", all[x].1), "y": format!("{:?}", all[y].1), "z": format!("{:?}", all[z].1)}),
                        );
                    }
                }
            }
        }
    }
    // the re-split and the neighbours render by their own models too
    check_render_in(r, &cx, &tb, "new_ref", &mb, &props, ar);
    check_render_in(r, &cx, &tc, "new_ref", &mc, &props, ar);
    check_render_in(r, &cx, &te, "new_owned", &me, &props, ar);
    // equal templates split differently produce identical output through the same (text-transforming) writer
    let marked = |t: &Template| {
        catch(|| {
            let mut w = Marking::default();
            let _ = t.render(&props[..]).write(&mut w);
            w.out
        })
    };
    if let (Ok(a), Ok(b), Ok(e)) = (marked(&ta), marked(&tb), marked(&te)) {
        r.observe("marking-writer-renders", 3);
        // (formatters are re-drawn by `resplit`, so only formatter-free models are comparable)
        let plain = |m: &Model| m.iter().all(|p| !matches!(p, MPart::Hole(_, Some(_))));
        if plain(&ma) && plain(&mb) && plain(&me) && (a != b || b != e) {
            viol(
                r,
                &cx,
                "C16:resplit-renders-differently-through-one-writer",
                format!("the same writer received {:?}, {:?} and {:?} from three splittings of one normal form", a, b, e),
                json!({"a": format!("{:?}", ma), "b": format!("{:?}", mb), "e": format!("{:?}", me)}),
            );
        }
    }
    // Display under format flags on the outer placeholder: three specs per case (own stream, so the
    // draws above are what they were), one construction variant of A, the re-split and its re-split
    let mut g2 = Rng::stream(seed, &[16, 3, i]);
    let first = g2.usize(SPECS.len());
    let specs = [first, (first + 1 + g2.usize(3)) % SPECS.len(), (first + 4 + g2.usize(SPECS.len() - 4)) % SPECS.len()];
    let (name, tv) = variants[g2.usize(variants.len())];
    let oa = check_outer_flags(r, &cx, tv, name, &ma, &props, &specs);
    let ob = check_outer_flags(r, &cx, &tb, "new_ref", &mb, &props, &specs);
    let oe = check_outer_flags(r, &cx, &te, "new_owned", &me, &props, &specs);
    check_equal_render_alike(r, &cx, &specs, &[(&ma[..], &oa), (&mb[..], &ob), (&me[..], &oe)]);
}

/// Unrelated pairs only: the cheapest way to reach fragment boundaries that fall inside a
/// multi-byte character of the other side.
fn unrelated_case(r: &mut Report, seed: u64, i: u64) {
    let mut g = Rng::stream(seed, &[16, 2, i]);
    let text = format!("unrelated pairs block {}", i);
    let case = || json!({"section": "unrelated", "seed": seed, "index": i, "what": text});
    // (the arena is drawn from the block's stream below, so a replay rebuilds it)
    let cx = Ctx { case: &case };
    // one block in four draws both sides from one shared buffer (few parts, so single-text and
    // single-hole templates whose storage starts at the same address meet often)
    let arena = if g.chance(1, 4) { Arena::new(&mut g) } else { Arena::default() };
    let ar = &arena;
    for _ in 0..16 {
        r.eval();
        if ar.aliased() {
            let ma = gen_model_aliased(&mut g, ar, 2);
            let mb = gen_model_aliased(&mut g, ar, 2);
            let pa = parts_of(&ma, ar, How::Aliased, &mut g);
            let pb = parts_of(&mb, ar, if g.chance(3, 4) { How::Aliased } else { How::Owned }, &mut g);
            let ta = match &ma[..] {
                [MPart::Text(s)] if g.bool() => Template::literal_ref(ar.kref(s, 0)),
                _ => Template::new_ref(&pa),
            };
            let tb = match &mb[..] {
                [MPart::Text(s)] if g.bool() => Template::literal_ref(ar.kref(s, 0)),
                _ => Template::new_ref(&pb),
            };
            check_eq(r, &cx, &ta, &ma, &tb, &mb, "independent-same-buffer");
            continue;
        }
        let sub = g.chance(1, 2);
        let ma = gen_model(&mut g, if sub { 3 } else { 6 }, sub);
        let mb = if g.chance(1, 3) {
            // share a prefix, then diverge
            let mut m = ma[..g.usize(ma.len() + 1)].to_vec();
            m.extend(gen_model(&mut g, 3, sub));
            m
        } else {
            gen_model(&mut g, if sub { 3 } else { 6 }, sub)
        };
        let pa = parts_of(&ma, &NO_ARENA, How::Borrowed, &mut g);
        let pb = parts_of(&mb, &NO_ARENA, How::Borrowed, &mut g);
        let ta = Template::new_ref(&pa);
        let tb = Template::new_ref(&pb);
        check_eq(r, &cx, &ta, &ma, &tb, &mb, "independent");
        let nf = normal(&ma);
        if nf.len() >= 2 && i < COUNTED / 16 {
            r.nontrivial(&nf);
        }
    }
}

// ---------------------------------------------------------------------------
// fixed pairs and literals
// ---------------------------------------------------------------------------

static STRIDE: AtomicU64 = AtomicU64::new(1);
static OFFSET: AtomicU64 = AtomicU64::new(0);
static COUNTER: AtomicU64 = AtomicU64::new(0);

/// Every `stride`-th fixed pair / call site is run (all of them unless under Miri).
fn pick() -> bool {
    let stride = STRIDE.load(Ordering::Relaxed);
    stride <= 1 || COUNTER.fetch_add(1, Ordering::Relaxed) % stride == OFFSET.load(Ordering::Relaxed) % stride
}

fn set_stride(stride: u64, offset: u64) {
    STRIDE.store(stride, Ordering::Relaxed);
    OFFSET.store(offset, Ordering::Relaxed);
    COUNTER.store(0, Ordering::Relaxed);
}

fn t(s: &str) -> MPart {
    MPart::Text(s.to_string())
}

fn h(l: &str) -> MPart {
    MPart::Hole(l.to_string(), None)
}

fn hf(l: &str) -> MPart {
    // "has some formatter": the index is irrelevant for sites (their formatter is the macro's)
    MPart::Hole(l.to_string(), Some(0))
}

fn fixed_pairs(r: &mut Report) {
    let case = || json!({"section": "fixed-pairs"});
    let cx = Ctx { case: &case };
    let pairs: Vec<(Model, Model)> = vec![
        (vec![t("éx"), h("c")], vec![t("a"), t("bc"), h("c")]),
        (vec![t("日"), t("a")], vec![t("a"), t("日")]),
        (vec![t("😀")], vec![t("a"), t("b"), t("c"), t("d")]),
        (vec![t("é")], vec![t("a"), t("b")]),
        (vec![t("aé")], vec![t("a"), t("é")]),
        (vec![t("日本"), t("")], vec![t(""), t("日"), t("本")]),
        (vec![t(""), h("c")], vec![h("c")]),
        (vec![h("c"), t("")], vec![h("c")]),
        (vec![h("a"), t(""), h("b")], vec![h("a"), h("b")]),
        (vec![t("")], vec![]),
        (vec![t(""), t("")], vec![t("")]),
        (vec![t("a")], vec![t("a"), t("")]),
        (vec![t("a")], vec![t(""), t("a")]),
        (vec![t("ab")], vec![t("a")]),
        (vec![t("a")], vec![t("ab")]),
        (vec![t("a"), h("b")], vec![t("a{b}")]),
        (vec![h("")], vec![t("{}")]),
        (vec![h("")], vec![h("")]),
        (vec![h("a")], vec![hf("a")]),
        (vec![h("a"), h("a")], vec![h("a")]),
        (vec![t("a"), t("b"), h("c"), t(""), t("de")], vec![t(""), t("ab"), h("c"), t("de"), t("")]),
        (vec![t("x"), h("é"), t("日")], vec![t("x"), h("e"), t("日")]),
        (vec![], vec![]),
        (vec![], vec![h("a")]),
    ];
    for (ma, mb) in &pairs {
        if !pick() {
            continue;
        }
        r.eval();
        let mut g = Rng::new(1);
        let pa = parts_of(ma, &NO_ARENA, How::Borrowed, &mut g);
        let pb = parts_of(mb, &NO_ARENA, How::Borrowed, &mut g);
        let ta = Template::new_ref(&pa);
        let tb = Template::new_ref(&pb);
        check_eq(r, &cx, &ta, ma, &tb, mb, "hand-written");
        let oa = ta.to_owned();
        check_eq(r, &cx, &oa, ma, &tb, mb, "hand-written");
        check_render(r, &cx, &ta, "new_ref", ma, &[("c".to_string(), Val::I(1)), ("a".to_string(), Val::S("é".into()))]);
        check_render(r, &cx, &tb, "new_ref", mb, &[]);
    }
    // 'static templates built the way the documentation shows
    const PARTS: &[Part<'static>] = &[Part::text("Hello, "), Part::hole("greet"), Part::text("!")];
    let st = Template::new(PARTS);
    let m = vec![t("Hello, "), h("greet"), t("!")];
    r.eval();
    check_render(r, &cx, &st, "new-static", &m, &[("greet".to_string(), Val::S("user".into()))]);
    check_render(r, &cx, &st, "new-static", &m, &[]);
    let lit = Template::literal("text é日😀 {not a hole}");
    let ml = vec![t("text é日😀 {not a hole}")];
    check_render(r, &cx, &lit, "literal-static", &ml, &[("not a hole".to_string(), Val::I(1))]);
    check_eq(r, &cx, &lit, &ml, &st, &m, "hand-written");
    let split = [Part::text("text é日"), Part::text(""), Part::text("😀 {not a hole}")];
    check_eq(r, &cx, &lit, &ml, &Template::new_ref(&split), &ml, "hand-written");

    // text, labels and property keys that share storage: slices of one buffer that start at the
    // same address with different lengths, and the same text at different addresses
    let src = String::from("user_id");
    let dotted = String::from("a.b.c");
    let twice = String::from("ab.ab");
    let user = &src[..4];
    let user_id = &src[..];
    let empty = &src[..0];
    let other_user = String::from("user");
    type Build<'x> = (&'x str, Template<'x>, Model);
    let p_user = [Part::text_ref(user)];
    let p_user_id = [Part::text_ref(user_id)];
    let p_empty = [Part::text_ref(empty)];
    let p_other = [Part::text_ref(&other_user)];
    let h_user = [Part::hole_ref(user)];
    let h_user_id = [Part::hole_ref(user_id)];
    let h_empty = [Part::hole_str(Str::new_ref(empty))];
    let h_other = [Part::hole_ref(&other_user)];
    let mixed_a = [Part::text_ref(user), Part::hole_ref(user_id), Part::text_ref(empty), Part::hole_ref(user)];
    let mixed_b = [Part::text_ref(&other_user), Part::hole_ref(user_id), Part::hole_ref(&other_user)];
    let mixed_c = [Part::text_ref(user_id), Part::hole_ref(user_id), Part::hole_ref(user)];
    let anc: Vec<[Part; 1]> = [0usize, 1, 3, 5].iter().map(|n| [Part::hole_ref(&dotted[..*n])]).collect();
    let tw_a = [Part::text_ref(&twice[..2]), Part::hole_ref(&twice[..2])];
    let tw_b = [Part::text_ref(&twice[3..]), Part::hole_ref(&twice[3..])];
    let tw_c = [Part::text_ref(&twice[..]), Part::hole_ref(&twice[..2])];
    let mut builds: Vec<Build> = vec![
        ("literal_ref-user", Template::literal_ref(user), vec![t("user")]),
        ("literal_ref-user_id", Template::literal_ref(user_id), vec![t("user_id")]),
        ("literal_ref-empty", Template::literal_ref(empty), vec![t("")]),
        ("literal_ref-other-user", Template::literal_ref(&other_user), vec![t("user")]),
        ("text_ref-user", Template::new_ref(&p_user), vec![t("user")]),
        ("text_ref-user_id", Template::new_ref(&p_user_id), vec![t("user_id")]),
        ("text_ref-empty", Template::new_ref(&p_empty), vec![t("")]),
        ("text_ref-other-user", Template::new_ref(&p_other), vec![t("user")]),
        ("hole_ref-user", Template::new_ref(&h_user), vec![h("user")]),
        ("hole_ref-user_id", Template::new_ref(&h_user_id), vec![h("user_id")]),
        ("hole_str-empty", Template::new_ref(&h_empty), vec![h("")]),
        ("hole_ref-other-user", Template::new_ref(&h_other), vec![h("user")]),
        ("mixed-a", Template::new_ref(&mixed_a), vec![t("user"), h("user_id"), t(""), h("user")]),
        ("mixed-b", Template::new_ref(&mixed_b), vec![t("user"), h("user_id"), h("user")]),
        ("mixed-c", Template::new_ref(&mixed_c), vec![t("user_id"), h("user_id"), h("user")]),
        ("twice-first", Template::new_ref(&tw_a), vec![t("ab"), h("ab")]),
        ("twice-second", Template::new_ref(&tw_b), vec![t("ab"), h("ab")]),
        ("twice-whole", Template::new_ref(&tw_c), vec![t("ab.ab"), h("ab")]),
    ];
    for (n, a) in [0usize, 1, 3, 5].iter().zip(anc.iter()) {
        builds.push(("ancestor-hole", Template::new_ref(a), vec![h(&dotted[..*n])]));
    }
    // every pair, by content
    for x in 0..builds.len() {
        if !pick() {
            continue;
        }
        r.eval();
        for y in x..builds.len() {
            check_eq(r, &cx, &builds[x].1, &builds[x].2, &builds[y].1, &builds[y].2, "shared-buffer");
        }
        let owned = builds[x].1.to_owned();
        check_eq(r, &cx, &owned, &builds[x].2, &builds[x].1, &builds[x].2, "shared-buffer");
        // rendering with keys from the same buffer, in both orders, and with only the shorter key
        let v1 = Val::I(1);
        let v2 = Val::S("two".into());
        let v3 = Val::B(true);
        let model_props = |keys: &[&str]| -> Vec<Entry> { keys.iter().zip([&v1, &v2, &v3]).map(|(k, v)| (k.to_string(), (*v).clone())).collect() };
        for keys in [
            vec![user, user_id, empty],
            vec![user_id, user],
            vec![empty, user],
            vec![user],
            vec![user_id],
            vec![&dotted[..1], &dotted[..3], &dotted[..]],
            vec![&dotted[..], &dotted[..0], &dotted[..3]],
            vec![&twice[3..], &twice[..]],
        ] {
            let mp = model_props(&keys);
            let want = reference_render(&builds[x].2, &mp);
            let want_marked = reference_marked(&builds[x].2, &mp);
            let aliased: Vec<(&str, &Val)> = keys.iter().copied().zip([&v1, &v2, &v3]).collect();
            let strs: Vec<(Str, Value)> = aliased.iter().map(|(k, v)| (Str::new_ref(k), v.to_value())).collect();
            let res = catch(|| {
                let mut w = Marking::default();
                let _ = builds[x].1.render(&aliased[..]).write(&mut w);
                (builds[x].1.render(&aliased[..]).to_string(), builds[x].1.render(&strs[..]).to_string(), w.out)
            });
            r.observe("renders", 3);
            r.observe("marking-writer-renders", 1);
            match res {
                Ok((a, b, m)) if a == want && b == want && m == want_marked => {}
                Ok((a, b, m)) => viol(
                    r,
                    &cx,
                    &format!("C16:render-differs:shared-buffer-keys:{}", builds[x].0),
                    format!("{} with property keys {:?} borrowed from the same buffer rendered {:?} / {:?} / {:?}, by content it reads {:?} / {:?}", builds[x].0, keys, a, b, m, want, want_marked),
                    json!({"template": builds[x].0, "keys": format!("{:?}", keys)}),
                ),
                Err(msg) => viol(r, &cx, "C16:render-panics:shared-buffer-keys", format!("rendering panicked: {}", msg), json!({"template": builds[x].0})),
            }
        }
    }
}

fn model_of(tpl: &Template) -> Model {
    tpl.parts()
        .map(|p| match (p.as_text(), p.label()) {
            (Some(s), _) => MPart::Text(s.get().to_string()),
            (_, Some(l)) => MPart::Hole(l.get().to_string(), p.formatter().map(|_| 0)),
            _ => MPart::Text("<neither text nor hole>".into()),
        })
        .collect()
}

/// A macro-built template against the runtime-built template of the same literal.
fn site_tpl(r: &mut Report, name: &str, tpl: &Template, want: &[MPart], props: &[Entry], rendered: &str) {
    if !pick() {
        return;
    }
    r.eval();
    r.observe("macro-literal-sites", 1);
    let case = || json!({"section": "sites", "site": name});
    let cx = Ctx { case: &case };
    let got = model_of(tpl);
    let witness = || json!({"site": name, "macro_parts": format!("{:?}", got), "literal_parts": format!("{:?}", want)});
    if normal(&got) != normal(want) {
        viol(
            r,
            &cx,
            &format!("C16:site-parts-differ:{}", name),
            format!("the macro built {:?}, the literal reads {:?}", got, want),
            witness(),
        );
    }
    let has_fmt = |m: &[MPart]| -> Vec<bool> {
        m.iter()
            .filter_map(|p| match p {
                MPart::Hole(_, f) => Some(f.is_some()),
                _ => None,
            })
            .collect()
    };
    if has_fmt(&got) != has_fmt(want) {
        viol(
            r,
            &cx,
            &format!("C16:site-formatters-differ:{}", name),
            format!("holes with a formatter: macro {:?}, literal {:?}", has_fmt(&got), has_fmt(want)),
            witness(),
        );
    }
    // the runtime-built template of the same literal (without formatters: they are the macro's)
    let plain: Model = want
        .iter()
        .map(|p| match p {
            MPart::Hole(l, _) => MPart::Hole(l.clone(), None),
            other => other.clone(),
        })
        .collect();
    let mut g = Rng::new(7);
    let parts = parts_of(&plain, &NO_ARENA, How::Borrowed, &mut g);
    let runtime = Template::new_ref(&parts);
    check_eq(r, &cx, tpl, &got, &runtime, &plain, "macro-vs-runtime");
    let owned = Template::new_owned(owned_parts(&plain, &mut g));
    check_eq(r, &cx, tpl, &got, &owned, &plain, "macro-vs-runtime");
    // rendering: identical to the runtime template where no formatter is involved, and to the
    // text written next to the call site
    // a writer whose write_text is not write_str: the macro template's text must reach it
    // through write_text exactly like the runtime template's
    let marked = catch(|| {
        let mut w = Marking::default();
        let _ = tpl.render(props).write(&mut w);
        let mut w2 = Marking::default();
        let _ = tpl.to_owned().render(props).write(&mut w2);
        (w.out, w2.out)
    });
    r.observe("marking-writer-renders", 2);
    match marked {
        Ok((m1, m2)) => {
            let raw = m1.contains("RAW[") || m2.contains("RAW[");
            let differs = !has_fmt(want).contains(&true) && (m1 != reference_marked(&plain, props) || m2 != m1);
            if raw || differs {
                viol(
                    r,
                    &cx,
                    &format!("C16:{}:write-marking:site:{}", if raw { "text-bypasses-write_text" } else { "render-differs" }, name),
                    format!("a text-transforming writer received {:?} / {:?} (macro template, its to_owned); the literal gives {:?}", m1, m2, reference_marked(&plain, props)),
                    witness(),
                );
            }
        }
        Err(msg) => viol(r, &cx, &format!("C16:render-panics:site:{}", name), format!("rendering panicked: {}", msg), witness()),
    }
    let res = catch(|| {
        let a = tpl.render(props).to_string();
        let mut b = String::new();
        let _ = tpl.render(props).write(&mut b);
        let c = tpl.to_owned().render(props).to_string();
        let rt = runtime.render(props).to_string();
        (a, b, c, rt)
    });
    r.observe("renders", 4);
    match res {
        Err(msg) => viol(r, &cx, &format!("C16:render-panics:site:{}", name), format!("rendering panicked: {}", msg), witness()),
        Ok((a, b, c, rt)) => {
            if a != rendered || b != rendered || c != rendered {
                viol(
                    r,
                    &cx,
                    &format!("C16:site-render-differs:{}", name),
                    format!("rendered {:?} / {:?} / {:?} (Display, write, to_owned), the call site reads {:?}", a, b, c, rendered),
                    witness(),
                );
            }
            if !has_fmt(want).contains(&true) {
                let reference = reference_render(&plain, props);
                if rt != reference || a != reference {
                    viol(
                        r,
                        &cx,
                        &format!("C16:site-render-differs-from-runtime:{}", name),
                        format!("macro template rendered {:?}, runtime template {:?}, reference {:?}", a, rt, reference),
                        witness(),
                    );
                }
            }
        }
    }
}

fn site_text(r: &mut Report, name: &str, got: &str, want: &str) {
    if !pick() {
        return;
    }
    r.eval();
    r.observe("macro-literal-sites", 1);
    r.observe("renders", 1);
    if got != want {
        r.violation(
            &format!("C16:site-format-differs:{}", name),
            &format!("emit::format! wrote {:?}, std::format! of the same value and flags writes {:?}", got, want),
            json!({"section": "sites", "site": name, "got": got, "want": want}),
        );
    }
}

fn e(k: &str, v: Val) -> Entry {
    (k.to_string(), v)
}

fn macro_sites(r: &mut Report) {
    let s = |x: &str| Val::S(x.to_string());
    let none: Vec<Entry> = vec![];

    // ---- tpl! ----
    site_tpl(r, "tpl-text-only", &emit::tpl!("plain text"), &[t("plain text")], &none, "plain text");
    site_tpl(r, "tpl-empty", &emit::tpl!(""), &[], &none, "");
    site_tpl(r, "tpl-one-hole", &emit::tpl!("{a}"), &[h("a")], &[e("a", Val::I(1))], "1");
    site_tpl(r, "tpl-one-hole-absent", &emit::tpl!("{a}"), &[h("a")], &none, "{a}");
    site_tpl(r, "tpl-hello", &emit::tpl!("Hello, {user}"), &[t("Hello, "), h("user")], &[e("user", s("Rust"))], "Hello, Rust");
    site_tpl(r, "tpl-adjacent-holes", &emit::tpl!("{a}{b}{c}"), &[h("a"), h("b"), h("c")], &[e("b", Val::I(2)), e("a", Val::I(1))], "12{c}");
    site_tpl(r, "tpl-hole-first-last", &emit::tpl!("{a} middle {b}"), &[h("a"), t(" middle "), h("b")], &[e("a", s("A")), e("b", s("B"))], "A middle B");
    site_tpl(r, "tpl-text-first-last", &emit::tpl!(" lead {a} trail "), &[t(" lead "), h("a"), t(" trail ")], &[e("a", Val::B(true))], " lead true trail ");
    site_tpl(r, "tpl-escaped-open", &emit::tpl!("{{"), &[t("{")], &none, "{");
    site_tpl(r, "tpl-escaped-close", &emit::tpl!("}}"), &[t("}")], &none, "}");
    site_tpl(r, "tpl-escaped-pair", &emit::tpl!("{{a}}"), &[t("{a}")], &[e("a", Val::I(1))], "{a}");
    site_tpl(r, "tpl-escaped-around-hole", &emit::tpl!("{{{a}}}"), &[t("{"), h("a"), t("}")], &[e("a", Val::I(1))], "{1}");
    site_tpl(r, "tpl-escaped-mixed", &emit::tpl!("a {{b}} {c} }}{{ d"), &[t("a {b} "), h("c"), t(" }{ d")], &[e("c", Val::I(3)), e("b", Val::I(2))], "a {b} 3 }{ d");
    site_tpl(r, "tpl-non-ascii-text", &emit::tpl!("é日😀 {a} 日é"), &[t("é日😀 "), h("a"), t(" 日é")], &[e("a", s("😀"))], "é日😀 😀 日é");
    site_tpl(r, "tpl-non-ascii-between-holes", &emit::tpl!("{a}é{b}日{c}"), &[h("a"), t("é"), h("b"), t("日"), h("c")], &[e("a", Val::I(1)), e("b", Val::I(2)), e("c", Val::I(3))], "1é2日3");
    site_tpl(r, "tpl-duplicate-props", &emit::tpl!("{a}-{b}"), &[h("a"), t("-"), h("b")], &[e("a", Val::I(1)), e("a", Val::I(2)), e("b", Val::I(3)), e("b", Val::I(4))], "1-3");
    site_tpl(r, "tpl-spaces-in-hole", &emit::tpl!("{ a } { b}"), &[h("a"), t(" "), h("b")], &[e("a", Val::I(1)), e("b", Val::I(2))], "1 2");
    site_tpl(r, "tpl-fmt-debug", &emit::tpl!("v={a}", #[emit::fmt("?")] a), &[t("v="), hf("a")], &[e("a", s("x"))], &std::format!("v={:?}", "x"));
    site_tpl(r, "tpl-fmt-pad", &emit::tpl!("{a}|{b}", #[emit::fmt(">4")] a, #[emit::fmt("<4")] b), &[hf("a"), t("|"), hf("b")], &[e("a", Val::I(7)), e("b", s("é"))], &std::format!("{:>4}|{:<4}", 7, "é"));
    site_tpl(r, "tpl-fmt-absent", &emit::tpl!("{a}", #[emit::fmt("?")] a), &[hf("a")], &none, "{a}");
    site_tpl(r, "tpl-fmt-inside-hole", &emit::tpl!("{#[emit::fmt(\".2\")] a} {b}"), &[hf("a"), t(" "), h("b")], &[e("a", Val::F(1.5)), e("b", Val::I(2))], &std::format!("{:.2} {}", 1.5, 2));
    site_tpl(r, "tpl-cfg", &emit::tpl!("x{#[cfg(any())] gone}y{#[cfg(all())] here}z"), &[t("xy"), h("here"), t("z")], &[e("gone", Val::I(1)), e("here", Val::I(2))], "xy2z");
    site_tpl(r, "tpl-key-renamed", &emit::tpl!("x {user} y", #[emit::key("user.name")] user), &[t("x "), h("user.name"), t(" y")], &[e("user", s("no")), e("user.name", s("yes"))], "x yes y");
    site_tpl(r, "tpl-key-renamed-exotic", &emit::tpl!("{a}{b}", #[emit::key("é 日")] a, #[emit::key("")] b), &[h("é 日"), h("")], &[e("", Val::I(2)), e("é 日", Val::I(1))], "12");

    // escape sequences in the literal: the expected parts are ordinary Rust strings, so rustc evaluates them
    site_tpl(r, "tpl-escape-newline-tab", &emit::tpl!("a\nb {a}\t"), &[t("a\nb "), h("a"), t("\t")], &[e("a", Val::I(1))], "a\nb 1\t");
    site_tpl(r, "tpl-escape-backslash-quotes", &emit::tpl!("\\ \" \' {a}\\"), &[t("\\ \" \' "), h("a"), t("\\")], &[e("a", s("v"))], "\\ \" ' v\\");
    site_tpl(r, "tpl-escape-hex-nul", &emit::tpl!("\x41\0{a}\x7f\r"), &[t("A\0"), h("a"), t("\x7f\r")], &[e("a", Val::I(2))], "A\x002\x7f\r");
    site_tpl(r, "tpl-escape-next-to-braces", &emit::tpl!("{{\n}}{a}\\{{"), &[t("{\n}"), h("a"), t("\\{")], &[e("a", Val::I(3))], "{\n}3\\{");
    site_tpl(r, "tpl-escape-line-continuation", &emit::tpl!("a\
          b{a}"), &[t("ab"), h("a")], &[e("a", Val::I(4))], "ab4");
    site_tpl(r, "tpl-escape-text-only", &emit::tpl!("only\ttext\n"), &[t("only\ttext\n")], &none, "only\ttext\n");

    // ---- evt! ----
    {
        let evt = emit::evt!("x\ty\n{v}\\", v: 1);
        site_tpl(r, "evt-escape-mixed", evt.tpl(), &[t("x\ty\n"), h("v"), t("\\")], &[e("v", Val::I(1))], "x\ty\n1\\");
        site_text(r, "evt-escape-mixed-msg", &evt.msg().to_string(), "x\ty\n1\\");
    }
    {
        let evt = emit::evt!("a {x} b {y: 2} c", x: 1);
        site_tpl(r, "evt-inline-value", evt.tpl(), &[t("a "), h("x"), t(" b "), h("y"), t(" c")], &[e("x", Val::I(1)), e("y", Val::I(2))], "a 1 b 2 c");
        site_text(r, "evt-inline-value-msg", &evt.msg().to_string(), "a 1 b 2 c");
    }
    match emit::evt!("{a: 1 + 2}{b: [1, 2].len()}{c: \"é\"}") {
        evt => {
            site_tpl(r, "evt-expressions", evt.tpl(), &[h("a"), h("b"), h("c")], &none, "{a}{b}{c}");
            site_text(r, "evt-expressions-msg", &evt.msg().to_string(), "32é");
        }
    }
    {
        let user = "Rust";
        let evt = emit::evt!("{{{user}}} é {{}}");
        site_tpl(r, "evt-captured-escaped", evt.tpl(), &[t("{"), h("user"), t("} é {}")], &[e("user", s("Rust"))], "{Rust} é {}");
        site_text(r, "evt-captured-escaped-msg", &evt.msg().to_string(), "{Rust} é {}");
    }
    {
        let evt = emit::evt!("{a}/{b}/{c}", #[emit::fmt("+")] a: 5, #[emit::fmt("05.1")] b: 2.25, #[emit::fmt("?")] c: "q");
        site_tpl(r, "evt-fmt-flags", evt.tpl(), &[hf("a"), t("/"), hf("b"), t("/"), hf("c")], &none, "{a}/{b}/{c}");
        site_text(r, "evt-fmt-flags-msg", &evt.msg().to_string(), &std::format!("{:+}/{:05.1}/{:?}", 5, 2.25, "q"));
    }
    {
        let evt = emit::evt!("{a} {b}", #[emit::key("k.a")] a: "A", #[emit::optional] b: None::<&i32>);
        site_tpl(r, "evt-renamed-and-optional", evt.tpl(), &[h("k.a"), t(" "), h("b")], &[e("k.a", s("A"))], "A {b}");
        site_text(r, "evt-renamed-and-optional-msg", &evt.msg().to_string(), "A {b}");
    }
    {
        let evt = emit::evt!("only text, no props");
        site_tpl(r, "evt-text-only", evt.tpl(), &[t("only text, no props")], &none, "only text, no props");
        site_text(r, "evt-text-only-msg", &evt.msg().to_string(), "only text, no props");
    }

    // ---- format! and #[emit::fmt] flags against std::format! ----
    site_text(r, "format-escape-mixed", &emit::format!("x\ty\n{v}\\ \x41\"", v: 1), &std::format!("x\ty\n{}\\ \x41\"", 1));
    site_text(r, "format-basic", &emit::format!("Hello, {user}", user: "Rust"), &std::format!("Hello, {}", "Rust"));
    site_text(r, "format-escaped", &emit::format!("{{{a}}} }}{{", a: 1), &std::format!("{{{}}} }}{{", 1));
    site_text(r, "format-non-ascii", &emit::format!("é{a}日{b}😀", a: "日", b: 2), &std::format!("é{}日{}😀", "日", 2));
    site_text(r, "format-zero-pad", &emit::format!("{v}", #[emit::fmt(">03")] v: 15), &std::format!("{:>03}", 15));
    site_text(r, "format-pad-left", &emit::format!("{v}|", #[emit::fmt("<3")] v: "x"), &std::format!("{:<3}|", "x"));
    site_text(r, "format-pad-right", &emit::format!("{v}|", #[emit::fmt(">3")] v: "x"), &std::format!("{:>3}|", "x"));
    site_text(r, "format-pad-centre-fill", &emit::format!("{v}", #[emit::fmt("*^7")] v: "é"), &std::format!("{:*^7}", "é"));
    site_text(r, "format-sign", &emit::format!("{v}", #[emit::fmt("+")] v: 15), &std::format!("{:+}", 15));
    site_text(r, "format-sign-negative", &emit::format!("{v}", #[emit::fmt("+")] v: -15), &std::format!("{:+}", -15));
    site_text(r, "format-precision", &emit::format!("{v}", #[emit::fmt(".3")] v: 15.0), &std::format!("{:.3}", 15.0));
    site_text(r, "format-width-precision", &emit::format!("{v}", #[emit::fmt("08.2")] v: 3.14159), &std::format!("{:08.2}", 3.14159));
    site_text(r, "format-str-precision", &emit::format!("{v}", #[emit::fmt(".2")] v: "日本語"), &std::format!("{:.2}", "日本語"));
    site_text(r, "format-debug-str", &emit::format!("{v}", #[emit::fmt("?")] v: "a \"q\" é"), &std::format!("{:?}", "a \"q\" é"));
    site_text(r, "format-debug-int", &emit::format!("{v}", #[emit::fmt("?")] v: 42), &std::format!("{:?}", 42));
    site_text(r, "format-debug-bool-width", &emit::format!("{v}", #[emit::fmt(">6")] v: true), &std::format!("{:>6}", true));
    site_text(r, "format-two-flags", &emit::format!("{a}{b}", #[emit::fmt(">3")] a: 1, #[emit::fmt("<3")] b: 2), &std::format!("{:>3}{:<3}", 1, 2));
    site_text(r, "format-flag-and-plain", &emit::format!("{a} {b} {c}", a: 1, #[emit::fmt("03")] b: 2, c: 3), &std::format!("{} {:03} {}", 1, 2, 3));
    site_text(r, "format-flags-field", &emit::format!("{v}", #[emit::fmt(flags: ">4")] v: 9), &std::format!("{:>4}", 9));
    site_text(r, "format-renamed-with-flag", &emit::format!("{v}", #[emit::key("v.renamed")] #[emit::fmt(">4")] v: 9), &std::format!("{:>4}", 9));
    site_text(r, "format-expression", &emit::format!("{v: 40 + 2} {w: \"é\".len()}"), &std::format!("{} {}", 40 + 2, "é".len()));
}

// ---------------------------------------------------------------------------
// main
// ---------------------------------------------------------------------------

fn sanity(r: &mut Report) {
    // the reference's plain value text is an assumption about Value's Display (C19's subject):
    // if it does not hold the render comparisons would blame templates for it
    for v in [Val::I(-7), Val::I(i64::MIN), Val::S("é {a}".into()), Val::B(true), Val::F(1.5), Val::F(1e21), Val::F(-0.25), Val::F(3.0)] {
        if v.to_value().to_string() != v.text() {
            r.inconclusive(format!("Value's Display of {:?} is {:?}, the reference assumed {:?}", v, v.to_value().to_string(), v.text()));
        }
    }
}

fn main() {
    let args = Args::parse();
    let mut r = Report::new(
        "C16",
        &args,
        "one evaluation = one seeded model (all its construction variants rendered through every writer, compared with a re-split, a one-edit \
         neighbour, an independent model and a re-split of the re-split, plus triples) or one unrelated pair or one fixed pair / literal call \
         site; non-trivial = distinct normal forms with at least two parts (counted over the first million seeded cases and the first million unrelated pairs)",
    );
    sanity(&mut r);

    if let Some(path) = &args.replay {
        let case = load_replay(path);
        let seed = case.get("seed").and_then(|v| v.as_u64()).unwrap_or(args.seed);
        let index = case.get("index").and_then(|v| v.as_u64()).unwrap_or(0);
        match case.get("section").and_then(|v| v.as_str()) {
            Some("seeded") => seeded_case(&mut r, seed, index),
            Some("unrelated") => unrelated_case(&mut r, seed, index),
            Some("fixed-pairs") => fixed_pairs(&mut r),
            Some("outer-flags-fixed") => outer_flags_fixed(&mut r),
            _ => macro_sites(&mut r),
        }
        std::process::exit(r.finish());
    }

    let seed = args.seed;
    // Miri interprets ~10^4 x slower than the optimised build: sizes there are absolute (times
    // --scale) and the fixed sections are sub-sampled by seed (`--tiny 1` does the same natively)
    let miri = cfg!(miri) || args.get("tiny").is_some();
    if miri {
        set_stride(5, seed);
    }
    fixed_pairs(&mut r);
    macro_sites(&mut r);
    outer_flags_fixed(&mut r);

    let n_seeded = if miri { (4 * args.scale / 100).max(1) } else { args.n(300_000, 12_000_000) };
    par_cases(&mut r, &args, n_seeded, |i, r| seeded_case(r, seed, i));
    let n_unrelated = if miri { (3 * args.scale / 100).max(1) } else { args.n(200_000, 8_000_000) };
    par_cases(&mut r, &args, n_unrelated, |i, r| unrelated_case(r, seed, i));

    std::process::exit(r.finish());
}
