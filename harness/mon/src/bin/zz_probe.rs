//! Tiny monitor used to test the lane runners of bin/check (Miri / TSan / ASan).
use vcommon::*;
fn main() {
    let args = Args::parse();
    let mut r = Report::new("C00", &args, "probe");
    let n = args.n(50, 200);
    let shared = std::sync::Arc::new(std::sync::Mutex::new(0u64));
    let hs: Vec<_> = (0..2).map(|_| { let s = shared.clone(); std::thread::spawn(move || { for _ in 0..10 { *s.lock().unwrap() += 1; } }) }).collect();
    for h in hs { h.join().unwrap(); }
    for i in 0..n {
        let s = emit::Str::new_owned(format!("k{}", i));
        let t = s.to_shared();
        r.eval();
        r.nontrivial(&i);
        r.observe("strs", 1);
        if t.get() != format!("k{}", i) { r.violation("C00:probe", "mismatch", json!({"i": i})); }
    }
    if args.get("ub").is_some() {
        let v = vec![1u8, 2, 3];
        let p = v.as_ptr();
        drop(v);
        let x = unsafe { *p };
        r.observe("ub", x as u64);
    }
    if args.get("uninit").is_some() {
        let b: Box<std::mem::MaybeUninit<[u64; 4]>> = Box::new(std::mem::MaybeUninit::uninit());
        let x = unsafe { std::ptr::read_volatile(b.as_ptr() as *const u64) };
        if x == 42 { r.observe("uninit-42", 1); } else { r.observe("uninit-other", 1); }
    }
    if args.get("segv").is_some() {
        let x = unsafe { std::ptr::read_volatile(8 as *const u8) };
        r.observe("segv", x as u64);
    }
    if args.get("race").is_some() {
        static mut X: u64 = 0;
        let a = std::thread::spawn(|| unsafe { for _ in 0..1000 { X += 1; } });
        let b = std::thread::spawn(|| unsafe { for _ in 0..1000 { X += 1; } });
        a.join().unwrap(); b.join().unwrap();
        r.observe("race", unsafe { X });
    }
    std::process::exit(r.finish());
}
