/*!
C05 — each enabled, started span completes exactly once; disabled spans never do.

Two workloads, one oracle idea (count completions per guard / invocation and compare with a model
written from the statement):

(a) **guard programs** — seeded operation sequences on a real `SpanGuard` whose type parameters are
    erased (`P = &dyn ErasedProps`, `F = &dyn ErasedCompletion`), so any order and multiplicity of
    `with_mdl / with_name / with_props / map_props / with_completion / start / complete /
    complete_with / drop` type-checks. The guard is enabled or disabled by a filter, runs inside or
    outside its frame, and the clock advances, goes backwards or returns `None` between any two
    operations. Completion objects are a hand-written recording `Completion`, the real
    `completion::from_fn`, the real `completion::default(emitter, ctxt)` and the real
    `completion::from_emitter(emitter)`; every call is attributed to the object that received it.

    Model per guard: `enabled` = what the filter answered; `started` = `start` ran; the terminal
    operation completes iff `enabled && started`, on the *current* default completion
    (`complete`, drop) or on the one passed (`complete_with`), exactly once, and nothing else is
    ever called; `complete*` return exactly that; `is_enabled()` equals `enabled` after every
    operation; the completed span has the last-set module / name / props, kind = span, and — when
    the clock gave a reading at `start` and at completion — extent = range(those two readings);
    the real default completion inside the frame carries the guard's ids.

(b) **macro forms** — hand-written uses of `#[emit::span]` (and `#[emit::info_span]` …,
    `emit::new_span!`) on sync / async fns and blocks, with `guard:`, `ok_lvl`, `err_lvl`, `err`,
    `panic_lvl`, whose bodies leave by falling off the end, early `return`, `?` or a (caught) panic.
    Per invocation: exactly one span event iff the filter passed (zero otherwise), tagged with the
    invocation id, with `lvl` / `err` as the exit path dictates (panic adds `err` + the panic level),
    kind = span, a range extent and trace / span ids.

CANCELLATION is an exit path of its own for every async form (all `#[span]`-family attributes,
`guard:`, `ok_lvl` / `err_lvl` / `err`, `new_span!` + `frame.in_future`, and an outer span awaiting
a NESTED async span): the future is polled k = 0, 1, 2 (3) times by hand and dropped while
suspended. k = 0: nothing was started, nothing completes. Otherwise exactly one span event per
started span, through the default completion: the span's name, kind, its own properties, its own
trace / span ids (nested: parent = the outer span, completed first), the attribute's level, no
`err`, extent = reading at start .. reading at the drop. Signatures `C05:macro:completed-span:cancelled:*`.

Extents: with a reading at start and one at completion the extent must be exactly that range, for
guards and for every macro form. With an INTERMITTENT clock (scripted often: a reading at start but
none at completion, or the other way round) no extent is accepted, and an extent that is there all
the same - a point, or anything built from one reading - is a violation wherever the documented
anchor applies (`Timer::extent` returns `None` when the clock has no reading): guard programs and
macro forms that complete through `completion::Default` (drop, plain `#[span]`, panic, explicit
`complete()`). NOT judged: the Result-aware completions (`ok_lvl` / `err_lvl` / `err`). On the
unchanged tree they were observed to emit a POINT extent from a third reading taken at emission
(they pass the runtime's clock to `emit_core::emit`, which fills in a missing extent); the
statement only speaks about the case where the clock provides its readings, so this is counted
(`macro:result-completion-extent-with-missing-reading:point|none`) and left alone.

(c) **the filter is asked ONCE, at the start** (`mod once`). Whether a span is enabled is decided when
    it is started; an enabled, started span completes exactly once however it exits, so the
    completion is not subject to the filter again - for `Ok` / `Err` returns through the
    Result-aware completions (`ok_lvl` / `err_lvl` / `err`) as for plain, panic and cancellation
    exits. The sites of (b) never met a filter that ACCEPTED the span at the start and would REJECT
    the completed span's event if it were shown to it: here every Result-aware shape (Ok, early Ok,
    early Err, `?`, tail Err, with and without an `err:` mapper, panic, cancellation; sync + async;
    `#[emit::span]` and the level-named attributes) runs under
      * `rt-min-level`: the runtime's filter is the real `emit::level::min_filter(m)`, m = every
        level - the start is judged at the attribute's level (unleveled = the default, info), the
        completion carries `lvl` = `ok_lvl` / `err_lvl` (e.g. min info, `ok_lvl: Debug`);
      * `rt-budget`: a stateful runtime filter that says yes to its first k answers only (k = 0, 1, 2);
      * `when-over-rt`: a call-site `when:` filter that enables what the runtime's own filter
        rejects, and the reverse (C01: `when:` replaces the runtime filter);
      * `when-min-level` / `when-budget`: the same two in the `when:` position over a runtime filter
        that rejects everything;
    on a generic `Runtime<..>` and on the type-erased runtime of an `AmbientSlot`. Plain and `guard:`
    forms run under the same filters as controls (`guard:` cannot be combined with `ok_lvl` /
    `err_lvl` / `err`: the macro rejects it). Expectation per invocation: enabled = what the deciding
    filter (the `when:` filter if there is one, else the runtime's) answers to the span at its START
    level; exactly one span event iff enabled (zero otherwise, also when the completion's level alone
    would pass), with `lvl` / `err` per exit path, the span's name / properties / ids and a range
    extent. Signatures `C05:macro:<n>-span-events-<c>-custom-completions:<enabled|disabled>:filter-<kind>:<runtime>:<form>:<exit>`.
    The number of times each filter was asked is counted in the evidence, not judged.

(d) + (e) **user code that PANICS or RE-ENTERS while the span is being completed.** "Exactly one
    completion ... however it ends" when the one completion attempt itself fails. Reading used: the
    call that REACHED a completion object (or the span event that reached the emitter behind the default
    completion) is the span's one completion, whether or not that handler then panics. `complete` /
    `complete_with` consume the guard, so the guard is dropped while the handler's panic unwinds; that
    drop must not complete the span again - neither on the default completion nor, through
    `completion::default`, as `err = "panicked"` at the panic level ("no sequence ... can make it
    complete twice"). The unchanged tree agrees: it takes state, data and completion out of the guard
    BEFORE it calls the handler.
    (d) guard programs: builder prefix x terminal (`complete`, `complete_with(c)`, drop, drop while a
    user panic unwinds) x completion object (hand-written impl, `from_fn`, `completion::default` /
    `from_emitter` over an emitter) whose first call panics (once per case, then behaves), re-enters
    (runs four other guards on the same context from inside the call: started + completed, started +
    dropped, never started, filtered out) or both; the panic is caught above or ends a thread of its
    own. Oracle: completion calls per object (1 on the completion in force iff enabled and started,
    else 0), the returned bool, `err` / level only when dropped by unwinding, 1 + 1 + 0 + 0 calls for
    the nested guards, and a later plain span on the same thread is an ordinary root span with an
    empty ambient context. Signatures `C05:guard:completed-twice:completion-panicked:<terminal>`,
    `C05:guard:reentrant-completion:*`, `C05:guard:later-span-affected:*`.
    (e) macro sites: every site of (c) x exit path (Ok / Err branch of `ok_lvl` / `err_lvl` / `err`,
    end of a `#[span]` body, `guard.complete()`, `guard.complete_with(custom)`, `with_completion`,
    early drop, cancellation, body panic for the non-panicking faults) on the generic runtime and the
    `AmbientSlot`, where the runtime's EMITTER - or the custom completion handler - panics once,
    re-enters (emits an event and runs two more span sites on the same runtime) or both while it
    handles that completion; caught above, and for seven sites also left to end a thread. Oracle: span
    events of the invocation at the emitter / custom completion calls exactly as in (c) (the attempt that
    panicked counts; a second event - with or without `err = "panicked"` - is a violation), `lvl` /
    `err` of the one event per exit path, nested emissions complete once each, no stray span event
    without the span's properties, and a later span on the same thread is unaffected.
    Signatures `C05:macro:2-span-events-0-custom-completions:enabled:emitter-panicked-on-completion:<runtime>:<form>:<exit>`.
    Whether the handler's panic reaches the caller is counted, not judged. A handler that panics while
    another panic is already unwinding is never scripted (the process would abort).

(f) **nesting through a FILTERED-OUT span on the default ambient context** ("... and, when completed
    inside its frame, its ids"). 13 sites (`span` / `info_span` / `debug_span`, with and without
    `when:`, plain and `guard:` forms, sync and async) chained enabled -> rejected -> enabled and
    deeper (2-6 spans), rejected by the runtime's real `min_filter` or by `when:`, with `Frame::push`
    of ambient properties (and of an incoming trace) around the whole chain and between its spans, on a
    generic `Runtime` over `ThreadLocalCtxt::shared()`, the erased runtime of an `AmbientSlot` over
    `ThreadLocalCtxt::new()` and a slot initialised by `emit::setup()...init_slot` (default context and
    id generator); exits: normal, innermost panic (caught), cancellation of the suspended innermost
    body. Judged per enabled span's one completion event: trace id of the enclosing enabled span (or
    incoming context), `span_parent` = the nearest ENABLED span above, a fresh span id, its own
    properties, exactly the frames of the enabled spans above it (a rejected span leaves nothing), every
    ambient property pushed above it, `lvl` / `err` per exit, a range extent; events arrive innermost
    first, one per enabled span, none per rejected one; the ambient context is empty afterwards.
    Signatures `C05:macro:completed-span:through-rejected-middle:<what>` (`under-rejected-root`,
    `nested-on-default-ctxt` for the control shapes).
    The same chains also run with the default context held BEHIND A FORWARDING WRAPPER: one runtime per
    worker thread whose context is a `Box<dyn ErasedCtxt>` over `ThreadLocalCtxt`, `Arc<..>`, `Box<..>`,
    `Box / Arc<dyn ErasedCtxt (+ Send + Sync)>`, `Option<..>`, `&..`, `AssertInternal<..>` and stacks of
    two of them (14 wrappers; signatures end in `:ctxt=<wrapper>`). Every `Ctxt` method has to reach the
    context underneath; a wrapper that leaves one to the trait's provided default is a different context
    (a nested span's frame keeps its parent's `span_id`).

(g) **a plain nesting on runtimes whose context TYPE is a forwarding wrapper**: outer `info_span` ->
    (`Frame::push`) -> `span` with `guard:` -> `debug_span`, sync and async, normal / innermost panic, on
    `Runtime<.., C, ..>` for C = `Arc<ThreadLocalCtxt>`, `Box<ThreadLocalCtxt>`, `Box / Arc<dyn ErasedCtxt +
    Send + Sync>`, `Option<..>`, `&..`, `AssertInternal<..>`, `Arc<Box<..>>`, `Option<Arc<dyn ..>>`; per
    completion event a fresh span id, `span_parent` = the enclosing span, the root's trace id, the frames
    above, the pushed ambient property, `lvl` / `err` per exit; empty context afterwards.
    Signatures `C05:macro:completed-span:nested-on-wrapped-ctxt:<what>:ctxt=<wrapper>`.

(a') **the default completion object through its OWN builders**: `completion::default(emitter, ctxt)`
    put through `with_lvl / with_panic_lvl / with_tpl` 0-5 times in any order (`L` = `emit::Level` or
    `&str`), handed over at `SpanGuard::new`, by `with_completion` or by `complete_with` (by value, by
    reference, type-erased), the span ending by drop, explicit complete, or panic unwinding (guard dropped
    by the unwinding / completed from a destructor during it). One event; every setting has its LAST-SET
    value whatever setters ran after it: `lvl` = last `with_lvl` and no `err` on a normal end, `lvl` =
    last `with_panic_lvl` (error if never set) + `err` on a panic end, template + message = last
    `with_tpl`. Signatures `C05:completion-default:setting-lost:<lvl|panic_lvl|tpl>:after=<setters that ran afterwards>`.
*/

#![cfg_attr(miri, feature(stmt_expr_attributes, proc_macro_hygiene))]

use std::{
    cell::RefCell,
    error::Error,
    fmt,
    future::Future,
    ops::ControlFlow,
    pin::Pin,
    task::{Context, Poll, Waker},
};

use emit::{
    filter,
    platform::thread_local_ctxt::ThreadLocalCtxt,
    props::ErasedProps,
    runtime::{AmbientSlot, Runtime},
    span::{
        completion::{self, Completion, ErasedCompletion},
        Span, SpanGuard,
    },
    Path, Props, SpanCtxt, Str, Value,
};
use vcommon::{
    rec::{Captured, CountingRng, FakeClock, Recorder},
    *,
};

// ===========================================================================
// (a) guard programs
// ===========================================================================

const MDLS: [&str; 4] = ["m0", "m1::sub", "m2", "other::deep::mdl"];
const NAMES: [&str; 4] = ["n0", "name one", "n2", "{tpl} like"];
const KEYS: [&str; 5] = ["a", "b", "c", "user", "count"];

struct PropSet(Vec<(&'static str, u64)>);

impl Props for PropSet {
    fn for_each<'kv, F: FnMut(Str<'kv>, Value<'kv>) -> ControlFlow<()>>(&'kv self, mut for_each: F) -> ControlFlow<()> {
        for (k, v) in &self.0 {
            for_each(Str::new(k), Value::from(*v))?;
        }
        ControlFlow::Continue(())
    }
}

#[derive(Clone, Debug, PartialEq, Eq, Hash)]
enum Op {
    WithMdl(usize),
    WithName(usize),
    WithProps(usize),
    /// `map_props(|p| p)` / `map_props(|_| other)`
    MapProps(Option<usize>),
    WithCompletion(usize),
    Start,
    // terminal
    Complete,
    CompleteWith(usize),
    Drop,
}

impl Op {
    fn name(&self) -> &'static str {
        match self {
            Op::WithMdl(_) => "with_mdl",
            Op::WithName(_) => "with_name",
            Op::WithProps(_) => "with_props",
            Op::MapProps(None) => "map_props-identity",
            Op::MapProps(Some(_)) => "map_props-replace",
            Op::WithCompletion(_) => "with_completion",
            Op::Start => "start",
            Op::Complete => "complete",
            Op::CompleteWith(_) => "complete_with",
            Op::Drop => "drop",
        }
    }
}

#[derive(Clone, Debug, PartialEq, Eq, Hash)]
enum Tick {
    Forward(u64),
    Backward(u64),
    Same,
    Unavailable,
}

#[derive(Clone, Debug, PartialEq, Eq, Hash)]
enum FilterKind {
    Scripted(bool),
    /// enabled iff the span's initial name is NAMES[i]
    NameIs(usize),
}

#[derive(Clone, Debug)]
struct Program {
    filter: FilterKind,
    in_frame: bool,
    mdl0: usize,
    name0: usize,
    props0: usize,
    completion0: usize,
    /// clock movement applied *before* each op
    ops: Vec<(Tick, Op)>,
    prop_sets: Vec<Vec<(&'static str, u64)>>,
}

const N_COMPLETIONS: usize = 4;
const COMPLETION_NAMES: [&str; N_COMPLETIONS] = ["recording-impl", "completion::from_fn", "completion::default", "completion::from_emitter"];

fn gen_program(g: &mut Rng) -> Program {
    let n_sets = 2 + g.usize(3);
    let prop_sets = (0..n_sets)
        .map(|_| {
            let n = g.usize(4);
            let mut keys: Vec<&'static str> = KEYS.to_vec();
            g.shuffle(&mut keys);
            keys.truncate(n);
            keys.into_iter().map(|k| (k, g.below(1000))).collect()
        })
        .collect::<Vec<_>>();
    let name0 = g.usize(NAMES.len());
    let filter = match g.below(5) {
        0 | 1 => FilterKind::Scripted(true),
        2 => FilterKind::Scripted(false),
        _ => FilterKind::NameIs(if g.bool() { name0 } else { g.usize(NAMES.len()) }),
    };
    // profiles: how likely a start is, so "never started" and "started several times" both occur
    let p_start = *g.pick(&[0u64, 2, 5, 9]);
    let len = g.usize(9);
    let tick = |g: &mut Rng| match g.below(8) {
        0..=3 => Tick::Forward(1 + g.below(1_000_000)),
        4 => Tick::Backward(1 + g.below(1_000_000)),
        5 => Tick::Same,
        _ => Tick::Unavailable,
    };
    let mut ops = Vec::new();
    for _ in 0..len {
        let op = if g.chance(p_start, 16) {
            Op::Start
        } else {
            match g.below(6) {
                0 => Op::WithMdl(g.usize(MDLS.len())),
                1 => Op::WithName(g.usize(NAMES.len())),
                2 => Op::WithProps(g.usize(n_sets)),
                3 => Op::MapProps(if g.bool() { Some(g.usize(n_sets)) } else { None }),
                4 => Op::WithCompletion(g.usize(N_COMPLETIONS)),
                _ => Op::Start,
            }
        };
        ops.push((tick(g), op));
    }
    let terminal = match g.below(3) {
        0 => Op::Complete,
        1 => Op::CompleteWith(g.usize(N_COMPLETIONS)),
        _ => Op::Drop,
    };
    ops.push((tick(g), terminal));
    Program {
        filter,
        in_frame: g.chance(3, 4),
        mdl0: g.usize(MDLS.len()),
        name0,
        props0: g.usize(n_sets),
        completion0: g.usize(N_COMPLETIONS),
        ops: intermittent(g, ops),
        prop_sets,
    }
}

/// Half of the programs get an INTERMITTENT clock on purpose: a reading at the first `start` but
/// none at the terminal operation, or none at the first `start` but one at the terminal operation.
fn intermittent(g: &mut Rng, mut ops: Vec<(Tick, Op)>) -> Vec<(Tick, Op)> {
    let shape = g.below(4);
    if shape >= 2 {
        return ops;
    }
    let last = ops.len() - 1;
    let first_start = ops.iter().position(|(_, o)| *o == Op::Start);
    // (without a start there is no start reading to lose; leave the script alone)
    if let Some(st) = first_start {
        let available = |g: &mut Rng| Tick::Forward(1 + g.below(1_000_000));
        if shape == 0 {
            ops[st].0 = Tick::Unavailable;
            ops[last].0 = available(g);
        } else {
            ops[st].0 = available(g);
            ops[last].0 = Tick::Unavailable;
        }
    }
    ops
}

fn program_json(p: &Program) -> Json {
    json!({
        "filter": format!("{:?}", p.filter),
        "in_frame": p.in_frame,
        "mdl0": MDLS[p.mdl0], "name0": NAMES[p.name0], "props0": p.props0,
        "completion0": COMPLETION_NAMES[p.completion0],
        "ops": p.ops.iter().map(|(t, o)| format!("{:?}; {:?}", t, o)).collect::<Vec<_>>(),
        "prop_sets": p.prop_sets.iter().map(|s| s.iter().map(|(k, v)| json!([k, v])).collect::<Vec<_>>()).collect::<Vec<_>>(),
    })
}

/// One call received by a completion object.
#[derive(Clone, Debug)]
struct Call {
    by: usize,
    cap: Captured,
}

struct RecordingCompletion<'l> {
    id: usize,
    log: &'l RefCell<Vec<Call>>,
}

impl<'l> Completion for RecordingCompletion<'l> {
    fn complete<P: Props>(&self, span: Span<P>) {
        use emit::event::ToEvent;
        let cap = Captured::of(&span.to_event());
        self.log.borrow_mut().push(Call { by: self.id, cap });
    }
}

/// What the run of one program showed.
struct GuardRun {
    calls: Vec<Call>,
    /// after each non-terminal op: is_enabled()
    enabled_after: Vec<bool>,
    enabled_at_new: bool,
    returned: Option<bool>,
    /// ambient ids read inside the frame (None when run outside)
    ids_in_frame: Option<SpanCtxt>,
    map_props_saw: Vec<(usize, Vec<(String, String)>)>,
    /// clock readings as the model computes them: (at op index) value or None
    readings: Vec<Option<u64>>,
}

type Guard<'a> = SpanGuard<'static, FakeClock, &'a dyn ErasedProps, &'a dyn ErasedCompletion>;

fn run_ops<'a>(
    guard: Guard<'a>,
    p: &Program,
    sets: &'a [PropSet],
    completions: &[&'a dyn ErasedCompletion; N_COMPLETIONS],
    clock: &FakeClock,
    ctxt: &ThreadLocalCtxt,
    run: &mut GuardRun,
    in_frame: bool,
) {
    let mut guard: Option<Guard<'a>> = Some(guard);
    {
        if in_frame {
            run.ids_in_frame = Some(SpanCtxt::current(ctxt));
        }
        let mut now: u64 = clock.get();
        for (idx, (tick, op)) in p.ops.iter().enumerate() {
            match tick {
                Tick::Forward(d) => {
                    now += d;
                    clock.set_none(false);
                    clock.set(now);
                    run.readings.push(Some(now));
                }
                Tick::Backward(d) => {
                    now -= d;
                    clock.set_none(false);
                    clock.set(now);
                    run.readings.push(Some(now));
                }
                Tick::Same => {
                    clock.set_none(false);
                    run.readings.push(Some(now));
                }
                Tick::Unavailable => {
                    clock.set_none(true);
                    run.readings.push(None);
                }
            }
            let g = guard.take().expect("guard alive until the terminal op");
            match op {
                Op::WithMdl(i) => guard = Some(g.with_mdl(Path::new_raw(MDLS[*i]))),
                Op::WithName(i) => guard = Some(g.with_name(NAMES[*i])),
                Op::WithProps(i) => guard = Some(g.with_props(&sets[*i] as &dyn ErasedProps)),
                Op::MapProps(to) => {
                    let saw = &mut run.map_props_saw;
                    guard = Some(g.map_props(|old: &dyn ErasedProps| {
                        let mut v = Vec::new();
                        let _ = old.for_each(|k, val| {
                            v.push((k.get().to_string(), val.to_string()));
                            ControlFlow::Continue(())
                        });
                        saw.push((idx, v));
                        match to {
                            Some(i) => &sets[*i] as &dyn ErasedProps,
                            None => old,
                        }
                    }));
                }
                Op::WithCompletion(c) => guard = Some(g.with_completion(completions[*c])),
                Op::Start => {
                    let mut g = g;
                    g.start();
                    guard = Some(g);
                }
                Op::Complete => run.returned = Some(g.complete()),
                Op::CompleteWith(c) => run.returned = Some(g.complete_with(completions[*c])),
                Op::Drop => drop(g),
            }
            if let Some(g) = &guard {
                run.enabled_after.push(g.is_enabled());
            }
        }
        drop(guard);
    }
}

fn run_program(p: &Program) -> GuardRun {
    let ctxt = ThreadLocalCtxt::shared();
    let rng = CountingRng::new();
    let clock = FakeClock::new(1_000_000_000_000);
    let log: RefCell<Vec<Call>> = RefCell::new(Vec::new());
    let rec_default = Recorder::new();
    let rec_emitter = Recorder::new();

    let sets: Vec<PropSet> = p.prop_sets.iter().map(|s| PropSet(s.clone())).collect();
    let c0 = RecordingCompletion { id: 0, log: &log };
    let c1 = completion::from_fn(|span: Span<&dyn ErasedProps>| {
        use emit::event::ToEvent;
        let cap = Captured::of(&span.to_event());
        log.borrow_mut().push(Call { by: 1, cap });
    });
    let c2 = completion::default(rec_default.clone(), &ctxt);
    let c3 = completion::from_emitter(rec_emitter.clone());
    let completions: [&dyn ErasedCompletion; N_COMPLETIONS] = [&c0, &c1, &c2, &c3];

    let name0 = NAMES[p.name0];
    let enabled_by_filter = match p.filter {
        FilterKind::Scripted(b) => b,
        FilterKind::NameIs(i) => NAMES[i] == name0,
    };
    let filter_kind = p.filter.clone();
    let the_filter = filter::from_fn(move |evt| match filter_kind {
        FilterKind::Scripted(b) => b,
        FilterKind::NameIs(i) => evt.props().pull::<Str, _>("span_name").map(|n| n == NAMES[i]).unwrap_or(false),
    });
    let _ = enabled_by_filter;

    let (guard, frame): (Guard, _) = SpanGuard::new(
        &the_filter,
        &ctxt,
        clock.clone(),
        &rng,
        completions[p.completion0],
        ("ctxt_prop", 7),
        Path::new_raw(MDLS[p.mdl0]),
        name0,
        &sets[p.props0] as &dyn ErasedProps,
    );

    let mut run = GuardRun {
        calls: Vec::new(),
        enabled_after: Vec::new(),
        enabled_at_new: guard.is_enabled(),
        returned: None,
        ids_in_frame: None,
        map_props_saw: Vec::new(),
        readings: Vec::new(),
    };

    if p.in_frame {
        frame.call(|| run_ops(guard, p, &sets, &completions, &clock, &ctxt, &mut run, true));
    } else {
        drop(frame);
        run_ops(guard, p, &sets, &completions, &clock, &ctxt, &mut run, false);
    }
    clock.set_none(false);

    run.calls = log.into_inner();
    for cap in rec_default.take() {
        run.calls.push(Call { by: 2, cap });
    }
    for cap in rec_emitter.take() {
        run.calls.push(Call { by: 3, cap });
    }
    run
}

fn check_program(r: &mut Report, p: &Program, seed: u64, index: u64) {
    r.eval();
    let case = || json!({"part": "guard", "seed": seed, "index": index, "program": program_json(p)});
    let run = match catch(|| run_program(p)) {
        Ok(run) => run,
        Err(msg) => {
            r.violation("C05:guard:panic", &format!("the guard program panicked: {}", msg), case());
            return;
        }
    };

    // ---- the model ----
    let enabled = match p.filter {
        FilterKind::Scripted(b) => b,
        FilterKind::NameIs(i) => i == p.name0,
    };
    let mut started = false;
    let mut start_reading: Option<u64> = None;
    let (mut mdl, mut name, mut props, mut completion) = (p.mdl0, p.name0, p.props0, p.completion0);
    let mut with_completion_on_disabled = false;
    let mut expected_map_props: Vec<(usize, usize)> = Vec::new(); // (op idx, prop set it must see)
    let mut terminal = "";
    let mut completes_on: Option<usize> = None;
    let mut end_reading: Option<u64> = None;
    for (idx, (_, op)) in p.ops.iter().enumerate() {
        match op {
            Op::WithMdl(i) => mdl = *i,
            Op::WithName(i) => name = *i,
            Op::WithProps(i) => props = *i,
            Op::MapProps(to) => {
                expected_map_props.push((idx, props));
                if let Some(i) = to {
                    props = *i;
                }
            }
            Op::WithCompletion(c) => {
                completion = *c;
                if !enabled {
                    with_completion_on_disabled = true;
                }
            }
            Op::Start => {
                if !started {
                    started = true;
                    start_reading = run.readings[idx];
                }
            }
            Op::Complete | Op::Drop => {
                terminal = op.name();
                end_reading = run.readings[idx];
                if enabled && started {
                    completes_on = Some(completion);
                }
            }
            Op::CompleteWith(c) => {
                terminal = op.name();
                end_reading = run.readings[idx];
                if enabled && started {
                    completes_on = Some(*c);
                }
            }
        }
    }

    let class = format!(
        "{}:{}:{}",
        if enabled { "enabled" } else { "disabled" },
        if started { "started" } else { "never-started" },
        terminal
    );
    r.observe(&format!("guards:{}", class), 1);
    if with_completion_on_disabled {
        r.observe("guards:with_completion-on-disabled-guard", 1);
    }
    r.observe("completion-calls", run.calls.len() as u64);
    r.observe("is_enabled-reads", run.enabled_after.len() as u64 + 1);

    // ---- compare ----
    let ops_sig: Vec<&str> = p.ops.iter().map(|(_, o)| o.name()).collect();
    let has_builder = p.ops.iter().any(|(_, o)| !matches!(o, Op::Start | Op::Complete | Op::CompleteWith(_) | Op::Drop));
    if has_builder {
        let ticks: Vec<u8> = p
            .ops
            .iter()
            .map(|(t, _)| match t {
                Tick::Forward(_) => 0u8,
                Tick::Backward(_) => 1,
                Tick::Same => 2,
                Tick::Unavailable => 3,
            })
            .collect();
        r.nontrivial(&("guard", enabled, p.in_frame, &ops_sig, ticks));
    }

    if run.enabled_at_new != enabled || run.enabled_after.iter().any(|e| *e != enabled) {
        let after: Vec<&str> = p
            .ops
            .iter()
            .zip(run.enabled_after.iter())
            .filter(|(_, e)| **e != enabled)
            .map(|((_, o), _)| o.name())
            .collect();
        r.violation(
            &format!(
                "C05:guard:is_enabled-inconsistent:filter-{}:after-{}",
                if enabled { "passed" } else { "rejected" },
                after.first().copied().unwrap_or("new")
            ),
            &format!(
                "the filter answered {} but is_enabled() was {} at new and {:?} after the operations",
                enabled, run.enabled_at_new, run.enabled_after
            ),
            case(),
        );
    }

    let n = run.calls.len();
    match completes_on {
        None => {
            if n != 0 {
                let why = if !enabled { "filtered-out" } else { "never-started" };
                let by: Vec<&str> = run.calls.iter().map(|c| COMPLETION_NAMES[c.by]).collect();
                r.violation(
                    &format!(
                        "C05:guard:completed-but-{}:{}{}",
                        why,
                        terminal,
                        if with_completion_on_disabled { ":after-with_completion" } else { "" }
                    ),
                    &format!("a {} guard completed {} time(s) (on {:?})", why, n, by),
                    case(),
                );
            }
        }
        Some(want) => {
            if n != 1 {
                let by: Vec<&str> = run.calls.iter().map(|c| COMPLETION_NAMES[c.by]).collect();
                r.violation(
                    &format!("C05:guard:completed-{}-times:{}", n.min(2), terminal),
                    &format!("an enabled, started guard completed {} times (on {:?}), expected once on {}", n, by, COMPLETION_NAMES[want]),
                    case(),
                );
            }
            if let Some(call) = run.calls.first() {
                if call.by != want {
                    r.violation(
                        &format!("C05:guard:wrong-completion-object:{}", terminal),
                        &format!("completed on {} but the current completion is {}", COMPLETION_NAMES[call.by], COMPLETION_NAMES[want]),
                        case(),
                    );
                }
                let cap = &call.cap;
                let want_props: Vec<(String, String)> = p.prop_sets[props].iter().map(|(k, v)| (k.to_string(), v.to_string())).collect();
                let got_user: Vec<(String, String)> = cap
                    .props
                    .iter()
                    .filter(|(k, _, _)| KEYS.contains(&k.as_str()))
                    .map(|(k, v, _)| (k.clone(), v.clone()))
                    .collect();
                if cap.mdl != MDLS[mdl] {
                    r.violation("C05:guard:completed-span:wrong-module", &format!("module {:?}, last set {:?}", cap.mdl, MDLS[mdl]), case());
                }
                if cap.get("span_name") != Some(NAMES[name]) {
                    r.violation(
                        "C05:guard:completed-span:wrong-name",
                        &format!("span_name {:?}, last set {:?}", cap.get("span_name"), NAMES[name]),
                        case(),
                    );
                }
                if cap.get("evt_kind") != Some("span") {
                    r.violation("C05:guard:completed-span:kind-not-span", &format!("evt_kind {:?}", cap.get("evt_kind")), case());
                }
                if got_user != want_props {
                    r.violation(
                        "C05:guard:completed-span:wrong-props",
                        &format!("props {:?}, last set {:?}", got_user, want_props),
                        case(),
                    );
                }
                if let (Some(s), Some(e)) = (start_reading, end_reading) {
                    r.observe("extents-checked", 1);
                    if cap.extent != Some((Some(s), e)) {
                        r.violation(
                            &format!(
                                "C05:guard:completed-span:wrong-extent:{}",
                                if e < s { "clock-went-backwards" } else { "clock-forward" }
                            ),
                            &format!("extent {:?}, expected range {}..{} (reading at start .. reading at completion)", cap.extent, s, e),
                            case(),
                        );
                    }
                } else {
                    // a reading is missing: no extent is fine (`Timer::extent` documents `None`), but an
                    // extent that IS there cannot be "from the reading at start to the reading at
                    // completion" - it was made up from one reading (or none)
                    let which = match (start_reading, end_reading) {
                        (None, Some(_)) => "start-missing",
                        (Some(_), None) => "end-missing",
                        _ => "start-and-end-missing",
                    };
                    if which != "start-and-end-missing" {
                        r.observe("guard:intermittent-clock-cases-judged", 1);
                    }
                    r.observe(&format!("guard:extent-judged-with-{}", which), 1);
                    if cap.extent.is_some() {
                        r.violation(
                            &format!("C05:guard:completed-span:extent-from-missing-reading:{}", which),
                            &format!(
                                "the clock gave {:?} at start and {:?} at completion, yet the completed span carries the extent {:?} (on {})",
                                start_reading, end_reading, cap.extent, COMPLETION_NAMES[call.by]
                            ),
                            case(),
                        );
                    }
                }
                if call.by == 2 && p.in_frame {
                    // the real default completion, inside the frame: ids of the guard
                    let ids = run.ids_in_frame.unwrap_or(SpanCtxt::empty());
                    let t = ids.trace_id().map(|t| t.to_string());
                    let s = ids.span_id().map(|t| t.to_string());
                    r.observe("default-completions-in-frame", 1);
                    if t.is_none() || s.is_none() || cap.get("trace_id") != t.as_deref() || cap.get("span_id") != s.as_deref() || cap.get("ctxt_prop") != Some("7") {
                        r.violation(
                            "C05:guard:default-completion-in-frame-without-ids",
                            &format!(
                                "span event completed inside its frame carries trace_id={:?} span_id={:?} ctxt_prop={:?}; the frame's ids are {:?}/{:?}",
                                cap.get("trace_id"),
                                cap.get("span_id"),
                                cap.get("ctxt_prop"),
                                t,
                                s
                            ),
                            case(),
                        );
                    }
                }
            }
        }
    }
    if let Some(ret) = run.returned {
        if ret != completes_on.is_some() {
            r.violation(
                &format!(
                    "C05:guard:{}-returned-{}:model-{}:completion-calls-{}",
                    terminal,
                    ret,
                    if completes_on.is_some() { "completes" } else { "does-not-complete" },
                    n.min(2)
                ),
                &format!("{} returned {} but the model says completed={} ({} completion calls)", terminal, ret, completes_on.is_some(), n),
                case(),
            );
        }
    }
    // map_props must be handed the current props (state is carried through the builders)
    for (idx, set) in expected_map_props {
        let want: Vec<(String, String)> = p.prop_sets[set].iter().map(|(k, v)| (k.to_string(), v.to_string())).collect();
        match run.map_props_saw.iter().find(|(i, _)| *i == idx) {
            Some((_, got)) if *got == want => {}
            other => r.violation(
                "C05:guard:map_props-not-given-current-props",
                &format!("map_props at op {} was given {:?}, current props are {:?}", idx, other.map(|o| &o.1), want),
                case(),
            ),
        }
    }
    if r.wants_sample() && has_builder && completes_on.is_some() && index % 11 == 0 {
        let calls = n;
        r.sample(|| json!({"part": "guard", "class": class, "completion_calls": calls, "program": program_json(p)}));
    }
}

// ===========================================================================
// (a') the default completion object through its OWN builders
// ===========================================================================
//
// "No sequence of builder-style modifications ..." + "panic unwinding, which adds an error and the panic
// level": `completion::default(emitter, ctxt)` is put through `with_lvl / with_panic_lvl / with_tpl`
// 0-5 times in any order (the level type `L` is `emit::Level` or a `&str`), handed to a guard at
// `SpanGuard::new`, by `with_completion` or by `complete_with`, by value / by reference / type-erased,
// and the span then ends by drop, by an explicit complete, or by PANIC unwinding (the guard dropped by
// the unwinding, or completed with the object from a destructor that runs during the unwinding).
// Oracle: exactly one event behind the object; every setting has its LAST-SET value whatever other
// setters ran afterwards: `lvl` = last `with_lvl` (none if never set) and no `err` on a normal end;
// `lvl` = last `with_panic_lvl` (error if never set) and `err` = panicked on a panic end; template and
// rendered message = last `with_tpl` (the span's own "{span_name} completed" if never set).

#[derive(Clone, Copy, Debug, PartialEq, Eq, Hash)]
enum DSet {
    Lvl(usize),
    PanicLvl(usize),
    Tpl(usize),
}

impl DSet {
    fn kind(self) -> &'static str {
        match self {
            DSet::Lvl(_) => "with_lvl",
            DSet::PanicLvl(_) => "with_panic_lvl",
            DSet::Tpl(_) => "with_tpl",
        }
    }
}

#[derive(Clone, Copy, Debug, PartialEq, Eq, Hash)]
enum DInstall {
    AtNew,
    WithCompletion,
    CompleteWith,
}

#[derive(Clone, Copy, Debug, PartialEq, Eq, Hash)]
enum DExit {
    Drop,
    Complete,
    /// the guard is dropped by unwinding (`CompleteWith`: a destructor that runs during the unwinding
    /// calls `guard.complete_with(object)`)
    Panic,
}

#[derive(Clone, Copy, Debug, PartialEq, Eq, Hash)]
enum DHand {
    Value,
    Ref,
    Erased,
}

#[derive(Clone, Debug, PartialEq, Eq, Hash)]
struct DCase {
    setters: Vec<DSet>,
    str_levels: bool,
    install: DInstall,
    exit: DExit,
    hand: DHand,
    start_first: bool,
}

const D_LEVELS: [emit::Level; 4] = [emit::Level::Debug, emit::Level::Info, emit::Level::Warn, emit::Level::Error];
const D_LEVEL_NAMES: [&str; 4] = ["debug", "info", "warn", "error"];
const D_STR_LEVELS: [&str; 4] = ["lvl-a", "lvl-b", "lvl-c", "error"];
const D_NAME: &str = "d span";

const D_TPL0: &[emit::template::Part<'static>] = &[emit::template::Part::text("tpl zero")];
const D_TPL1: &[emit::template::Part<'static>] = &[emit::template::Part::text("done "), emit::template::Part::hole("a")];
const D_TPL2: &[emit::template::Part<'static>] = &[emit::template::Part::hole("span_name"), emit::template::Part::text(" is over")];

fn d_tpl(i: usize) -> emit::Template<'static> {
    emit::Template::new(match i {
        0 => D_TPL0,
        1 => D_TPL1,
        _ => D_TPL2,
    })
}

fn d_msg(i: Option<usize>) -> String {
    match i {
        None => format!("{} completed", D_NAME),
        Some(0) => "tpl zero".to_string(),
        Some(1) => "done 1".to_string(),
        Some(_) => format!("{} is over", D_NAME),
    }
}

fn gen_dcase(g: &mut Rng) -> DCase {
    let n = g.usize(6);
    let setters = (0..n)
        .map(|_| match g.below(3) {
            0 => DSet::Lvl(g.usize(4)),
            1 => DSet::PanicLvl(g.usize(4)),
            _ => DSet::Tpl(g.usize(3)),
        })
        .collect();
    let install = *g.pick(&[DInstall::AtNew, DInstall::WithCompletion, DInstall::CompleteWith]);
    let exit = if install == DInstall::CompleteWith { *g.pick(&[DExit::Complete, DExit::Panic]) } else { *g.pick(&[DExit::Drop, DExit::Complete, DExit::Panic, DExit::Panic]) };
    DCase { setters, str_levels: g.chance(1, 3), install, exit, hand: *g.pick(&[DHand::Value, DHand::Ref, DHand::Erased]), start_first: g.bool() }
}

fn d_build<'c, L: emit::value::ToValue + Copy>(rec: &Recorder, ctxt: &'c ThreadLocalCtxt, setters: &[DSet], table: [L; 4]) -> completion::Default<'static, Recorder, &'c ThreadLocalCtxt, L> {
    let mut c = completion::Default::new(rec.clone(), ctxt);
    for s in setters {
        c = match *s {
            DSet::Lvl(i) => c.with_lvl(table[i]),
            DSet::PanicLvl(i) => c.with_panic_lvl(table[i]),
            DSet::Tpl(i) => c.with_tpl(d_tpl(i)),
        };
    }
    c
}

struct CompleteOnDrop<'a, F: Completion>(Option<SpanGuard<'static, FakeClock, &'a PropSet, &'a completion::FromEmitter<Recorder>>>, Option<F>);

impl<'a, F: Completion> Drop for CompleteOnDrop<'a, F> {
    fn drop(&mut self) {
        if let (Some(g), Some(c)) = (self.0.take(), self.1.take()) {
            let _ = g.complete_with(c);
        }
    }
}

fn d_run<F: Completion>(c: F, case: &DCase, ctxt: &ThreadLocalCtxt, other_rec: &Recorder) -> Result<Option<bool>, String> {
    let rng = CountingRng::new();
    let clock = FakeClock::new(1_000_000_000_000);
    clock.set_step(1_000);
    let other = completion::from_emitter(other_rec.clone());
    let props = PropSet(vec![("a", 1)]);
    let yes = filter::from_fn(|_| true);
    let exit = case.exit;
    let start_first = case.start_first;
    catch(|| match case.install {
        DInstall::AtNew => {
            let (mut g, frame) = SpanGuard::new(&yes, ctxt, clock.clone(), &rng, c, ("ctxt_prop", 7), Path::new_raw("m0"), D_NAME, &props);
            frame.call(move || {
                g.start();
                match exit {
                    DExit::Drop => {
                        drop(g);
                        None
                    }
                    DExit::Complete => Some(g.complete()),
                    DExit::Panic => {
                        let _g = g;
                        panic!("boom")
                    }
                }
            })
        }
        DInstall::WithCompletion => {
            let (mut g, frame) = SpanGuard::new(&yes, ctxt, clock.clone(), &rng, &other, ("ctxt_prop", 7), Path::new_raw("m0"), D_NAME, &props);
            frame.call(move || {
                if start_first {
                    g.start();
                }
                let mut g = g.with_completion(c);
                if !start_first {
                    g.start();
                }
                match exit {
                    DExit::Drop => {
                        drop(g);
                        None
                    }
                    DExit::Complete => Some(g.complete()),
                    DExit::Panic => {
                        let _g = g;
                        panic!("boom")
                    }
                }
            })
        }
        DInstall::CompleteWith => {
            let (mut g, frame) = SpanGuard::new(&yes, ctxt, clock.clone(), &rng, &other, ("ctxt_prop", 7), Path::new_raw("m0"), D_NAME, &props);
            frame.call(move || {
                g.start();
                match exit {
                    DExit::Panic => {
                        let _d = CompleteOnDrop(Some(g), Some(c));
                        panic!("boom")
                    }
                    _ => Some(g.complete_with(c)),
                }
            })
        }
    })
}

fn d_hand<L: emit::value::ToValue + Copy>(case: &DCase, table: [L; 4], rec: &Recorder, other_rec: &Recorder) -> Result<Option<bool>, String> {
    let ctxt = ThreadLocalCtxt::shared();
    let c = d_build(rec, &ctxt, &case.setters, table);
    match case.hand {
        DHand::Value => d_run(c, case, &ctxt, other_rec),
        DHand::Ref => d_run(&c, case, &ctxt, other_rec),
        DHand::Erased => d_run(&c as &dyn ErasedCompletion, case, &ctxt, other_rec),
    }
}

fn dcase_json(c: &DCase) -> Json {
    json!({"setters": c.setters.iter().map(|s| format!("{:?}", s)).collect::<Vec<_>>(), "level_type": if c.str_levels { "&str" } else { "emit::Level" },
           "install": format!("{:?}", c.install), "exit": format!("{:?}", c.exit), "handed": format!("{:?}", c.hand), "start_before_with_completion": c.start_first})
}

fn check_dcase(r: &mut Report, c: &DCase, seed: u64, index: u64) {
    r.eval();
    let rec = Recorder::new();
    let other_rec = Recorder::new();
    let outcome = if c.str_levels { d_hand(c, D_STR_LEVELS, &rec, &other_rec) } else { d_hand(c, D_LEVELS, &rec, &other_rec) };
    let events = rec.take();
    let other_events = other_rec.take();
    let case = || {
        json!({"part": "completion-default", "seed": seed, "index": index, "case": dcase_json(c), "outcome": format!("{:?}", outcome),
               "events": events.iter().map(|e| e.to_json()).collect::<Vec<_>>(), "events_at_the_replaced_completion": other_events.len()})
    };
    r.observe("completion-default:cases", 1);
    r.observe(&format!("completion-default:exit:{:?}", c.exit), 1);
    r.observe(&format!("completion-default:install:{:?}:{:?}", c.install, c.hand), 1);
    r.observe(&format!("completion-default:setters:{}", c.setters.len()), 1);
    r.observe("completion-default:events", events.len() as u64);
    if !c.setters.is_empty() {
        r.nontrivial(&("completion-default", c));
    }
    let names = if c.str_levels { D_STR_LEVELS } else { D_LEVEL_NAMES };
    let tag = format!("{:?}:{:?}", c.install, c.exit).to_lowercase();
    if outcome.is_err() != (c.exit == DExit::Panic) {
        r.violation(&format!("C05:completion-default:unexpected-panic:{}", tag), &format!("outcome {:?}", outcome), case());
        return;
    }
    if events.len() != 1 || !other_events.is_empty() {
        r.violation(
            &format!("C05:completion-default:completions-{}-replaced-{}:{}", events.len().min(9), other_events.len().min(9), tag),
            &format!("{} event(s) behind the default completion object (expected 1), {} behind the completion it replaced (expected 0)", events.len(), other_events.len()),
            case(),
        );
        return;
    }
    if c.exit == DExit::Complete && outcome != Ok(Some(true)) {
        r.violation(&format!("C05:completion-default:complete-returned-false:{}", tag), &format!("outcome {:?}", outcome), case());
    }
    let e = &events[0];
    // last-set values and what ran after them
    let last = |pick: &dyn Fn(DSet) -> Option<usize>| -> (Option<usize>, String) {
        let mut value = None;
        let mut after: Vec<&'static str> = Vec::new();
        for s in &c.setters {
            match pick(*s) {
                Some(v) => {
                    value = Some(v);
                    after.clear();
                }
                None => {
                    if !after.contains(&s.kind()) {
                        after.push(s.kind());
                    }
                }
            }
        }
        let after = if value.is_none() { "never-set".to_string() } else if after.is_empty() { "nothing".to_string() } else { after.join("+") };
        (value, after)
    };
    let (lvl, lvl_after) = last(&|s| if let DSet::Lvl(i) = s { Some(i) } else { None });
    let (plvl, plvl_after) = last(&|s| if let DSet::PanicLvl(i) = s { Some(i) } else { None });
    let (tpl, tpl_after) = last(&|s| if let DSet::Tpl(i) = s { Some(i) } else { None });
    let lost = |setting: &str, after: &str| {
        if after == "never-set" {
            format!("C05:completion-default:setting-invented:{}", setting)
        } else {
            format!("C05:completion-default:setting-lost:{}:after={}", setting, after)
        }
    };
    if c.exit == DExit::Panic {
        let want = plvl.map(|i| names[i]).unwrap_or("error");
        if e.get("lvl") != Some(want) {
            r.violation(&lost("panic_lvl", &plvl_after), &format!("the span ended by panic unwinding: lvl={:?}, the last with_panic_lvl set {:?} (error when never set)", e.get("lvl"), want), case());
        }
        if e.get("err") != Some("panicked") {
            r.violation(&format!("C05:completion-default:panic-without-err:{}", tag), &format!("the span ended by panic unwinding: err={:?}", e.get("err")), case());
        }
    } else {
        let want = lvl.map(|i| names[i]);
        if e.get("lvl") != want {
            r.violation(&lost("lvl", &lvl_after), &format!("lvl={:?}, the last with_lvl set {:?}", e.get("lvl"), want), case());
        }
        if e.get("err").is_some() {
            r.violation(&format!("C05:completion-default:err-without-panic:{}", tag), &format!("err={:?} on a span that did not end by a panic", e.get("err")), case());
        }
    }
    let want_tpl = tpl.map(|i| d_tpl(i).to_string()).unwrap_or_else(|| "{span_name} completed".to_string());
    if e.tpl != want_tpl || e.msg != d_msg(tpl) {
        r.violation(&lost("tpl", &tpl_after), &format!("template {:?} rendered as {:?}, the last with_tpl set {:?} (rendered {:?})", e.tpl, e.msg, want_tpl, d_msg(tpl)), case());
    }
    // the span itself
    let mut wrong: Vec<(&str, String)> = Vec::new();
    if e.get("span_name") != Some(D_NAME) || e.get("evt_kind") != Some("span") || e.mdl != "m0" {
        wrong.push(("name-kind-module", format!("span_name={:?} evt_kind={:?} mdl={:?}", e.get("span_name"), e.get("evt_kind"), e.mdl)));
    }
    if e.get("a") != Some("1") || e.get("ctxt_prop") != Some("7") {
        wrong.push(("props", format!("a={:?} ctxt_prop={:?}", e.get("a"), e.get("ctxt_prop"))));
    }
    if e.get("trace_id").map(|t| t.len()) != Some(32) || e.get("span_id").map(|t| t.len()) != Some(16) || e.get("span_parent").is_some() {
        wrong.push(("ids", format!("trace_id={:?} span_id={:?} span_parent={:?}", e.get("trace_id"), e.get("span_id"), e.get("span_parent"))));
    }
    if !matches!(e.extent, Some((Some(s), end)) if s < end) {
        wrong.push(("extent", format!("extent={:?} (expected a range)", e.extent)));
    }
    for (what, text) in wrong {
        r.violation(&format!("C05:completion-default:completed-span:{}:{}", what, tag), &text, case());
    }
    if r.wants_sample() && c.setters.len() >= 3 && index % 4999 == 0 {
        r.sample(|| case());
    }
}

// ===========================================================================
// (b) macro forms
// ===========================================================================

type Rt = Runtime<Recorder, filter::FromFn, ThreadLocalCtxt, ScriptClock, CountingRng>;

/// How the clock of a macro-form invocation behaves, read by read (1st read = `start`, 2nd = the
/// timer's reading at completion, later ones = whoever else asks).
#[derive(Clone, Copy, Debug, PartialEq, Eq, Hash)]
enum ClockMode {
    Steady,
    /// no reading at start, readings afterwards
    StartMissing,
    /// a reading at start, none from then on
    EndMissing,
    /// a reading at start, none at completion, readings again afterwards
    EndMissingThenBack,
    Never,
}

const CLOCK_MODES: [ClockMode; 5] = [
    ClockMode::Steady,
    ClockMode::StartMissing,
    ClockMode::EndMissing,
    ClockMode::EndMissingThenBack,
    ClockMode::Never,
];

/// A clock that follows a `ClockMode` and remembers every reading it handed out.
#[derive(Clone)]
struct ScriptClock {
    mode: ClockMode,
    inner: FakeClock,
    log: std::sync::Arc<std::sync::Mutex<Vec<Option<u64>>>>,
}

impl emit::Clock for ScriptClock {
    fn now(&self) -> Option<emit::Timestamp> {
        let mut log = self.log.lock().unwrap();
        let k = log.len();
        let available = match self.mode {
            ClockMode::Steady => true,
            ClockMode::StartMissing => k != 0,
            ClockMode::EndMissing => k == 0,
            ClockMode::EndMissingThenBack => k != 1,
            ClockMode::Never => false,
        };
        let reading = if available { self.inner.now() } else { None };
        log.push(reading.as_ref().map(vcommon::rec::nanos_of));
        reading
    }
}

fn en_filter(evt: emit::Event<&dyn ErasedProps>) -> bool {
    evt.props().pull::<bool, _>("en") != Some(false)
}

fn new_rt(mode: ClockMode) -> (Rt, Recorder, ScriptClock) {
    let rec = Recorder::new();
    let inner = FakeClock::new(1_700_000_000_000_000_000);
    inner.set_step(1_000);
    let clock = ScriptClock {
        mode,
        inner,
        log: Default::default(),
    };
    (
        Runtime::build(rec.clone(), filter::FromFn::new(en_filter), ThreadLocalCtxt::shared(), clock.clone(), CountingRng::new()),
        rec,
        clock,
    )
}

#[derive(Debug)]
struct MyErr(&'static str);

impl fmt::Display for MyErr {
    fn fmt(&self, f: &mut fmt::Formatter) -> fmt::Result {
        write!(f, "my error: {}", self.0)
    }
}

impl Error for MyErr {}

#[derive(Clone, Copy, Debug, PartialEq, Eq, Hash)]
enum Exit {
    /// fall off the end (Ok for Result forms)
    Normal,
    /// `return` in the middle (Ok for Result forms)
    Early,
    /// `return Err(..)` in the middle
    EarlyErr,
    /// `fails()?`
    Question,
    /// tail expression is an `Err`
    TailErr,
    Panic,
    // guard forms
    GComplete,
    GCompleteWith,
    GDropEarly,
    GRename,
    GWithCompletion,
    /// CANCELLATION (async forms): the future is polled this many times by hand and then dropped
    /// (0 = never polled). If it finishes before that, the invocation counts as a normal one.
    Cancel(u8),
}

thread_local! {
    /// did the future of a `Cancel(k)` invocation finish before it could be dropped
    static FINISHED: std::cell::Cell<bool> = const { std::cell::Cell::new(false) };
}

/// Poll `f` up to `k` times, then drop it wherever it is suspended.
fn poll_then_drop<F: Future>(f: F, k: u8) {
    let mut f = std::pin::pin!(f);
    let mut cx = Context::from_waker(Waker::noop());
    let mut finished = false;
    for _ in 0..k {
        if f.as_mut().poll(&mut cx).is_ready() {
            finished = true;
            break;
        }
    }
    FINISHED.with(|c| c.set(finished));
    // (the pinned future is dropped here, at the end of its scope)
}

fn fails(msg: &'static str) -> Result<u32, MyErr> {
    Err(MyErr(msg))
}

fn block_on<F: Future>(f: F) -> F::Output {
    let mut f = std::pin::pin!(f);
    let mut cx = Context::from_waker(Waker::noop());
    for _ in 0..1_000_000 {
        if let Poll::Ready(v) = f.as_mut().poll(&mut cx) {
            return v;
        }
    }
    panic!("c05 executor: poll budget exhausted");
}

struct YieldNow(bool);

impl Future for YieldNow {
    type Output = ();
    fn poll(mut self: Pin<&mut Self>, cx: &mut Context<'_>) -> Poll<()> {
        if self.0 {
            Poll::Ready(())
        } else {
            self.0 = true;
            cx.waker().wake_by_ref();
            Poll::Pending
        }
    }
}

thread_local! {
    /// calls received by custom completions in the guard forms: (invocation, span_name)
    static CUSTOM: RefCell<Vec<(u32, String)>> = const { RefCell::new(Vec::new()) };
    /// value returned by `guard.complete()` in the guard forms
    static RETURNED: RefCell<Vec<(u32, bool)>> = const { RefCell::new(Vec::new()) };
}

fn custom(inv: u32) -> impl Completion {
    completion::from_fn(move |span: Span<&dyn ErasedProps>| {
        CUSTOM.with(|c| c.borrow_mut().push((inv, span.name().to_string())));
        // part (e): the completion handler itself may be scripted to panic / re-enter (once)
        fault_point("completion", inv);
    })
}

// --- plain bodies (no Result) ------------------------------------------------

fn plain_body(exit: Exit) -> u32 {
    match exit {
        Exit::Panic => panic!("boom"),
        _ => 7,
    }
}

macro_rules! plain_exit {
    ($exit:expr) => {
        if $exit == Exit::Early {
            return 1;
        }
        if $exit == Exit::Panic {
            panic!("boom");
        }
    };
}

macro_rules! result_exit {
    ($exit:expr) => {
        if $exit == Exit::Early {
            return Ok(1);
        }
        if $exit == Exit::EarlyErr {
            return Err(MyErr("early"));
        }
        if $exit == Exit::Question {
            let v = fails("question")?;
            return Ok(v);
        }
        if $exit == Exit::Panic {
            panic!("boom");
        }
    };
}

/// The tail expression of the Result forms.
macro_rules! result_tail {
    ($exit:expr) => {
        if $exit == Exit::TailErr {
            fails("tail")
        } else {
            Ok(0)
        }
    };
}

#[emit::span(rt: *rt, "sync_plain {inv}", inv, en)]
fn sync_plain(rt: &Rt, inv: u32, en: bool, exit: Exit) -> u32 {
    plain_exit!(exit);
    0
}

#[emit::span(rt: *rt, "async_plain {inv}", inv, en)]
async fn async_plain(rt: &Rt, inv: u32, en: bool, exit: Exit) -> u32 {
    YieldNow(false).await;
    plain_exit!(exit);
    YieldNow(false).await;
    0
}

#[emit::debug_span(rt: *rt, "sync_debug {inv}", inv, en)]
fn sync_debug(rt: &Rt, inv: u32, en: bool, exit: Exit) -> u32 {
    plain_exit!(exit);
    0
}

#[emit::info_span(rt: *rt, "sync_info {inv}", inv, en)]
fn sync_info(rt: &Rt, inv: u32, en: bool, exit: Exit) -> u32 {
    plain_exit!(exit);
    0
}

#[emit::warn_span(rt: *rt, "async_warn {inv}", inv, en)]
async fn async_warn(rt: &Rt, inv: u32, en: bool, exit: Exit) -> u32 {
    plain_exit!(exit);
    YieldNow(false).await;
    0
}

#[emit::error_span(rt: *rt, "sync_error {inv}", inv, en)]
fn sync_error(rt: &Rt, inv: u32, en: bool, exit: Exit) -> u32 {
    plain_exit!(exit);
    0
}

#[emit::span(rt: *rt, panic_lvl: emit::Level::Warn, "sync_panic_lvl {inv}", inv, en)]
fn sync_panic_lvl(rt: &Rt, inv: u32, en: bool, exit: Exit) -> u32 {
    plain_exit!(exit);
    0
}

#[emit::info_span(rt: *rt, panic_lvl: "debug", "async_info_panic_lvl {inv}", inv, en)]
async fn async_info_panic_lvl(rt: &Rt, inv: u32, en: bool, exit: Exit) -> u32 {
    YieldNow(false).await;
    plain_exit!(exit);
    0
}

/// A plain span around a fn that returns a Result: the Err is *not* looked at.
#[emit::span(rt: *rt, "sync_plain_result {inv}", inv, en)]
fn sync_plain_result(rt: &Rt, inv: u32, en: bool, exit: Exit) -> Result<u32, MyErr> {
    result_exit!(exit);
    result_tail!(exit)
}

// --- Result-aware forms ---------------------------------------------------------

#[emit::span(rt: *rt, ok_lvl: emit::Level::Info, "sync_ok_lvl {inv}", inv, en)]
fn sync_ok_lvl(rt: &Rt, inv: u32, en: bool, exit: Exit) -> Result<u32, MyErr> {
    result_exit!(exit);
    result_tail!(exit)
}

#[emit::span(rt: *rt, err_lvl: emit::Level::Warn, "sync_err_lvl {inv}", inv, en)]
fn sync_err_lvl(rt: &Rt, inv: u32, en: bool, exit: Exit) -> Result<u32, MyErr> {
    result_exit!(exit);
    result_tail!(exit)
}

#[emit::span(rt: *rt, ok_lvl: "debug", err_lvl: "warn", panic_lvl: "info", "sync_all_lvls {inv}", inv, en)]
fn sync_all_lvls(rt: &Rt, inv: u32, en: bool, exit: Exit) -> Result<u32, MyErr> {
    result_exit!(exit);
    result_tail!(exit)
}

#[emit::span(rt: *rt, ok_lvl: emit::Level::Debug, "async_ok_lvl {inv}", inv, en)]
async fn async_ok_lvl(rt: &Rt, inv: u32, en: bool, exit: Exit) -> Result<u32, MyErr> {
    YieldNow(false).await;
    result_exit!(exit);
    YieldNow(false).await;
    result_tail!(exit)
}

#[emit::info_span(rt: *rt, err_lvl: emit::Level::Error, "async_info_err_lvl {inv}", inv, en)]
async fn async_info_err_lvl(rt: &Rt, inv: u32, en: bool, exit: Exit) -> Result<u32, MyErr> {
    result_exit!(exit);
    YieldNow(false).await;
    result_tail!(exit)
}

#[emit::info_span(rt: *rt, ok_lvl: emit::Level::Debug, "sync_info_ok_lvl {inv}", inv, en)]
fn sync_info_ok_lvl(rt: &Rt, inv: u32, en: bool, exit: Exit) -> Result<u32, MyErr> {
    result_exit!(exit);
    result_tail!(exit)
}

#[emit::span(rt: *rt, err: (|_| "mapped"), "sync_err_mapper {inv}", inv, en)]
fn sync_err_mapper(rt: &Rt, inv: u32, en: bool, exit: Exit) -> Result<u32, MyErr> {
    result_exit!(exit);
    result_tail!(exit)
}

fn as_dyn(e: &MyErr) -> &(dyn Error + 'static) {
    e
}

#[emit::span(rt: *rt, err_lvl: "warn", err: as_dyn, "async_err_mapper {inv}", inv, en)]
async fn async_err_mapper(rt: &Rt, inv: u32, en: bool, exit: Exit) -> Result<u32, MyErr> {
    YieldNow(false).await;
    result_exit!(exit);
    result_tail!(exit)
}

// --- guard forms -----------------------------------------------------------------

macro_rules! guard_body {
    ($g:ident, $inv:expr, $exit:expr) => {
        match $exit {
            Exit::GComplete => {
                let ret = $g.complete();
                RETURNED.with(|r| r.borrow_mut().push(($inv, ret)));
            }
            Exit::GCompleteWith => {
                let ret = $g.complete_with(custom($inv));
                RETURNED.with(|r| r.borrow_mut().push(($inv, ret)));
            }
            Exit::GDropEarly => {
                drop($g);
            }
            Exit::GRename => {
                let g2 = $g.with_name("renamed").with_props(("extra", 1));
                drop(g2);
            }
            Exit::GWithCompletion => {
                let g2 = $g.with_completion(custom($inv));
                let _keep = g2;
            }
            Exit::Panic => {
                let _keep = $g;
                panic!("boom");
            }
            Exit::Early => {
                let _keep = $g;
                return 1;
            }
            _ => {
                let _keep = $g;
            }
        }
    };
}

#[emit::span(rt: *rt, guard: g, "sync_guard {inv}", inv, en)]
fn sync_guard(rt: &Rt, inv: u32, en: bool, exit: Exit) -> u32 {
    guard_body!(g, inv, exit);
    0
}

#[emit::span(rt: *rt, guard: g, panic_lvl: emit::Level::Warn, "async_guard {inv}", inv, en)]
async fn async_guard(rt: &Rt, inv: u32, en: bool, exit: Exit) -> u32 {
    YieldNow(false).await;
    guard_body!(g, inv, exit);
    YieldNow(false).await;
    0
}

// --- blocks and new_span! --------------------------------------------------------

#[cfg(miri)]
fn sync_block(rt: &Rt, inv: u32, en: bool, exit: Exit) -> u32 {
    #[emit::span(rt: *rt, "sync_block {inv}", inv, en)]
    {
        if exit == Exit::Panic {
            panic!("boom");
        }
    }
    1
}

// NOTE: the async *block* form (`#[emit::span(..)] async { .. }.await`) cannot be written at all: the
// attribute receives just `async { .. }`, which the macro parses as a `syn::Stmt`, and syn demands a
// terminating `;` for it ("unexpected end of input, expected semicolon"). Nothing to monitor there.

fn manual_new_span(rt: &Rt, inv: u32, en: bool, exit: Exit) -> u32 {
    let (mut guard, frame) = emit::new_span!(rt: *rt, "manual_new_span {inv}", inv, en);
    frame.call(move || {
        guard.start();
        if exit == Exit::Panic {
            panic!("boom");
        }
        if exit == Exit::Early {
            return 1;
        }
        if exit == Exit::GComplete {
            let ret = guard.complete();
            RETURNED.with(|r| r.borrow_mut().push((inv, ret)));
            return 2;
        }
        0
    })
}

/// `new_span!` + `frame.in_future(..)`: the guard lives in the future the frame wraps.
async fn manual_in_future(rt: &Rt, inv: u32, en: bool, exit: Exit) -> u32 {
    let (mut guard, frame) = emit::new_span!(rt: *rt, "manual_in_future {inv}", inv, en);
    frame
        .in_future(async move {
            guard.start();
            YieldNow(false).await;
            if exit == Exit::Panic {
                panic!("boom");
            }
            YieldNow(false).await;
            drop(guard);
            0
        })
        .await
}

#[emit::span(rt: *rt, "async_nested_inner {inv}", inv, en, depth: 2)]
async fn async_nested_inner(rt: &Rt, inv: u32, en: bool) -> u32 {
    YieldNow(false).await;
    2
}

/// An async span suspended inside a NESTED async span: a cancellation drops both frames at once.
#[emit::info_span(rt: *rt, "async_nested_outer {inv}", inv, en)]
async fn async_nested_outer(rt: &Rt, inv: u32, en: bool, _exit: Exit) -> u32 {
    YieldNow(false).await;
    let v = async_nested_inner(rt, inv, en).await;
    YieldNow(false).await;
    v
}

fn manual_new_info_span_never_started(rt: &Rt, inv: u32, en: bool, _exit: Exit) -> u32 {
    let (guard, frame) = emit::new_info_span!(rt: *rt, "never_started {inv}", inv, en);
    frame.call(move || {
        drop(guard);
        0
    })
}

/// Static description of a form: how the oracle derives lvl / err.
struct Form {
    name: &'static str,
    run: fn(&Rt, u32, bool, Exit) -> Result<(), String>,
    exits: &'static [Exit],
    default_lvl: Option<&'static str>,
    panic_lvl: Option<&'static str>,
    ok_lvl: Option<&'static str>,
    err_lvl: Option<&'static str>,
    /// uses ok_lvl / err_lvl / err
    result_aware: bool,
    /// text of `err` for an Err exit, given the error's Display (None = Display of the error)
    mapped_err: Option<&'static str>,
    never_started: bool,
    /// `async_nested_outer`: two spans per invocation
    nested: bool,
}

const PLAIN_EXITS: &[Exit] = &[Exit::Normal, Exit::Early, Exit::Panic];
const RESULT_EXITS: &[Exit] = &[Exit::Normal, Exit::Early, Exit::EarlyErr, Exit::Question, Exit::TailErr, Exit::Panic];
const GUARD_EXITS: &[Exit] = &[
    Exit::Normal,
    Exit::Early,
    Exit::Panic,
    Exit::GComplete,
    Exit::GCompleteWith,
    Exit::GDropEarly,
    Exit::GRename,
    Exit::GWithCompletion,
];
#[allow(dead_code)]
const BLOCK_EXITS: &[Exit] = &[Exit::Normal, Exit::Panic];
const ASYNC_PLAIN_EXITS: &[Exit] = &[Exit::Normal, Exit::Early, Exit::Panic, Exit::Cancel(0), Exit::Cancel(1), Exit::Cancel(2)];
const ASYNC_RESULT_EXITS: &[Exit] = &[
    Exit::Normal,
    Exit::Early,
    Exit::EarlyErr,
    Exit::Question,
    Exit::TailErr,
    Exit::Panic,
    Exit::Cancel(0),
    Exit::Cancel(1),
    Exit::Cancel(2),
];
const ASYNC_GUARD_EXITS: &[Exit] = &[
    Exit::Normal,
    Exit::Early,
    Exit::Panic,
    Exit::GComplete,
    Exit::GCompleteWith,
    Exit::GDropEarly,
    Exit::GRename,
    Exit::GWithCompletion,
    Exit::Cancel(0),
    Exit::Cancel(1),
    Exit::Cancel(2),
];
const ASYNC_MANUAL_EXITS: &[Exit] = &[Exit::Normal, Exit::Panic, Exit::Cancel(0), Exit::Cancel(1), Exit::Cancel(2)];
const NESTED_EXITS: &[Exit] = &[Exit::Normal, Exit::Cancel(0), Exit::Cancel(1), Exit::Cancel(2), Exit::Cancel(3)];
const MANUAL_EXITS: &[Exit] = &[Exit::Normal, Exit::Early, Exit::Panic, Exit::GComplete];

macro_rules! sync_form {
    ($f:ident) => {
        |rt, inv, en, exit| catch(|| { let _ = $f(rt, inv, en, exit); })
    };
}
macro_rules! async_form {
    ($f:ident) => {
        |rt, inv, en, exit| {
            catch(|| match exit {
                Exit::Cancel(k) => poll_then_drop($f(rt, inv, en, exit), k),
                _ => {
                    let _ = block_on($f(rt, inv, en, exit));
                }
            })
        }
    };
}

fn form(name: &'static str, run: fn(&Rt, u32, bool, Exit) -> Result<(), String>, exits: &'static [Exit]) -> Form {
    Form {
        name,
        run,
        exits,
        default_lvl: None,
        panic_lvl: None,
        ok_lvl: None,
        err_lvl: None,
        result_aware: false,
        mapped_err: None,
        never_started: false,
        nested: false,
    }
}

fn forms() -> Vec<Form> {
    let _ = plain_body;
    vec![
        form("sync_plain", sync_form!(sync_plain), PLAIN_EXITS),
        form("async_plain", async_form!(async_plain), ASYNC_PLAIN_EXITS),
        Form { default_lvl: Some("debug"), ..form("sync_debug", sync_form!(sync_debug), PLAIN_EXITS) },
        Form { default_lvl: Some("info"), ..form("sync_info", sync_form!(sync_info), PLAIN_EXITS) },
        Form { default_lvl: Some("warn"), ..form("async_warn", async_form!(async_warn), ASYNC_PLAIN_EXITS) },
        Form { default_lvl: Some("error"), ..form("sync_error", sync_form!(sync_error), PLAIN_EXITS) },
        Form { panic_lvl: Some("warn"), ..form("sync_panic_lvl", sync_form!(sync_panic_lvl), PLAIN_EXITS) },
        Form { default_lvl: Some("info"), panic_lvl: Some("debug"), ..form("async_info_panic_lvl", async_form!(async_info_panic_lvl), ASYNC_PLAIN_EXITS) },
        form("sync_plain_result", sync_form!(sync_plain_result), RESULT_EXITS),
        Form { ok_lvl: Some("info"), result_aware: true, ..form("sync_ok_lvl", sync_form!(sync_ok_lvl), RESULT_EXITS) },
        Form { err_lvl: Some("warn"), result_aware: true, ..form("sync_err_lvl", sync_form!(sync_err_lvl), RESULT_EXITS) },
        Form { ok_lvl: Some("debug"), err_lvl: Some("warn"), panic_lvl: Some("info"), result_aware: true, ..form("sync_all_lvls", sync_form!(sync_all_lvls), RESULT_EXITS) },
        Form { ok_lvl: Some("debug"), result_aware: true, ..form("async_ok_lvl", async_form!(async_ok_lvl), ASYNC_RESULT_EXITS) },
        Form { default_lvl: Some("info"), err_lvl: Some("error"), result_aware: true, ..form("async_info_err_lvl", async_form!(async_info_err_lvl), ASYNC_RESULT_EXITS) },
        Form { default_lvl: Some("info"), ok_lvl: Some("debug"), result_aware: true, ..form("sync_info_ok_lvl", sync_form!(sync_info_ok_lvl), RESULT_EXITS) },
        Form { result_aware: true, mapped_err: Some("mapped"), ..form("sync_err_mapper", sync_form!(sync_err_mapper), RESULT_EXITS) },
        Form { err_lvl: Some("warn"), result_aware: true, ..form("async_err_mapper", async_form!(async_err_mapper), ASYNC_RESULT_EXITS) },
        form("sync_guard", sync_form!(sync_guard), GUARD_EXITS),
        Form { panic_lvl: Some("warn"), ..form("async_guard", async_form!(async_guard), ASYNC_GUARD_EXITS) },
        // attributes on block expressions need nightly features: only built under Miri (always nightly)
        #[cfg(miri)]
        form("sync_block", sync_form!(sync_block), BLOCK_EXITS),
        form("manual_new_span", sync_form!(manual_new_span), MANUAL_EXITS),
        form("manual_in_future", async_form!(manual_in_future), ASYNC_MANUAL_EXITS),
        Form { default_lvl: Some("info"), nested: true, ..form("async_nested_outer", async_form!(async_nested_outer), NESTED_EXITS) },
        Form { default_lvl: Some("info"), never_started: true, ..form("manual_new_info_span_never_started", sync_form!(manual_new_info_span_never_started), &[Exit::Normal]) },
    ]
}

/// The common content checks of a span event that was completed by a DROP of its suspended future.
fn cancelled_content(e: &Captured, name: &str, inv: u32, lvl: Option<&str>, wrong: &mut Vec<(&'static str, String)>) {
    if e.get("evt_kind") != Some("span") {
        wrong.push(("kind-not-span", format!("evt_kind={:?}", e.get("evt_kind"))));
    }
    if e.get("span_name") != Some(name) {
        wrong.push(("wrong-name", format!("span_name={:?}, expected {:?}", e.get("span_name"), name)));
    }
    if e.get("inv") != Some(inv.to_string().as_str()) {
        wrong.push(("props-missing", format!("inv={:?} (the span's own property, expected {})", e.get("inv"), inv)));
    }
    if e.get("trace_id").map(|t| t.len()) != Some(32) || e.get("span_id").map(|t| t.len()) != Some(16) {
        wrong.push(("ids-missing", format!("trace_id={:?} span_id={:?}", e.get("trace_id"), e.get("span_id"))));
    }
    if e.get("lvl") != lvl {
        wrong.push(("wrong-lvl", format!("lvl={:?}, a dropped span gets its default level {:?} (no panic level)", e.get("lvl"), lvl)));
    }
    if e.get("err").is_some() {
        wrong.push(("wrong-err", format!("err={:?} (a drop is not a panic and not an Err)", e.get("err"))));
    }
}

/// A single-span async form whose future was polled `k` times and dropped while suspended.
fn check_cancelled(r: &mut Report, f: &Form, k: u8, en: bool, inv: u32, events: &[Captured], custom_calls: usize, clock: &ScriptClock, case: &dyn Fn() -> Json) {
    r.observe(&format!("cancelled:after-{}-polls", k), 1);
    let started = k >= 1;
    let want = if en && started { 1 } else { 0 };
    if events.len() != want || custom_calls != 0 {
        r.violation(
            &format!(
                "C05:macro:completed-span:cancelled:completion-count-{}:{}:{}",
                events.len().min(2),
                if !started { "never-polled" } else if en { "enabled" } else { "disabled" },
                f.name
            ),
            &format!("future polled {} time(s) and dropped: {} span event(s) and {} custom completion call(s), expected {} and 0", k, events.len(), custom_calls, want),
            case(),
        );
    }
    let Some(e) = events.first() else { return };
    if want != 1 {
        return;
    }
    r.observe("cancelled:span-events-judged", 1);
    let mut wrong = Vec::new();
    cancelled_content(e, &format!("{} {{inv}}", f.name), inv, f.default_lvl, &mut wrong);
    let readings = clock.log.lock().unwrap().clone();
    match (readings.first().copied().flatten(), readings.get(1).copied().flatten()) {
        (Some(s), Some(end)) => {
            if e.extent != Some((Some(s), end)) {
                wrong.push(("wrong-extent", format!("extent={:?}, expected {}..{} (reading at start .. reading at the drop)", e.extent, s, end)));
            }
        }
        _ => {
            // (a drop completes through `completion::Default`: no extent without both readings)
            if e.extent.is_some() {
                wrong.push(("extent-from-missing-reading", format!("extent={:?} with the clock readings {:?}", e.extent, readings)));
            }
        }
    }
    for (what, text) in wrong {
        r.violation(&format!("C05:macro:completed-span:cancelled:{}", what), &format!("{} polled {} time(s) and dropped: {}", f.name, k, text), case());
    }
}

/// `async_nested_outer`: an outer span suspended at its own yields or inside the inner span.
fn check_nested(r: &mut Report, f: &Form, exit: Exit, en: bool, inv: u32, mode: ClockMode, events: &[Captured], case: &dyn Fn() -> Json) {
    // polls: 1 = outer at its first yield, 2 = inside the inner span, 3 = inner done, outer at its
    // second yield, 4 = finished
    let polls = match exit {
        Exit::Cancel(k) => k,
        _ => 4,
    };
    r.observe(&format!("cancelled:nested-after-{}-polls", polls.min(4)), 1);
    let want_inner = en && polls >= 2;
    let want_outer = en && polls >= 1;
    let inner: Vec<&Captured> = events.iter().filter(|e| e.get("span_name") == Some("async_nested_inner {inv}")).collect();
    let outer: Vec<&Captured> = events.iter().filter(|e| e.get("span_name") == Some("async_nested_outer {inv}")).collect();
    let sig = |what: &str| format!("C05:macro:completed-span:cancelled:nested:{}", what);
    if inner.len() != want_inner as usize || outer.len() != want_outer as usize || inner.len() + outer.len() != events.len() {
        r.violation(
            &sig(&format!("completion-count:{}-polls", polls.min(4))),
            &format!(
                "{} inner and {} outer span event(s) out of {} events, expected {} and {}",
                inner.len(),
                outer.len(),
                events.len(),
                want_inner as usize,
                want_outer as usize
            ),
            case(),
        );
        return;
    }
    let mut wrong = Vec::new();
    if let Some(o) = outer.first() {
        r.observe("cancelled:span-events-judged", 1);
        cancelled_content(o, "async_nested_outer {inv}", inv, f.default_lvl, &mut wrong);
        if mode == ClockMode::Steady && !matches!(o.extent, Some((Some(s), e)) if s <= e) {
            wrong.push(("wrong-extent", format!("outer extent={:?}", o.extent)));
        }
    }
    if let (Some(i), Some(o)) = (inner.first(), outer.first()) {
        r.observe("cancelled:span-events-judged", 1);
        r.observe("cancelled:two-frames-dropped-at-once", (polls == 2) as u64);
        cancelled_content(i, "async_nested_inner {inv}", inv, None, &mut wrong);
        if i.get("depth") != Some("2") {
            wrong.push(("props-missing", format!("inner depth={:?}", i.get("depth"))));
        }
        if i.get("span_parent") != o.get("span_id") || i.get("trace_id") != o.get("trace_id") || i.get("span_id") == o.get("span_id") {
            wrong.push((
                "wrong-parent",
                format!(
                    "inner trace/parent/span = {:?}/{:?}/{:?}, outer trace/span = {:?}/{:?}",
                    i.get("trace_id"),
                    i.get("span_parent"),
                    i.get("span_id"),
                    o.get("trace_id"),
                    o.get("span_id")
                ),
            ));
        }
        if o.get("span_parent").is_some() {
            wrong.push(("wrong-parent", format!("outer has span_parent={:?}", o.get("span_parent"))));
        }
        if i.stamp > o.stamp {
            wrong.push(("order", "the inner span completed after the outer one".to_string()));
        }
    }
    for (what, text) in wrong {
        r.violation(&sig(what), &format!("async_nested_outer after {} poll(s): {}", polls, text), case());
    }
}

fn check_invocation(r: &mut Report, f: &Form, exit: Exit, en: bool, mode: ClockMode, inv: u32) {
    r.eval();
    let (rt, rec, clock) = new_rt(mode);
    CUSTOM.with(|c| c.borrow_mut().clear());
    RETURNED.with(|c| c.borrow_mut().clear());
    let outcome = (f.run)(&rt, inv, en, exit);
    let events = rec.take();
    let custom_calls = CUSTOM.with(|c| std::mem::take(&mut *c.borrow_mut()));
    let returned = RETURNED.with(|c| std::mem::take(&mut *c.borrow_mut()));
    let case = || {
        json!({"part": "macro", "form": f.name, "exit": format!("{:?}", exit), "enabled": en, "clock": format!("{:?}", mode), "invocation": inv,
               "clock_readings": clock.log.lock().unwrap().clone(),
               "events": events.iter().map(|e| e.to_json()).collect::<Vec<_>>()})
    };
    let sig_tail = format!("{}:{:?}", f.name, exit);
    r.observe(&format!("invocations:{}", if en { "enabled" } else { "disabled" }), 1);
    r.observe(&format!("exit:{:?}", exit), 1);
    r.observe("span-events", events.len() as u64);
    r.nontrivial(&("macro", f.name, format!("{:?}", exit), en, mode));
    r.observe(&format!("clock:{:?}", mode), 1);

    // did the body leave the way it was asked to?
    let panicked = outcome.is_err();
    if panicked != (exit == Exit::Panic) {
        r.violation(
            &format!("C05:macro:unexpected-panic:{}", sig_tail),
            &format!("invocation outcome {:?}", outcome),
            case(),
        );
        return;
    }

    if f.nested {
        check_nested(r, f, exit, en, inv, mode, &events, &case);
        return;
    }
    if let Exit::Cancel(k) = exit {
        if !FINISHED.with(|c| c.get()) {
            check_cancelled(r, f, k, en, inv, &events, custom_calls.len(), &clock, &case);
            return;
        }
        // finished before it could be cancelled: judged as a normal invocation below
        r.observe("cancel:finished-before-the-drop", 1);
    }
    let to_custom = en && !f.never_started && matches!(exit, Exit::GCompleteWith | Exit::GWithCompletion);
    let want_events = if en && !f.never_started && !to_custom { 1 } else { 0 };
    let want_custom = if to_custom { 1 } else { 0 };
    if events.len() != want_events || custom_calls.len() != want_custom {
        r.violation(
            &format!(
                "C05:macro:{}-span-events-{}-custom-completions:{}:{}",
                events.len().min(2),
                custom_calls.len().min(2),
                if en { "enabled" } else { "disabled" },
                sig_tail
            ),
            &format!(
                "expected {} span event(s) and {} custom completion call(s), got {} and {}",
                want_events,
                want_custom,
                events.len(),
                custom_calls.len()
            ),
            case(),
        );
    }
    for (_, ret) in &returned {
        let completed = en && !f.never_started;
        r.observe("complete-return-values", 1);
        if *ret != completed {
            r.violation(
                &format!("C05:macro:complete-returned-{}:{}:{}", ret, if en { "enabled" } else { "disabled" }, sig_tail),
                &format!("guard.complete*/() returned {} but the span {}", ret, if completed { "completed" } else { "was disabled" }),
                case(),
            );
        }
    }
    if want_events != 1 {
        return;
    }
    let Some(e) = events.first() else { return };

    // expected lvl / err
    let is_err_exit = matches!(exit, Exit::EarlyErr | Exit::Question | Exit::TailErr);
    let (want_lvl, want_err): (Option<&str>, Option<String>) = if exit == Exit::Panic {
        (Some(f.panic_lvl.unwrap_or("error")), Some("panicked".to_string()))
    } else if f.result_aware && is_err_exit {
        let text = match exit {
            Exit::EarlyErr => "my error: early",
            Exit::Question => "my error: question",
            _ => "my error: tail",
        };
        (
            Some(f.err_lvl.or(f.default_lvl).unwrap_or("error")),
            Some(f.mapped_err.map(|m| m.to_string()).unwrap_or_else(|| text.to_string())),
        )
    } else if f.result_aware {
        (f.ok_lvl.or(f.default_lvl), None)
    } else {
        (f.default_lvl, None)
    };
    let got_lvl = e.get("lvl");
    let got_err = e.get("err").map(|s| s.to_string());
    if got_lvl != want_lvl {
        r.violation(
            &format!("C05:macro:wrong-lvl:{}", sig_tail),
            &format!("lvl {:?}, the exit path calls for {:?}", got_lvl, want_lvl),
            case(),
        );
    }
    if got_err != want_err {
        r.violation(
            &format!("C05:macro:wrong-err:{}", sig_tail),
            &format!("err {:?}, the exit path calls for {:?}", got_err, want_err),
            case(),
        );
    }
    let want_name = if exit == Exit::GRename { "renamed".to_string() } else { format!("{} {{inv}}", f.name.replace("manual_new_info_span_", "")) };
    let mut wrong = Vec::new();
    if e.get("evt_kind") != Some("span") {
        wrong.push(format!("evt_kind={:?}", e.get("evt_kind")));
    }
    if e.get("span_name") != Some(want_name.as_str()) {
        wrong.push(format!("span_name={:?} (expected {:?})", e.get("span_name"), want_name));
    }
    if e.get("inv") != Some(inv.to_string().as_str()) {
        wrong.push(format!("inv={:?} (expected {})", e.get("inv"), inv));
    }
    if exit == Exit::GRename && e.get("extra") != Some("1") {
        wrong.push(format!("extra={:?} (set through with_props)", e.get("extra")));
    }
    // the extent: 1st reading = taken at start, 2nd = taken by the timer at completion
    let readings = clock.log.lock().unwrap().clone();
    let start_reading = readings.first().copied().flatten();
    let end_reading = readings.get(1).copied().flatten();
    match (start_reading, end_reading) {
        (Some(s), Some(end)) => {
            r.observe("macro:extents-checked", 1);
            if e.extent != Some((Some(s), end)) {
                wrong.push(format!("extent={:?} (expected the range {}..{}: reading at start .. reading at completion)", e.extent, s, end));
            }
        }
        (s, end) => {
            // a reading is missing: no extent is fine, an extent made up from something else is not
            let which = match (s, end) {
                (None, Some(_)) => "start-missing",
                (Some(_), None) => "end-missing",
                _ => "start-and-end-missing",
            };
            // The documented anchor (`Timer::extent` returns `None` without a reading) covers what
            // completes through `completion::Default`: drop, plain `#[span]`, panic, `complete()`.
            // The Result-aware completions (`ok_lvl` / `err_lvl` / `err`) hand the event to
            // `emit_core::emit` together with the runtime's clock, which then fills in a POINT extent
            // from a third reading taken at emission; the statement does not settle that, so it is
            // only counted, not judged.
            if f.result_aware && exit != Exit::Panic {
                r.observe(
                    &format!(
                        "macro:result-completion-extent-with-missing-reading:{}",
                        match e.extent {
                            None => "none",
                            Some((None, _)) => "point",
                            Some((Some(_), _)) => "range",
                        }
                    ),
                    1,
                );
            } else {
            if which != "start-and-end-missing" {
                r.observe("macro:intermittent-clock-cases-judged", 1);
            }
            r.observe(&format!("macro:extent-judged-with-{}", which), 1);
            if e.extent.is_some() {
                let completed_by = if exit == Exit::Panic {
                    "default-completion-while-panicking"
                } else {
                    "default-completion"
                };
                r.violation(
                    &format!("C05:macro:completed-span:extent-from-missing-reading:{}:{}", which, completed_by),
                    &format!(
                        "{} / {:?}: the clock's readings were {:?} (1st = at start, 2nd = at completion), yet the span event carries the extent {:?}",
                        f.name, exit, readings, e.extent
                    ),
                    case(),
                );
            }
            }
        }
    }
    if e.get("trace_id").map(|t| t.len()) != Some(32) || e.get("span_id").map(|t| t.len()) != Some(16) {
        wrong.push(format!("trace_id={:?} span_id={:?}", e.get("trace_id"), e.get("span_id")));
    }
    if !wrong.is_empty() {
        r.violation(&format!("C05:macro:span-event-content:{}", sig_tail), &wrong.join("; "), case());
    }
    if r.wants_sample() && exit != Exit::Normal && inv % 5 == 0 {
        r.sample(|| case());
    }
}

// ===========================================================================
// (c) the filter is asked once, at the start
// ===========================================================================

/// What a scripted filter does.
#[derive(Clone, Copy, Debug, PartialEq, Eq, Hash)]
enum Script {
    /// the real `emit::level::min_filter(level)`
    Min(&'static str),
    Const(bool),
    /// yes to the first k answers, no afterwards (state lives across the whole invocation)
    Budget(u32),
}

#[derive(Clone, Debug)]
struct ProbeCall {
    answer: bool,
    lvl: Option<String>,
}

struct Probe {
    script: Script,
    calls: Vec<ProbeCall>,
}

thread_local! {
    /// the runtime's filter / the call-site `when:` filter of the invocation running on this thread
    static RT_PROBE: RefCell<Probe> = const { RefCell::new(Probe { script: Script::Const(true), calls: Vec::new() }) };
    static WHEN_PROBE: RefCell<Probe> = const { RefCell::new(Probe { script: Script::Const(true), calls: Vec::new() }) };
    /// what the emitter of the (c) runtimes received on this thread
    static O_EVENTS: RefCell<Vec<Captured>> = const { RefCell::new(Vec::new()) };
}

fn level_of(name: &str) -> emit::Level {
    match name {
        "debug" => emit::Level::Debug,
        "info" => emit::Level::Info,
        "warn" => emit::Level::Warn,
        _ => emit::Level::Error,
    }
}

fn rank(name: &str) -> u8 {
    match name {
        "debug" => 0,
        "info" => 1,
        "warn" => 2,
        _ => 3,
    }
}

/// A filter whose behaviour is scripted per thread (the runtimes of (c) are shared by all worker
/// threads; every invocation sets the scripts of its own thread first). `TlFilter(true)` is the
/// call-site `when:` filter, `TlFilter(false)` the runtime's.
#[derive(Clone, Copy)]
struct TlFilter(bool);

impl emit::Filter for TlFilter {
    fn matches<E: emit::event::ToEvent>(&self, evt: E) -> bool {
        let evt = evt.to_event();
        let key = if self.0 { &WHEN_PROBE } else { &RT_PROBE };
        let (script, asked) = key.with(|p| {
            let p = p.borrow();
            (p.script, p.calls.len() as u32)
        });
        let answer = match script {
            Script::Min(m) => emit::level::min_filter(level_of(m)).matches(&evt),
            Script::Const(b) => b,
            Script::Budget(k) => asked < k,
        };
        let lvl = evt.props().get("lvl").map(|v| v.to_string());
        key.with(|p| p.borrow_mut().calls.push(ProbeCall { answer, lvl }));
        answer
    }
}

struct TlRecorder;

impl emit::Emitter for TlRecorder {
    fn emit<E: emit::event::ToEvent>(&self, evt: E) {
        let evt = evt.to_event();
        let cap = Captured::of(&evt);
        let is_span = cap.get("evt_kind") == Some("span");
        let inv = cap.get("inv").and_then(|v| v.parse::<u32>().ok()).unwrap_or(0);
        O_EVENTS.with(|e| e.borrow_mut().push(cap));
        // part (e): the destination may be scripted to panic / re-enter (once) while it handles a
        // completed span
        if is_span {
            fault_point("emitter", inv);
        }
    }

    fn blocking_flush(&self, _: std::time::Duration) -> bool {
        true
    }
}

type ORt =Runtime<TlRecorder, TlFilter, ThreadLocalCtxt, FakeClock, CountingRng>;

fn o_clock() -> FakeClock {
    let c = FakeClock::new(1_700_000_000_000_000_000);
    c.set_step(1_000);
    c
}

/// the generic runtime of (c)
static O_RT: std::sync::LazyLock<ORt> =
    std::sync::LazyLock::new(|| Runtime::build(TlRecorder, TlFilter(false), ThreadLocalCtxt::shared(), o_clock(), CountingRng::new()));

/// the type-erased runtime of (c): the same components behind an `AmbientSlot`
static O_SLOT: AmbientSlot = AmbientSlot::new();

/// a slot initialised the way an application does it: `emit::setup()...init_slot(..)` - the default
/// ambient context (`ThreadLocalCtxt`) and the default id generator, nothing of the monitor's in between
/// (only the clock is the monitor's: `SystemTime` is not available under Miri isolation)
static N_SLOT: AmbientSlot = AmbientSlot::new();

fn init_once_runtimes() {
    std::sync::LazyLock::force(&O_RT);
    let _ = O_SLOT.init(Runtime::build(TlRecorder, TlFilter(false), ThreadLocalCtxt::new(), o_clock(), CountingRng::starting_at(1 << 40)));
    assert!(O_SLOT.is_enabled(), "the ambient slot of (c) is initialised");
    if !cfg!(miri) {
        let _init = emit::setup().emit_to(TlRecorder).emit_when(TlFilter(false)).with_clock(o_clock()).init_slot(&N_SLOT);
        assert!(N_SLOT.is_enabled(), "the emit::setup() slot of (f) is initialised");
    }
}

#[derive(Clone, Copy, Debug, PartialEq, Eq, Hash)]
enum RtSel {
    Generic,
    Slot,
}

impl RtSel {
    fn name(self) -> &'static str {
        match self {
            RtSel::Generic => "generic-runtime",
            RtSel::Slot => "ambient-slot",
        }
    }
}

// --- sites WITHOUT `when:` (the runtime's filter decides) ---------------------------------------
// (generic over the runtime's components, so the same site runs on `Runtime<concrete..>` and on
// the `AmbientRuntime` of a slot)

#[emit::span(rt: *rt, ok_lvl: emit::Level::Debug, "o_sync_ok_debug {inv}", inv)]
fn o_sync_ok_debug<E: emit::Emitter, F: emit::Filter, C: emit::Ctxt, T: emit::Clock, R: emit::Rng>(rt: &Runtime<E, F, C, T, R>, inv: u32, exit: Exit) -> Result<u32, MyErr> {
    result_exit!(exit);
    result_tail!(exit)
}

#[emit::span(rt: *rt, ok_lvl: "debug", "o_async_ok_debug {inv}", inv)]
async fn o_async_ok_debug<E: emit::Emitter, F: emit::Filter, C: emit::Ctxt, T: emit::Clock, R: emit::Rng>(rt: &Runtime<E, F, C, T, R>, inv: u32, exit: Exit) -> Result<u32, MyErr> {
    YieldNow(false).await;
    result_exit!(exit);
    YieldNow(false).await;
    result_tail!(exit)
}

#[emit::span(rt: *rt, err_lvl: emit::Level::Debug, "o_sync_err_debug {inv}", inv)]
fn o_sync_err_debug<E: emit::Emitter, F: emit::Filter, C: emit::Ctxt, T: emit::Clock, R: emit::Rng>(rt: &Runtime<E, F, C, T, R>, inv: u32, exit: Exit) -> Result<u32, MyErr> {
    result_exit!(exit);
    result_tail!(exit)
}

#[emit::span(rt: *rt, err_lvl: "debug", err: as_dyn, "o_async_err_debug_mapper {inv}", inv)]
async fn o_async_err_debug_mapper<E: emit::Emitter, F: emit::Filter, C: emit::Ctxt, T: emit::Clock, R: emit::Rng>(rt: &Runtime<E, F, C, T, R>, inv: u32, exit: Exit) -> Result<u32, MyErr> {
    YieldNow(false).await;
    result_exit!(exit);
    YieldNow(false).await;
    result_tail!(exit)
}

#[emit::span(rt: *rt, ok_lvl: "debug", err_lvl: "debug", err: (|_| "mapped"), "o_sync_all_debug_mapper {inv}", inv)]
fn o_sync_all_debug_mapper<E: emit::Emitter, F: emit::Filter, C: emit::Ctxt, T: emit::Clock, R: emit::Rng>(rt: &Runtime<E, F, C, T, R>, inv: u32, exit: Exit) -> Result<u32, MyErr> {
    result_exit!(exit);
    result_tail!(exit)
}

#[emit::span(rt: *rt, err: (|_| "mapped"), "o_async_mapper_only {inv}", inv)]
async fn o_async_mapper_only<E: emit::Emitter, F: emit::Filter, C: emit::Ctxt, T: emit::Clock, R: emit::Rng>(rt: &Runtime<E, F, C, T, R>, inv: u32, exit: Exit) -> Result<u32, MyErr> {
    YieldNow(false).await;
    result_exit!(exit);
    YieldNow(false).await;
    result_tail!(exit)
}

#[emit::info_span(rt: *rt, ok_lvl: emit::Level::Debug, err_lvl: emit::Level::Debug, "o_sync_info_to_debug {inv}", inv)]
fn o_sync_info_to_debug<E: emit::Emitter, F: emit::Filter, C: emit::Ctxt, T: emit::Clock, R: emit::Rng>(rt: &Runtime<E, F, C, T, R>, inv: u32, exit: Exit) -> Result<u32, MyErr> {
    result_exit!(exit);
    result_tail!(exit)
}

#[emit::info_span(rt: *rt, ok_lvl: "debug", err_lvl: "debug", err: as_dyn, "o_async_info_to_debug_mapper {inv}", inv)]
async fn o_async_info_to_debug_mapper<E: emit::Emitter, F: emit::Filter, C: emit::Ctxt, T: emit::Clock, R: emit::Rng>(rt: &Runtime<E, F, C, T, R>, inv: u32, exit: Exit) -> Result<u32, MyErr> {
    YieldNow(false).await;
    result_exit!(exit);
    YieldNow(false).await;
    result_tail!(exit)
}

#[emit::warn_span(rt: *rt, ok_lvl: emit::Level::Info, err_lvl: emit::Level::Info, panic_lvl: emit::Level::Debug, "o_sync_warn_to_info {inv}", inv)]
fn o_sync_warn_to_info<E: emit::Emitter, F: emit::Filter, C: emit::Ctxt, T: emit::Clock, R: emit::Rng>(rt: &Runtime<E, F, C, T, R>, inv: u32, exit: Exit) -> Result<u32, MyErr> {
    result_exit!(exit);
    result_tail!(exit)
}

#[emit::error_span(rt: *rt, ok_lvl: emit::Level::Debug, "o_async_error_ok_debug {inv}", inv)]
async fn o_async_error_ok_debug<E: emit::Emitter, F: emit::Filter, C: emit::Ctxt, T: emit::Clock, R: emit::Rng>(rt: &Runtime<E, F, C, T, R>, inv: u32, exit: Exit) -> Result<u32, MyErr> {
    YieldNow(false).await;
    result_exit!(exit);
    YieldNow(false).await;
    result_tail!(exit)
}

/// the reverse direction: started at debug, completed at warn / error
#[emit::debug_span(rt: *rt, ok_lvl: emit::Level::Warn, err_lvl: emit::Level::Error, "o_sync_debug_to_warn {inv}", inv)]
fn o_sync_debug_to_warn<E: emit::Emitter, F: emit::Filter, C: emit::Ctxt, T: emit::Clock, R: emit::Rng>(rt: &Runtime<E, F, C, T, R>, inv: u32, exit: Exit) -> Result<u32, MyErr> {
    result_exit!(exit);
    result_tail!(exit)
}

#[emit::debug_span(rt: *rt, ok_lvl: "warn", err: (|_| "mapped"), "o_async_debug_to_warn_mapper {inv}", inv)]
async fn o_async_debug_to_warn_mapper<E: emit::Emitter, F: emit::Filter, C: emit::Ctxt, T: emit::Clock, R: emit::Rng>(rt: &Runtime<E, F, C, T, R>, inv: u32, exit: Exit) -> Result<u32, MyErr> {
    YieldNow(false).await;
    result_exit!(exit);
    YieldNow(false).await;
    result_tail!(exit)
}

// controls: the same filters over completions that were never Result-aware

#[emit::span(rt: *rt, "o_sync_plain_result {inv}", inv)]
fn o_sync_plain_result<E: emit::Emitter, F: emit::Filter, C: emit::Ctxt, T: emit::Clock, R: emit::Rng>(rt: &Runtime<E, F, C, T, R>, inv: u32, exit: Exit) -> Result<u32, MyErr> {
    result_exit!(exit);
    result_tail!(exit)
}

#[emit::info_span(rt: *rt, "o_async_info_plain {inv}", inv)]
async fn o_async_info_plain<E: emit::Emitter, F: emit::Filter, C: emit::Ctxt, T: emit::Clock, R: emit::Rng>(rt: &Runtime<E, F, C, T, R>, inv: u32, exit: Exit) -> u32 {
    YieldNow(false).await;
    plain_exit!(exit);
    YieldNow(false).await;
    0
}

#[emit::span(rt: *rt, guard: g, "o_sync_guard {inv}", inv)]
fn o_sync_guard<E: emit::Emitter, F: emit::Filter, C: emit::Ctxt, T: emit::Clock, R: emit::Rng>(rt: &Runtime<E, F, C, T, R>, inv: u32, exit: Exit) -> u32 {
    guard_body!(g, inv, exit);
    0
}

#[emit::debug_span(rt: *rt, guard: g, "o_async_debug_guard {inv}", inv)]
async fn o_async_debug_guard<E: emit::Emitter, F: emit::Filter, C: emit::Ctxt, T: emit::Clock, R: emit::Rng>(rt: &Runtime<E, F, C, T, R>, inv: u32, exit: Exit) -> u32 {
    YieldNow(false).await;
    guard_body!(g, inv, exit);
    YieldNow(false).await;
    0
}

// --- sites WITH a call-site `when:` filter (it decides; the runtime's filter is not consulted) ------

#[emit::span(rt: *rt, when: TlFilter(true), ok_lvl: emit::Level::Debug, "w_sync_ok_debug {inv}", inv)]
fn w_sync_ok_debug<E: emit::Emitter, F: emit::Filter, C: emit::Ctxt, T: emit::Clock, R: emit::Rng>(rt: &Runtime<E, F, C, T, R>, inv: u32, exit: Exit) -> Result<u32, MyErr> {
    result_exit!(exit);
    result_tail!(exit)
}

#[emit::span(rt: *rt, when: TlFilter(true), ok_lvl: "debug", err_lvl: "debug", "w_async_all_debug {inv}", inv)]
async fn w_async_all_debug<E: emit::Emitter, F: emit::Filter, C: emit::Ctxt, T: emit::Clock, R: emit::Rng>(rt: &Runtime<E, F, C, T, R>, inv: u32, exit: Exit) -> Result<u32, MyErr> {
    YieldNow(false).await;
    result_exit!(exit);
    YieldNow(false).await;
    result_tail!(exit)
}

#[emit::span(rt: *rt, when: TlFilter(true), err_lvl: emit::Level::Debug, err: (|_| "mapped"), "w_sync_err_debug_mapper {inv}", inv)]
fn w_sync_err_debug_mapper<E: emit::Emitter, F: emit::Filter, C: emit::Ctxt, T: emit::Clock, R: emit::Rng>(rt: &Runtime<E, F, C, T, R>, inv: u32, exit: Exit) -> Result<u32, MyErr> {
    result_exit!(exit);
    result_tail!(exit)
}

#[emit::info_span(rt: *rt, when: TlFilter(true), ok_lvl: emit::Level::Debug, err: as_dyn, "w_async_info_ok_debug_mapper {inv}", inv)]
async fn w_async_info_ok_debug_mapper<E: emit::Emitter, F: emit::Filter, C: emit::Ctxt, T: emit::Clock, R: emit::Rng>(rt: &Runtime<E, F, C, T, R>, inv: u32, exit: Exit) -> Result<u32, MyErr> {
    YieldNow(false).await;
    result_exit!(exit);
    YieldNow(false).await;
    result_tail!(exit)
}

#[emit::warn_span(rt: *rt, when: TlFilter(true), ok_lvl: emit::Level::Info, err_lvl: emit::Level::Info, "w_sync_warn_to_info {inv}", inv)]
fn w_sync_warn_to_info<E: emit::Emitter, F: emit::Filter, C: emit::Ctxt, T: emit::Clock, R: emit::Rng>(rt: &Runtime<E, F, C, T, R>, inv: u32, exit: Exit) -> Result<u32, MyErr> {
    result_exit!(exit);
    result_tail!(exit)
}

#[emit::debug_span(rt: *rt, when: TlFilter(true), ok_lvl: emit::Level::Warn, err_lvl: emit::Level::Error, "w_async_debug_to_warn {inv}", inv)]
async fn w_async_debug_to_warn<E: emit::Emitter, F: emit::Filter, C: emit::Ctxt, T: emit::Clock, R: emit::Rng>(rt: &Runtime<E, F, C, T, R>, inv: u32, exit: Exit) -> Result<u32, MyErr> {
    YieldNow(false).await;
    result_exit!(exit);
    YieldNow(false).await;
    result_tail!(exit)
}

#[emit::span(rt: *rt, when: TlFilter(true), "w_sync_plain {inv}", inv)]
fn w_sync_plain<E: emit::Emitter, F: emit::Filter, C: emit::Ctxt, T: emit::Clock, R: emit::Rng>(rt: &Runtime<E, F, C, T, R>, inv: u32, exit: Exit) -> u32 {
    plain_exit!(exit);
    0
}

#[emit::span(rt: *rt, when: TlFilter(true), guard: g, "w_async_guard {inv}", inv)]
async fn w_async_guard<E: emit::Emitter, F: emit::Filter, C: emit::Ctxt, T: emit::Clock, R: emit::Rng>(rt: &Runtime<E, F, C, T, R>, inv: u32, exit: Exit) -> u32 {
    YieldNow(false).await;
    guard_body!(g, inv, exit);
    YieldNow(false).await;
    0
}

struct OForm {
    name: &'static str,
    /// has a call-site `when:` filter
    when: bool,
    run: fn(RtSel, u32, Exit) -> Result<(), String>,
    exits: &'static [Exit],
    default_lvl: Option<&'static str>,
    panic_lvl: Option<&'static str>,
    ok_lvl: Option<&'static str>,
    err_lvl: Option<&'static str>,
    result_aware: bool,
    mapped_err: Option<&'static str>,
}

macro_rules! o_sync {
    ($f:ident) => {
        |sel, inv, exit| {
            catch(|| match sel {
                RtSel::Generic => {
                    let _ = $f(&*O_RT, inv, exit);
                }
                RtSel::Slot => {
                    let _ = $f(O_SLOT.get(), inv, exit);
                }
            })
        }
    };
}

macro_rules! o_async {
    ($f:ident) => {
        |sel, inv, exit| {
            catch(|| match (sel, exit) {
                (RtSel::Generic, Exit::Cancel(k)) => poll_then_drop($f(&*O_RT, inv, exit), k),
                (RtSel::Slot, Exit::Cancel(k)) => poll_then_drop($f(O_SLOT.get(), inv, exit), k),
                (RtSel::Generic, _) => {
                    let _ = block_on($f(&*O_RT, inv, exit));
                }
                (RtSel::Slot, _) => {
                    let _ = block_on($f(O_SLOT.get(), inv, exit));
                }
            })
        }
    };
}

fn oform(name: &'static str, run: fn(RtSel, u32, Exit) -> Result<(), String>, exits: &'static [Exit]) -> OForm {
    OForm {
        name,
        when: name.starts_with("w_"),
        run,
        exits,
        default_lvl: None,
        panic_lvl: None,
        ok_lvl: None,
        err_lvl: None,
        result_aware: true,
        mapped_err: None,
    }
}

fn once_forms() -> Vec<OForm> {
    let (d, i, w, e) = (Some("debug"), Some("info"), Some("warn"), Some("error"));
    vec![
        OForm { ok_lvl: d, ..oform("o_sync_ok_debug", o_sync!(o_sync_ok_debug), RESULT_EXITS) },
        OForm { ok_lvl: d, ..oform("o_async_ok_debug", o_async!(o_async_ok_debug), ASYNC_RESULT_EXITS) },
        OForm { err_lvl: d, ..oform("o_sync_err_debug", o_sync!(o_sync_err_debug), RESULT_EXITS) },
        OForm { err_lvl: d, ..oform("o_async_err_debug_mapper", o_async!(o_async_err_debug_mapper), ASYNC_RESULT_EXITS) },
        OForm { ok_lvl: d, err_lvl: d, mapped_err: Some("mapped"), ..oform("o_sync_all_debug_mapper", o_sync!(o_sync_all_debug_mapper), RESULT_EXITS) },
        OForm { mapped_err: Some("mapped"), ..oform("o_async_mapper_only", o_async!(o_async_mapper_only), ASYNC_RESULT_EXITS) },
        OForm { default_lvl: i, ok_lvl: d, err_lvl: d, ..oform("o_sync_info_to_debug", o_sync!(o_sync_info_to_debug), RESULT_EXITS) },
        OForm { default_lvl: i, ok_lvl: d, err_lvl: d, ..oform("o_async_info_to_debug_mapper", o_async!(o_async_info_to_debug_mapper), ASYNC_RESULT_EXITS) },
        OForm { default_lvl: w, ok_lvl: i, err_lvl: i, panic_lvl: d, ..oform("o_sync_warn_to_info", o_sync!(o_sync_warn_to_info), RESULT_EXITS) },
        OForm { default_lvl: e, ok_lvl: d, ..oform("o_async_error_ok_debug", o_async!(o_async_error_ok_debug), ASYNC_RESULT_EXITS) },
        OForm { default_lvl: d, ok_lvl: w, err_lvl: e, ..oform("o_sync_debug_to_warn", o_sync!(o_sync_debug_to_warn), RESULT_EXITS) },
        OForm { default_lvl: d, ok_lvl: w, mapped_err: Some("mapped"), ..oform("o_async_debug_to_warn_mapper", o_async!(o_async_debug_to_warn_mapper), ASYNC_RESULT_EXITS) },
        OForm { result_aware: false, ..oform("o_sync_plain_result", o_sync!(o_sync_plain_result), RESULT_EXITS) },
        OForm { default_lvl: i, result_aware: false, ..oform("o_async_info_plain", o_async!(o_async_info_plain), ASYNC_PLAIN_EXITS) },
        OForm { result_aware: false, ..oform("o_sync_guard", o_sync!(o_sync_guard), GUARD_EXITS) },
        OForm { default_lvl: d, result_aware: false, ..oform("o_async_debug_guard", o_async!(o_async_debug_guard), ASYNC_GUARD_EXITS) },
        OForm { ok_lvl: d, ..oform("w_sync_ok_debug", o_sync!(w_sync_ok_debug), RESULT_EXITS) },
        OForm { ok_lvl: d, err_lvl: d, ..oform("w_async_all_debug", o_async!(w_async_all_debug), ASYNC_RESULT_EXITS) },
        OForm { err_lvl: d, mapped_err: Some("mapped"), ..oform("w_sync_err_debug_mapper", o_sync!(w_sync_err_debug_mapper), RESULT_EXITS) },
        OForm { default_lvl: i, ok_lvl: d, ..oform("w_async_info_ok_debug_mapper", o_async!(w_async_info_ok_debug_mapper), ASYNC_RESULT_EXITS) },
        OForm { default_lvl: w, ok_lvl: i, err_lvl: i, ..oform("w_sync_warn_to_info", o_sync!(w_sync_warn_to_info), RESULT_EXITS) },
        OForm { default_lvl: d, ok_lvl: w, err_lvl: e, ..oform("w_async_debug_to_warn", o_async!(w_async_debug_to_warn), ASYNC_RESULT_EXITS) },
        OForm { result_aware: false, ..oform("w_sync_plain", o_sync!(w_sync_plain), PLAIN_EXITS) },
        OForm { result_aware: false, ..oform("w_async_guard", o_async!(w_async_guard), ASYNC_GUARD_EXITS) },
    ]
}

/// The filters of one invocation: (kind label, runtime filter script, `when:` filter script).
#[derive(Clone, Copy, Debug, PartialEq, Eq, Hash)]
struct FilterSetting {
    kind: &'static str,
    rt: Script,
    when: Script,
}

const LEVELS: [&str; 4] = ["debug", "info", "warn", "error"];

fn filter_settings(when: bool) -> Vec<FilterSetting> {
    let mut v = Vec::new();
    if !when {
        for m in LEVELS {
            v.push(FilterSetting { kind: "rt-min-level", rt: Script::Min(m), when: Script::Const(false) });
        }
        for k in 0..3 {
            v.push(FilterSetting { kind: "rt-budget", rt: Script::Budget(k), when: Script::Const(false) });
        }
    } else {
        // `when:` enables what the runtime's own filter rejects (constant, min level, empty budget), and the reverse
        v.push(FilterSetting { kind: "when-over-rt", rt: Script::Const(false), when: Script::Const(true) });
        v.push(FilterSetting { kind: "when-over-rt", rt: Script::Min("error"), when: Script::Const(true) });
        v.push(FilterSetting { kind: "when-over-rt", rt: Script::Budget(0), when: Script::Const(true) });
        v.push(FilterSetting { kind: "when-over-rt", rt: Script::Const(true), when: Script::Const(false) });
        for m in LEVELS {
            v.push(FilterSetting { kind: "when-min-level", rt: Script::Const(false), when: Script::Min(m) });
        }
        for k in 0..3 {
            v.push(FilterSetting { kind: "when-budget", rt: Script::Const(false), when: Script::Budget(k) });
        }
    }
    v
}

/// What `script` answers to an event of level `lvl` (unleveled = the default level, info) when it
/// has answered `asked` times before - written from the documentation of `MinLevelFilter`.
fn script_answer(script: Script, lvl: Option<&str>, asked: u32) -> bool {
    match script {
        Script::Min(m) => rank(lvl.unwrap_or("info")) >= rank(m),
        Script::Const(b) => b,
        Script::Budget(k) => asked < k,
    }
}

fn check_once(r: &mut Report, f: &OForm, exit: Exit, fs: FilterSetting, sel: RtSel, inv: u32) {
    check_once_with(r, f, exit, fs, sel, inv, None)
}

/// Part (c) (`fault` = None) and part (e) (`fault` = what the emitter / the custom completion does,
/// once, while it handles the completion of this invocation's span).
fn check_once_with(r: &mut Report, f: &OForm, exit: Exit, fs: FilterSetting, sel: RtSel, inv: u32, fault: Option<Fault>) {
    r.eval();
    RT_PROBE.with(|p| *p.borrow_mut() = Probe { script: fs.rt, calls: Vec::new() });
    WHEN_PROBE.with(|p| *p.borrow_mut() = Probe { script: fs.when, calls: Vec::new() });
    O_EVENTS.with(|e| e.borrow_mut().clear());
    CUSTOM.with(|c| c.borrow_mut().clear());
    RETURNED.with(|c| c.borrow_mut().clear());
    FAULT_FIRED.with(|c| c.borrow_mut().clear());
    FAULT.with(|c| c.set(fault.map(|k| (k, sel, inv))));
    let outcome = (f.run)(sel, inv, exit);
    FAULT.with(|c| c.set(None));
    let fired = FAULT_FIRED.with(|c| std::mem::take(&mut *c.borrow_mut()));
    let all_events = O_EVENTS.with(|e| std::mem::take(&mut *e.borrow_mut()));
    // what the emitter received for THIS invocation's span, and what a re-entrant emitter / completion
    // emitted while handling it (nested invocations carry `inv | NESTED_INV`)
    let inv_text = inv.to_string();
    let (events, nested_events): (Vec<Captured>, Vec<Captured>) = if fault.is_some() {
        all_events.into_iter().partition(|e| e.get("evt_kind") == Some("span") && e.get("inv") == Some(inv_text.as_str()))
    } else {
        (all_events, Vec::new())
    };
    let all_custom = CUSTOM.with(|c| std::mem::take(&mut *c.borrow_mut()));
    let (custom_calls, nested_custom): (Vec<(u32, String)>, Vec<(u32, String)>) = all_custom.into_iter().partition(|(i, _)| *i == inv || fault.is_none());
    let returned: Vec<(u32, bool)> = RETURNED.with(|c| std::mem::take(&mut *c.borrow_mut())).into_iter().filter(|(i, _)| *i == inv || fault.is_none()).collect();
    let rt_calls = RT_PROBE.with(|p| std::mem::take(&mut p.borrow_mut().calls));
    let when_calls = WHEN_PROBE.with(|p| std::mem::take(&mut p.borrow_mut().calls));
    let show_calls = |c: &[ProbeCall]| c.iter().map(|c| json!({"answer": c.answer, "lvl_shown": c.lvl})).collect::<Vec<_>>();
    let fault_label: Option<String> = fault.map(|k| match fired.first() {
        Some(who) => format!("{}-{}-on-completion", who, k.verb()),
        None => format!("armed-{}-not-reached", k.verb()),
    });
    let case = || {
        json!({"part": if fault.is_some() { "macro-fault" } else { "macro-filter-once" }, "form": f.name, "exit": format!("{:?}", exit), "runtime": sel.name(),
               "filter_kind": fs.kind, "runtime_filter": format!("{:?}", fs.rt), "when_filter": if f.when { format!("{:?}", fs.when) } else { "none".to_string() },
               "runtime_filter_calls": show_calls(&rt_calls), "when_filter_calls": show_calls(&when_calls),
               "fault": fault.map(|k| format!("{:?}", k)), "fault_fired_in": fired.clone(),
               "nested_events": nested_events.iter().map(|e| e.to_json()).collect::<Vec<_>>(),
               "invocation": inv, "events": events.iter().map(|e| e.to_json()).collect::<Vec<_>>()})
    };
    let sig_tail = match &fault_label {
        None => format!("filter-{}:{}:{}:{:?}", fs.kind, sel.name(), f.name, exit),
        Some(l) => format!("{}:{}:{}:{:?}", l, sel.name(), f.name, exit),
    };

    // enabled = the deciding filter's answer to the span at its START level (first answer)
    let deciding = if f.when { fs.when } else { fs.rt };
    let en = script_answer(deciding, f.default_lvl, 0);
    let pfx = if fault.is_some() { "macro-fault" } else { "filter-once" };
    r.observe(&format!("{}:invocations:{}", pfx, if en { "enabled" } else { "disabled" }), 1);
    r.observe(&format!("{}:kind:{}", pfx, fs.kind), 1);
    r.observe(&format!("{}:runtime:{}", pfx, sel.name()), 1);
    r.observe(&format!("{}:span-events", pfx), events.len() as u64);
    r.observe(&format!("{}:deciding-filter-answers", pfx), if f.when { when_calls.len() } else { rt_calls.len() } as u64);
    if f.when {
        r.observe(&format!("{}:runtime-filter-asked-although-when-is-set", pfx), rt_calls.len() as u64);
    }
    if let Some(l) = &fault_label {
        r.observe(&format!("macro-fault:{}", l), 1);
    }
    r.nontrivial(&(if fault.is_some() { "macro-fault" } else { "macro-filter-once" }, f.name, format!("{:?}", exit), fs, sel, fault));

    let panicked = outcome.is_err();
    // the one panic a faulty emitter / completion raises reaches the caller (nothing in between catches)
    let fault_panicked = !fired.is_empty() && fault.map(|k| k.panics()).unwrap_or(false);
    if !panicked && fault_panicked && exit != Exit::Panic {
        // (whether the panic of user code reaches the caller is not C05's business: counted only)
        r.observe("macro-fault:panic-did-not-reach-the-caller", 1);
    } else if panicked != (exit == Exit::Panic || fault_panicked) {
        r.violation(&format!("C05:macro:unexpected-panic:{}", sig_tail), &format!("invocation outcome {:?}", outcome), case());
        return;
    }
    if fault_panicked {
        r.observe("macro-fault:panics-raised-while-a-span-was-being-completed", 1);
    }
    let cancelled = match exit {
        Exit::Cancel(_) => !FINISHED.with(|c| c.get()),
        _ => false,
    };
    let started = !matches!(exit, Exit::Cancel(0));

    // expected lvl / err of the one span event
    let is_err_exit = matches!(exit, Exit::EarlyErr | Exit::Question | Exit::TailErr);
    let (want_lvl, want_err): (Option<&str>, Option<String>) = if exit == Exit::Panic {
        (Some(f.panic_lvl.unwrap_or("error")), Some("panicked".to_string()))
    } else if cancelled {
        (f.default_lvl, None)
    } else if f.result_aware && is_err_exit {
        let text = match exit {
            Exit::EarlyErr => "my error: early",
            Exit::Question => "my error: question",
            _ => "my error: tail",
        };
        (Some(f.err_lvl.or(f.default_lvl).unwrap_or("error")), Some(f.mapped_err.map(|m| m.to_string()).unwrap_or_else(|| text.to_string())))
    } else if f.result_aware {
        (f.ok_lvl.or(f.default_lvl), None)
    } else {
        (f.default_lvl, None)
    };

    // would the completed span's event be rejected if a filter were asked again? (the class this part exists for)
    let again_deciding = !script_answer(deciding, want_lvl, 1);
    let again_rt = !script_answer(fs.rt, want_lvl, if f.when { 0 } else { 1 });
    if fault.is_some() {
        // (part (e) runs under all-pass / all-reject filters: nothing to count here)
    } else if en && started {
        if again_deciding || again_rt {
            r.observe("filter-once:enabled-at-start-and-a-second-ask-would-reject-the-completion", 1);
            r.observe(
                &format!(
                    "filter-once:second-ask-would-reject:{}:{}",
                    fs.kind,
                    if exit == Exit::Panic { "panic" } else if cancelled { "cancelled" } else if is_err_exit && f.result_aware { "err-completion" } else if f.result_aware { "ok-completion" } else { "default-completion" }
                ),
                1,
            );
        }
    } else if started && script_answer(deciding, want_lvl, 0) {
        r.observe("filter-once:rejected-at-start-although-the-completion-alone-would-pass", 1);
    }

    let to_custom = en && started && !cancelled && matches!(exit, Exit::GCompleteWith | Exit::GWithCompletion);
    let want_events = if en && started && !to_custom { 1 } else { 0 };
    let want_custom = if to_custom { 1 } else { 0 };
    if events.len() != want_events || custom_calls.len() != want_custom {
        r.violation(
            &format!(
                "C05:macro:{}-span-events-{}-custom-completions:{}:{}",
                events.len().min(2),
                custom_calls.len().min(2),
                if en { "enabled" } else { "disabled" },
                sig_tail
            ),
            &format!(
                "the deciding filter ({}) answered {} to the span at its start level {:?}: expected {} span event(s) and {} custom completion call(s), got {} and {} \
                 (the completed span's event has lvl {:?}; the runtime filter was asked {} time(s), the when: filter {} time(s))",
                if f.when { "when:" } else { "the runtime's" },
                en,
                f.default_lvl,
                want_events,
                want_custom,
                events.len(),
                custom_calls.len(),
                want_lvl,
                rt_calls.len(),
                when_calls.len()
            ),
            case(),
        );
    }
    for (_, ret) in &returned {
        r.observe("complete-return-values", 1);
        if *ret != en {
            r.violation(
                &format!("C05:macro:complete-returned-{}:{}:{}", ret, if en { "enabled" } else { "disabled" }, sig_tail),
                &format!("guard.complete*/() returned {} but the span {}", ret, if en { "completed" } else { "was disabled" }),
                case(),
            );
        }
    }
    if let Some(k) = fault {
        check_fault_aftermath(r, sel, inv, k, &fired, &nested_events, &nested_custom, &sig_tail, &case);
    }
    if want_events != 1 {
        return;
    }
    let Some(e) = events.first() else { return };
    r.observe(&format!("{}:span-events-judged", pfx), 1);
    let got_lvl = e.get("lvl");
    let got_err = e.get("err").map(|s| s.to_string());
    if got_lvl != want_lvl {
        r.violation(&format!("C05:macro:wrong-lvl:{}", sig_tail), &format!("lvl {:?}, the exit path calls for {:?}", got_lvl, want_lvl), case());
    }
    if got_err != want_err {
        r.violation(&format!("C05:macro:wrong-err:{}", sig_tail), &format!("err {:?}, the exit path calls for {:?}", got_err, want_err), case());
    }
    let want_name = if exit == Exit::GRename { "renamed".to_string() } else { format!("{} {{inv}}", f.name) };
    let mut wrong = Vec::new();
    if e.get("evt_kind") != Some("span") {
        wrong.push(format!("evt_kind={:?}", e.get("evt_kind")));
    }
    if e.get("span_name") != Some(want_name.as_str()) {
        wrong.push(format!("span_name={:?} (expected {:?})", e.get("span_name"), want_name));
    }
    if e.get("inv") != Some(inv.to_string().as_str()) {
        wrong.push(format!("inv={:?} (expected {})", e.get("inv"), inv));
    }
    // (the clock is shared by all worker threads and steps on every reading: a range, start before end)
    if !matches!(e.extent, Some((Some(s), end)) if s < end) {
        wrong.push(format!("extent={:?} (expected a range: reading at start .. reading at completion)", e.extent));
    }
    if e.get("trace_id").map(|t| t.len()) != Some(32) || e.get("span_id").map(|t| t.len()) != Some(16) {
        wrong.push(format!("trace_id={:?} span_id={:?}", e.get("trace_id"), e.get("span_id")));
    }
    if !wrong.is_empty() {
        r.violation(&format!("C05:macro:span-event-content:{}", sig_tail), &wrong.join("; "), case());
    }
    if r.wants_sample() && (again_deciding || again_rt) && inv % 97 == 0 {
        r.sample(|| case());
    }
}

/// every (form, exit, filter setting, runtime) of part (c)
fn once_jobs(all: &[OForm]) -> Vec<(usize, Exit, FilterSetting, RtSel)> {
    let mut jobs = Vec::new();
    for (fi, f) in all.iter().enumerate() {
        for e in f.exits {
            for fs in filter_settings(f.when) {
                for sel in [RtSel::Generic, RtSel::Slot] {
                    jobs.push((fi, *e, fs, sel));
                }
            }
        }
    }
    jobs
}

// ===========================================================================
// (d) completions that panic or re-enter (guard programs)
// ===========================================================================
//
// "Exactly one completion ... however it ends" when the completion handler itself fails: the call that
// reached a completion object (or the span event that reached the emitter behind `completion::default`
// / `completion::from_emitter`) IS the span's one completion, whether or not the handler then panics.
// The guard is consumed by `complete` / `complete_with`, so it is dropped while that panic unwinds;
// that drop must not complete the span a second time (neither on the default completion, nor - through
// `completion::default` - as `err = "panicked"` at the panic level). Decided from the statement ("exactly
// one completion", "no sequence ... can make it complete twice") and from its anchor: the guard takes
// state, data and completion out of itself BEFORE it calls the handler.

#[derive(Clone, Copy, Debug, PartialEq, Eq, Hash)]
enum Behaviour {
    Behave,
    /// the first completion call of the case panics after it was recorded; later calls behave
    PanicOnce,
    /// the first completion call creates, starts, completes and drops other guards on the same context
    Reenter,
    ReenterThenPanicOnce,
}

impl Behaviour {
    fn panics(self) -> bool {
        matches!(self, Behaviour::PanicOnce | Behaviour::ReenterThenPanicOnce)
    }
    fn reenters(self) -> bool {
        matches!(self, Behaviour::Reenter | Behaviour::ReenterThenPanicOnce)
    }
    fn label(self) -> &'static str {
        match self {
            Behaviour::Behave => "completion-behaved",
            Behaviour::PanicOnce => "completion-panicked",
            Behaviour::Reenter => "completion-reentered",
            Behaviour::ReenterThenPanicOnce => "completion-reentered-and-panicked",
        }
    }
}

#[derive(Clone, Copy, Debug, PartialEq, Eq, Hash)]
enum FTerminal {
    Complete,
    CompleteWith(usize),
    Drop,
    /// user code panics with the guard alive: the guard is dropped by the unwinding
    UnwindDrop,
}

impl FTerminal {
    fn name(self) -> &'static str {
        match self {
            FTerminal::Complete => "complete",
            FTerminal::CompleteWith(_) => "complete_with",
            FTerminal::Drop => "drop",
            FTerminal::UnwindDrop => "drop-while-unwinding",
        }
    }
}

#[derive(Clone, Copy, Debug, PartialEq, Eq, Hash)]
enum FOp {
    WithName(usize),
    WithProps(usize),
    MapPropsIdentity,
    WithCompletion(usize),
    Start,
}

#[derive(Clone, Debug, PartialEq, Eq, Hash)]
struct FaultProgram {
    enabled: bool,
    in_frame: bool,
    completion0: usize,
    ops: Vec<FOp>,
    terminal: FTerminal,
    behaviour: Behaviour,
    /// run on a thread of its own and let the panic end that thread (instead of catching it)
    on_thread_exit: bool,
}

fn gen_fault_program(g: &mut Rng) -> FaultProgram {
    let len = g.usize(5);
    let mut ops = Vec::new();
    for _ in 0..len {
        ops.push(match g.below(7) {
            0 => FOp::WithName(g.usize(NAMES.len())),
            1 => FOp::WithProps(g.usize(2)),
            2 => FOp::MapPropsIdentity,
            3 => FOp::WithCompletion(g.usize(N_COMPLETIONS)),
            _ => FOp::Start,
        });
    }
    // mostly started (that is where a completion runs at all), sometimes never
    if g.chance(3, 4) && !ops.contains(&FOp::Start) {
        let at = g.usize(ops.len() + 1);
        ops.insert(at, FOp::Start);
    }
    let terminal = match g.below(7) {
        0 | 1 => FTerminal::Complete,
        2 | 3 => FTerminal::CompleteWith(g.usize(N_COMPLETIONS)),
        4 | 5 => FTerminal::Drop,
        _ => FTerminal::UnwindDrop,
    };
    let mut behaviour = match g.below(8) {
        0 => Behaviour::Behave,
        1..=4 => Behaviour::PanicOnce,
        5 => Behaviour::Reenter,
        _ => Behaviour::ReenterThenPanicOnce,
    };
    if terminal == FTerminal::UnwindDrop && behaviour.panics() {
        // (a completion that panics while the user's panic unwinds aborts the process: never scripted)
        behaviour = if behaviour.reenters() { Behaviour::Reenter } else { Behaviour::Behave };
    }
    FaultProgram {
        enabled: g.chance(5, 6),
        in_frame: g.chance(3, 4),
        completion0: g.usize(N_COMPLETIONS),
        ops,
        terminal,
        behaviour,
        on_thread_exit: g.chance(1, 16),
    }
}

/// Everything a fault program's completions saw; shared with a scoped thread, survives a panic.
struct FaultState {
    behaviour: Behaviour,
    /// one panic and one re-entry per case
    panic_armed: std::sync::atomic::AtomicBool,
    reenter_armed: std::sync::atomic::AtomicBool,
    calls: std::sync::Mutex<Vec<Call>>,
    /// completion calls of the guards a re-entrant completion ran: which of them
    nested: std::sync::Mutex<Vec<usize>>,
    enabled_at_new: std::sync::Mutex<Option<bool>>,
    returned: std::sync::Mutex<Option<bool>>,
}

fn lock<T>(m: &std::sync::Mutex<T>) -> std::sync::MutexGuard<'_, T> {
    m.lock().unwrap_or_else(|e| e.into_inner())
}

impl FaultState {
    /// A completion object (or the emitter behind one) was handed the span.
    fn on_call(&self, by: usize, cap: Captured) {
        use std::sync::atomic::Ordering::SeqCst;
        lock(&self.calls).push(Call { by, cap });
        if self.behaviour.reenters() && self.reenter_armed.swap(false, SeqCst) {
            self.reenter();
        }
        if self.behaviour.panics() && self.panic_armed.swap(false, SeqCst) {
            panic!("completion boom (scripted, once)");
        }
    }

    /// Other guards, run from inside a completion call: started + completed (1 call), started + dropped
    /// (1 call), never started (0), filtered out (0).
    fn reenter(&self) {
        let ctxt = ThreadLocalCtxt::shared();
        let rng = CountingRng::starting_at(1 << 50);
        for which in 0..4usize {
            let pass = which != 3;
            let (mut g, frame) = SpanGuard::new(
                filter::from_fn(move |_| pass),
                &ctxt,
                FakeClock::new(5_000),
                &rng,
                NestedCompletion { st: self, which },
                emit::Empty,
                Path::new_raw("nested"),
                "nested",
                emit::Empty,
            );
            frame.call(move || match which {
                0 => {
                    g.start();
                    g.complete();
                }
                1 => {
                    g.start();
                    drop(g);
                }
                2 => drop(g),
                _ => {
                    g.start();
                    g.complete();
                }
            });
        }
    }
}

struct NestedCompletion<'s> {
    st: &'s FaultState,
    which: usize,
}

impl<'s> Completion for NestedCompletion<'s> {
    fn complete<P: Props>(&self, _: Span<P>) {
        lock(&self.st.nested).push(self.which);
    }
}

struct FaultCompletion<'s> {
    st: &'s FaultState,
    by: usize,
}

impl<'s> Completion for FaultCompletion<'s> {
    fn complete<P: Props>(&self, span: Span<P>) {
        use emit::event::ToEvent;
        let cap = Captured::of(&span.to_event());
        self.st.on_call(self.by, cap);
    }
}

struct FaultEmitter<'s> {
    st: &'s FaultState,
    by: usize,
}

impl<'s> emit::Emitter for FaultEmitter<'s> {
    fn emit<E: emit::event::ToEvent>(&self, evt: E) {
        let cap = Captured::of(&evt.to_event());
        self.st.on_call(self.by, cap);
    }

    fn blocking_flush(&self, _: std::time::Duration) -> bool {
        true
    }
}

fn fault_body(p: &FaultProgram, st: &FaultState) {
    let ctxt = ThreadLocalCtxt::shared();
    let rng = CountingRng::new();
    let clock = FakeClock::new(1_000_000_000_000);
    clock.set_step(1_000);
    let sets = [PropSet(vec![("a", 1)]), PropSet(vec![("b", 2), ("c", 3)])];
    let c0 = FaultCompletion { st, by: 0 };
    let c1 = completion::from_fn(|span: Span<&dyn ErasedProps>| {
        use emit::event::ToEvent;
        let cap = Captured::of(&span.to_event());
        st.on_call(1, cap);
    });
    let c2 = completion::default(FaultEmitter { st, by: 2 }, &ctxt);
    let c3 = completion::from_emitter(FaultEmitter { st, by: 3 });
    let completions: [&dyn ErasedCompletion; N_COMPLETIONS] = [&c0, &c1, &c2, &c3];
    let en = p.enabled;
    let the_filter = filter::from_fn(move |_| en);
    let (guard, frame): (Guard, _) = SpanGuard::new(
        &the_filter,
        &ctxt,
        clock.clone(),
        &rng,
        completions[p.completion0],
        ("ctxt_prop", 7),
        Path::new_raw(MDLS[0]),
        NAMES[0],
        &sets[0] as &dyn ErasedProps,
    );
    *lock(&st.enabled_at_new) = Some(guard.is_enabled());
    let run = || {
        let mut g: Guard = guard;
        for op in &p.ops {
            g = match op {
                FOp::WithName(i) => g.with_name(NAMES[*i]),
                FOp::WithProps(i) => g.with_props(&sets[*i] as &dyn ErasedProps),
                FOp::MapPropsIdentity => g.map_props(|p| p),
                FOp::WithCompletion(c) => g.with_completion(completions[*c]),
                FOp::Start => {
                    let mut g = g;
                    g.start();
                    g
                }
            };
        }
        match p.terminal {
            FTerminal::Complete => *lock(&st.returned) = Some(g.complete()),
            FTerminal::CompleteWith(c) => *lock(&st.returned) = Some(g.complete_with(completions[c])),
            FTerminal::Drop => drop(g),
            FTerminal::UnwindDrop => {
                let _alive = g;
                panic!("user boom with the guard alive");
            }
        }
    };
    if p.in_frame {
        frame.call(run);
    } else {
        drop(frame);
        run();
    }
}

/// A plain span on the same thread and context after the faulty one: (events, ambient props before it)
fn later_guard() -> (Vec<Captured>, Vec<String>) {
    let ctxt = ThreadLocalCtxt::shared();
    let ambient = props_of(&ctxt);
    let rec = Recorder::new();
    let rng = CountingRng::starting_at(1 << 51);
    let (mut g, frame) = SpanGuard::new(
        filter::from_fn(|_| true),
        &ctxt,
        FakeClock::new(9_000),
        &rng,
        completion::default(rec.clone(), &ctxt),
        emit::Empty,
        Path::new_raw("later"),
        "later",
        emit::Empty,
    );
    frame.call(move || {
        g.start();
        g.complete();
    });
    (rec.take(), ambient)
}

fn fault_program_json(p: &FaultProgram) -> Json {
    json!({
        "enabled": p.enabled, "in_frame": p.in_frame, "completion0": COMPLETION_NAMES[p.completion0],
        "ops": p.ops.iter().map(|o| format!("{:?}", o)).collect::<Vec<_>>(),
        "terminal": format!("{:?}", p.terminal), "completion_behaviour": format!("{:?}", p.behaviour),
        "panic_ends_the_thread": p.on_thread_exit,
    })
}

fn check_fault_program(r: &mut Report, p: &FaultProgram, seed: u64, index: u64) {
    use std::sync::atomic::AtomicBool;
    r.eval();
    let st = FaultState {
        behaviour: p.behaviour,
        panic_armed: AtomicBool::new(true),
        reenter_armed: AtomicBool::new(true),
        calls: Default::default(),
        nested: Default::default(),
        enabled_at_new: Default::default(),
        returned: Default::default(),
    };
    let outcome: Result<(), String> = if p.on_thread_exit {
        std::thread::scope(|s| s.spawn(|| quiet(|| fault_body(p, &st))).join()).map_err(|e| panic_message(&e))
    } else {
        catch(|| fault_body(p, &st))
    };
    let later = if p.on_thread_exit { None } else { Some(catch(later_guard)) };
    let calls = std::mem::take(&mut *lock(&st.calls));
    let nested = std::mem::take(&mut *lock(&st.nested));
    let returned = *lock(&st.returned);
    let enabled_at_new = *lock(&st.enabled_at_new);

    // ---- the model ----
    let started = p.ops.contains(&FOp::Start);
    let mut current = p.completion0;
    let mut name = 0usize;
    for op in &p.ops {
        match op {
            FOp::WithCompletion(c) => current = *c,
            FOp::WithName(i) => name = *i,
            _ => {}
        }
    }
    let completes_on = if p.enabled && started {
        Some(match p.terminal {
            FTerminal::CompleteWith(c) => c,
            _ => current,
        })
    } else {
        None
    };
    let terminal = p.terminal.name();
    let label = p.behaviour.label();
    let completion_panics = completes_on.is_some() && p.behaviour.panics();
    let expect_panic = completion_panics || p.terminal == FTerminal::UnwindDrop;

    let case = || {
        json!({"part": "guard-fault", "seed": seed, "index": index, "program": fault_program_json(p),
               "outcome": format!("{:?}", outcome), "returned": returned,
               "completion_calls": calls.iter().map(|c| json!({"on": COMPLETION_NAMES[c.by], "span": c.cap.to_json()})).collect::<Vec<_>>(),
               "nested_completion_calls": nested.clone()})
    };
    r.observe("guard-fault:programs", 1);
    r.observe(&format!("guard-fault:{}:{}:{}", label, terminal, if completes_on.is_some() { "completes" } else if !p.enabled { "filtered-out" } else { "never-started" }), 1);
    r.observe("guard-fault:completion-calls", calls.len() as u64);
    if p.on_thread_exit {
        r.observe("guard-fault:run-on-a-thread-of-its-own", 1);
        r.observe("guard-fault:threads-ended-by-the-panic", outcome.is_err() as u64);
    }
    if completion_panics {
        r.observe("guard-fault:panics-raised-inside-a-completion-call", 1);
    }
    r.nontrivial(&("guard-fault", p));

    match (&outcome, expect_panic) {
        (Err(msg), false) => {
            r.violation(&format!("C05:guard:panic:{}:{}", label, terminal), &format!("the guard program panicked although nothing of the monitor's did: {}", msg), case());
            return;
        }
        (Ok(()), true) => {
            // (whether a handler's panic reaches the caller is not C05's business: counted only)
            r.observe("guard-fault:panic-did-not-reach-the-caller", 1);
        }
        _ => {}
    }
    if enabled_at_new != Some(p.enabled) {
        r.violation(
            &format!("C05:guard:is_enabled-inconsistent:filter-{}:after-new", if p.enabled { "passed" } else { "rejected" }),
            &format!("the filter answered {} but is_enabled() was {:?} at new", p.enabled, enabled_at_new),
            case(),
        );
    }

    let n = calls.len();
    let by: Vec<&str> = calls.iter().map(|c| COMPLETION_NAMES[c.by]).collect();
    match completes_on {
        None => {
            if n != 0 {
                let why = if !p.enabled { "filtered-out" } else { "never-started" };
                r.violation(&format!("C05:guard:completed-but-{}:{}:{}", why, label, terminal), &format!("a {} guard completed {} time(s) (on {:?})", why, n, by), case());
            }
        }
        Some(want) => {
            if n == 0 {
                r.violation(&format!("C05:guard:never-completed:{}:{}", label, terminal), "an enabled, started guard reached no completion", case());
            } else if n > 1 {
                r.violation(
                    &format!("C05:guard:completed-twice:{}:{}", label, terminal),
                    &format!(
                        "an enabled, started guard completed {} times (on {:?}), expected once on {}: the call that {} is the span's one completion, a later one (from the guard being dropped while that unwinds, or otherwise) is a second",
                        n,
                        by,
                        COMPLETION_NAMES[want],
                        if completion_panics { "panicked" } else { "was made" }
                    ),
                    case(),
                );
            }
            if let Some(call) = calls.first() {
                if call.by != want {
                    r.violation(
                        &format!("C05:guard:wrong-completion-object:{}:{}", label, terminal),
                        &format!("completed on {} but the completion in force is {}", COMPLETION_NAMES[call.by], COMPLETION_NAMES[want]),
                        case(),
                    );
                }
                let cap = &call.cap;
                if cap.get("span_name") != Some(NAMES[name]) || cap.get("evt_kind") != Some("span") {
                    r.violation(
                        &format!("C05:guard:completed-span:wrong-name-or-kind:{}", label),
                        &format!("span_name {:?} (last set {:?}), evt_kind {:?}", cap.get("span_name"), NAMES[name], cap.get("evt_kind")),
                        case(),
                    );
                }
                if call.by == 2 {
                    // the real default completion: `err` + the panic level iff the guard was dropped by
                    // unwinding; the completion call that itself then panics was made outside any panic
                    let (want_lvl, want_err) = if p.terminal == FTerminal::UnwindDrop { (Some("error"), Some("panicked")) } else { (None, None) };
                    if cap.get("lvl") != want_lvl || cap.get("err") != want_err {
                        r.violation(
                            &format!("C05:guard:completed-span:wrong-lvl-or-err:{}:{}", label, terminal),
                            &format!("lvl {:?} err {:?}, expected {:?} / {:?}", cap.get("lvl"), cap.get("err"), want_lvl, want_err),
                            case(),
                        );
                    }
                    if p.in_frame && (cap.get("trace_id").map(|t| t.len()) != Some(32) || cap.get("span_id").map(|t| t.len()) != Some(16) || cap.get("ctxt_prop") != Some("7")) {
                        r.violation(
                            "C05:guard:default-completion-in-frame-without-ids",
                            &format!("trace_id={:?} span_id={:?} ctxt_prop={:?} on a span completed inside its frame", cap.get("trace_id"), cap.get("span_id"), cap.get("ctxt_prop")),
                            case(),
                        );
                    }
                }
            }
        }
    }
    if let Some(ret) = returned {
        if ret != completes_on.is_some() {
            r.violation(
                &format!("C05:guard:{}-returned-{}:model-{}:{}", terminal, ret, if completes_on.is_some() { "completes" } else { "does-not-complete" }, label),
                &format!("{} returned {} but the model says completed={} ({} completion calls)", terminal, ret, completes_on.is_some(), n),
                case(),
            );
        }
    }
    // what a re-entrant completion ran: one completion for each of its two started guards, none for the others
    let want_nested: Vec<usize> = if completes_on.is_some() && p.behaviour.reenters() { vec![0, 1] } else { Vec::new() };
    if !want_nested.is_empty() {
        r.observe("guard-fault:reentrant-completion-calls-judged", 1);
    }
    if nested != want_nested {
        r.violation(
            &format!("C05:guard:reentrant-completion:nested-guards-completed-{}-times-of-{}", nested.len().min(5), want_nested.len()),
            &format!("the guards run from inside the completion call completed {:?} (0 = started + complete(), 1 = started + dropped, 2 = never started, 3 = filtered out), expected {:?}", nested, want_nested),
            case(),
        );
    }
    // a later span on the same thread
    if let Some(later) = later {
        r.observe("guard-fault:later-spans-judged", 1);
        let mut wrong: Vec<(&str, String)> = Vec::new();
        match later {
            Err(msg) => wrong.push(("panicked", msg)),
            Ok((evs, ambient)) => {
                if !ambient.is_empty() {
                    wrong.push(("ambient-context-not-empty", format!("{:?}", ambient)));
                }
                if evs.len() != 1 {
                    wrong.push(("completion-count", format!("{} span events, expected 1", evs.len())));
                }
                if let Some(e) = evs.first() {
                    if e.get("err").is_some() || e.get("lvl").is_some() {
                        wrong.push(("treated-as-panicking", format!("lvl={:?} err={:?}", e.get("lvl"), e.get("err"))));
                    }
                    if e.get("span_parent").is_some() || e.get("trace_id").map(|t| t.len()) != Some(32) || e.get("span_id").map(|t| t.len()) != Some(16) {
                        wrong.push(("ids", format!("trace_id={:?} span_id={:?} span_parent={:?} (expected a fresh root)", e.get("trace_id"), e.get("span_id"), e.get("span_parent"))));
                    }
                }
            }
        }
        for (what, text) in wrong {
            r.violation(&format!("C05:guard:later-span-affected:{}:{}:{}", what, label, terminal), &text, case());
        }
    }
    if r.wants_sample() && completion_panics && index % 101 == 0 {
        r.sample(|| case());
    }
}

// ===========================================================================
// (e) user code that panics or re-enters WHILE a span is being completed (macro sites)
// ===========================================================================

/// What the destination of the runtime (`TlRecorder`) or a custom completion handler (`custom`) does,
/// ONCE, when it is handed the completed span of the armed invocation - afterwards it behaves.
#[derive(Clone, Copy, Debug, PartialEq, Eq, Hash)]
enum Fault {
    PanicOnce,
    /// emits an event and runs two more span sites on the same runtime from inside the handler
    Reenter,
    ReenterThenPanicOnce,
}

impl Fault {
    fn panics(self) -> bool {
        !matches!(self, Fault::Reenter)
    }
    fn reenters(self) -> bool {
        !matches!(self, Fault::PanicOnce)
    }
    fn verb(self) -> &'static str {
        match self {
            Fault::PanicOnce => "panicked",
            Fault::Reenter => "reentered",
            Fault::ReenterThenPanicOnce => "reentered-and-panicked",
        }
    }
}

const FAULTS: [Fault; 3] = [Fault::PanicOnce, Fault::Reenter, Fault::ReenterThenPanicOnce];

/// invocation ids of what a re-entrant handler runs
const NESTED_INV: u32 = 0x8000_0000;
/// invocation id of the control span that runs afterwards on the same thread
const LATER_INV: u32 = 0x4000_0000;

thread_local! {
    /// armed fault of the invocation running on this thread: (what, on which runtime, invocation)
    static FAULT: std::cell::Cell<Option<(Fault, RtSel, u32)>> = const { std::cell::Cell::new(None) };
    /// who it fired in ("emitter" / "completion")
    static FAULT_FIRED: RefCell<Vec<&'static str>> = const { RefCell::new(Vec::new()) };
}

/// Called by the emitter of the (c) / (e) runtimes for every span event and by `custom` completions.
fn fault_point(who: &'static str, inv: u32) {
    let Some((kind, sel, for_inv)) = FAULT.with(|c| c.get()) else { return };
    if for_inv != inv {
        return;
    }
    FAULT.with(|c| c.set(None)); // once, then behaves
    FAULT_FIRED.with(|c| c.borrow_mut().push(who));
    if kind.reenters() {
        match sel {
            RtSel::Generic => nested_emissions(&*O_RT, inv | NESTED_INV),
            RtSel::Slot => nested_emissions(O_SLOT.get(), inv | NESTED_INV),
        }
    }
    if kind.panics() {
        panic!("{} boom (scripted, once)", who);
    }
}

/// What a re-entrant handler does: an ordinary event, a span completed explicitly and a span that
/// returns an `Err` - all on the runtime whose completion is being handled.
fn nested_emissions<E: emit::Emitter, F: emit::Filter, C: emit::Ctxt, T: emit::Clock, R: emit::Rng>(rt: &Runtime<E, F, C, T, R>, ninv: u32) {
    emit::info!(rt: *rt, "nested event {ninv}", ninv);
    let _ = o_sync_guard(rt, ninv, Exit::GComplete);
    let _ = o_sync_plain_result(rt, ninv, Exit::EarlyErr);
}

fn props_of<C: emit::Ctxt>(ctxt: C) -> Vec<String> {
    ctxt.with_current(|p| {
        let mut v = Vec::new();
        let _ = p.for_each(|k, val| {
            v.push(format!("{}={}", k, val));
            ControlFlow::Continue(())
        });
        v
    })
}

fn ambient_of(sel: RtSel) -> Vec<String> {
    match sel {
        RtSel::Generic => props_of(O_RT.ctxt()),
        RtSel::Slot => props_of(O_SLOT.get().ctxt()),
    }
}

/// Exactly one event and one completion per nested emission of a re-entrant handler; nothing else.
/// Returns a description of what is wrong.
fn judge_nested(inv: u32, reentered: bool, nested_events: &[Captured], nested_custom: &[(u32, String)]) -> Option<(String, String)> {
    let ninv = (inv | NESTED_INV).to_string();
    let spans: Vec<&Captured> = nested_events.iter().filter(|e| e.get("evt_kind") == Some("span")).collect();
    let plain = nested_events.len() - spans.len();
    let count = |name: &str| spans.iter().filter(|e| e.get("span_name") == Some(name) && e.get("inv") == Some(ninv.as_str())).count();
    let (guard_n, res_n) = (count("o_sync_guard {inv}"), count("o_sync_plain_result {inv}"));
    let want = if reentered { 1 } else { 0 };
    if plain == want && guard_n == want && res_n == want && spans.len() == 2 * want && nested_custom.is_empty() {
        return None;
    }
    let stray = spans.len() - (guard_n + res_n).min(spans.len());
    let what = if stray > 0 {
        // a span event that is neither this invocation's (it does not carry its `inv`) nor one of the
        // nested sites': the span was completed again outside its frame
        "extra-span-event-without-the-spans-properties".to_string()
    } else {
        format!("nested-completions:{}-{}-{}-of-{}", plain.min(2), guard_n.min(2), res_n.min(2), want)
    };
    Some((
        what,
        format!(
            "besides this invocation's span the emitter received {} ordinary event(s), {} `o_sync_guard` and {} `o_sync_plain_result` span event(s) of the nested invocation and {} other span event(s); \
             custom completions got {} nested call(s); expected {} / {} / {} / 0 / 0",
            plain,
            guard_n,
            res_n,
            stray,
            nested_custom.len(),
            want,
            want,
            want
        ),
    ))
}

/// After an invocation whose emitter / completion handler was faulty: what a re-entrant handler emitted
/// completed exactly once each, and a later span on the same thread is an ordinary root span.
fn check_fault_aftermath(
    r: &mut Report,
    sel: RtSel,
    inv: u32,
    k: Fault,
    fired: &[&'static str],
    nested_events: &[Captured],
    nested_custom: &[(u32, String)],
    sig_tail: &str,
    case: &dyn Fn() -> Json,
) {
    let reentered = !fired.is_empty() && k.reenters();
    if reentered {
        r.observe("macro-fault:nested-emissions-judged", 1);
    }
    if let Some((what, text)) = judge_nested(inv, reentered, nested_events, nested_custom) {
        r.violation(&format!("C05:macro:{}:{}", what, sig_tail), &text, case());
    }
    // a later span on the same thread
    RT_PROBE.with(|p| *p.borrow_mut() = Probe { script: Script::Const(true), calls: Vec::new() });
    WHEN_PROBE.with(|p| *p.borrow_mut() = Probe { script: Script::Const(true), calls: Vec::new() });
    O_EVENTS.with(|e| e.borrow_mut().clear());
    CUSTOM.with(|c| c.borrow_mut().clear());
    RETURNED.with(|c| c.borrow_mut().clear());
    let ambient_before = ambient_of(sel);
    let later: fn(RtSel, u32, Exit) -> Result<(), String> = o_sync!(o_sync_guard);
    let linv = (inv & !NESTED_INV) | LATER_INV;
    let out = later(sel, linv, Exit::Normal);
    let evs = O_EVENTS.with(|e| std::mem::take(&mut *e.borrow_mut()));
    let ambient_after = ambient_of(sel);
    r.observe("macro-fault:later-spans-judged", 1);
    let mut wrong: Vec<(&str, String)> = Vec::new();
    if !ambient_before.is_empty() || !ambient_after.is_empty() {
        wrong.push(("ambient-context-not-empty", format!("ambient context before / after the later span: {:?} / {:?}", ambient_before, ambient_after)));
    }
    if out.is_err() {
        wrong.push(("panicked", format!("the later span panicked: {:?}", out)));
    }
    if evs.len() != 1 {
        wrong.push(("completion-count", format!("{} span event(s) for the later span, expected 1", evs.len())));
    }
    if let Some(e) = evs.first() {
        if e.get("err").is_some() || e.get("lvl").is_some() {
            wrong.push(("treated-as-panicking", format!("lvl={:?} err={:?} on a span that left normally after the panic was caught", e.get("lvl"), e.get("err"))));
        }
        if e.get("span_parent").is_some() || e.get("trace_id").map(|t| t.len()) != Some(32) || e.get("span_id").map(|t| t.len()) != Some(16) {
            wrong.push(("ids", format!("trace_id={:?} span_id={:?} span_parent={:?} (expected a fresh root)", e.get("trace_id"), e.get("span_id"), e.get("span_parent"))));
        }
        if e.get("inv") != Some(linv.to_string().as_str()) || e.get("span_name") != Some("o_sync_guard {inv}") {
            wrong.push(("content", format!("span_name={:?} inv={:?}", e.get("span_name"), e.get("inv"))));
        }
    }
    for (what, text) in wrong {
        r.violation(&format!("C05:macro:later-span-affected:{}:{}", what, sig_tail), &text, case());
    }
}

const FAULT_PASS: FilterSetting = FilterSetting { kind: "fault-all-pass", rt: Script::Const(true), when: Script::Const(true) };
const FAULT_REJECT: FilterSetting = FilterSetting { kind: "fault-all-reject", rt: Script::Const(false), when: Script::Const(false) };

/// every (form, exit, filter setting, runtime, fault) of part (e)
fn fault_jobs(all: &[OForm]) -> Vec<(usize, Exit, FilterSetting, RtSel, Fault)> {
    let mut jobs = Vec::new();
    for (fi, f) in all.iter().enumerate() {
        for e in f.exits {
            for k in FAULTS {
                // (a second panic while the body's panic unwinds would abort the process: never scripted)
                if *e == Exit::Panic && k.panics() {
                    continue;
                }
                for sel in [RtSel::Generic, RtSel::Slot] {
                    jobs.push((fi, *e, FAULT_PASS, sel, k));
                    if k == Fault::PanicOnce {
                        jobs.push((fi, *e, FAULT_REJECT, sel, k));
                    }
                }
            }
        }
    }
    jobs
}

// --- the same, with the panic NOT caught: it ends the thread --------------------------------------

const TX_SITES: [(&str, Exit); 7] = [
    ("o_sync_ok_debug", Exit::Normal),
    ("o_sync_ok_debug", Exit::TailErr),
    ("o_sync_plain_result", Exit::Normal),
    ("o_sync_guard", Exit::GComplete),
    ("o_sync_guard", Exit::GCompleteWith),
    ("o_sync_guard", Exit::GWithCompletion),
    ("o_async_ok_debug", Exit::Normal),
];

fn tx_run<E: emit::Emitter, F: emit::Filter, C: emit::Ctxt, T: emit::Clock, R: emit::Rng>(rt: &Runtime<E, F, C, T, R>, which: usize, inv: u32) {
    let exit = TX_SITES[which].1;
    match which {
        0 | 1 => {
            let _ = o_sync_ok_debug(rt, inv, exit);
        }
        2 => {
            let _ = o_sync_plain_result(rt, inv, exit);
        }
        3 | 4 | 5 => {
            let _ = o_sync_guard(rt, inv, exit);
        }
        _ => {
            let _ = block_on(o_async_ok_debug(rt, inv, exit));
        }
    }
}

fn thread_exit_jobs() -> Vec<(usize, RtSel, Fault)> {
    let mut v = Vec::new();
    for which in 0..TX_SITES.len() {
        for sel in [RtSel::Generic, RtSel::Slot] {
            for k in FAULTS {
                v.push((which, sel, k));
            }
        }
    }
    v
}

#[derive(Default)]
struct TxSeen {
    events: Vec<Captured>,
    custom: Vec<(u32, String)>,
    fired: Vec<&'static str>,
}

fn check_thread_exit(r: &mut Report, which: usize, sel: RtSel, k: Fault, inv: u32) {
    r.eval();
    let (form, exit) = TX_SITES[which];
    let seen: std::sync::Mutex<TxSeen> = Default::default();
    let died = std::thread::scope(|s| {
        s.spawn(|| {
            quiet(|| {
                // collects what this thread's emitter / completions saw when the thread ends, however it ends
                struct Flush<'a>(&'a std::sync::Mutex<TxSeen>);
                impl Drop for Flush<'_> {
                    fn drop(&mut self) {
                        let mut g = self.0.lock().unwrap_or_else(|e| e.into_inner());
                        g.events = O_EVENTS.with(|e| std::mem::take(&mut *e.borrow_mut()));
                        g.custom = CUSTOM.with(|c| std::mem::take(&mut *c.borrow_mut()));
                        g.fired = FAULT_FIRED.with(|c| std::mem::take(&mut *c.borrow_mut()));
                    }
                }
                RT_PROBE.with(|p| *p.borrow_mut() = Probe { script: Script::Const(true), calls: Vec::new() });
                WHEN_PROBE.with(|p| *p.borrow_mut() = Probe { script: Script::Const(true), calls: Vec::new() });
                FAULT.with(|c| c.set(Some((k, sel, inv))));
                let _flush = Flush(&seen);
                match sel {
                    RtSel::Generic => tx_run(&*O_RT, which, inv),
                    RtSel::Slot => tx_run(O_SLOT.get(), which, inv),
                }
            })
        })
        .join()
        .is_err()
    });
    let seen = seen.into_inner().unwrap_or_else(|e| e.into_inner());
    let inv_text = inv.to_string();
    let (events, nested_events): (Vec<Captured>, Vec<Captured>) =
        seen.events.into_iter().partition(|e| e.get("evt_kind") == Some("span") && e.get("inv") == Some(inv_text.as_str()));
    let (custom_calls, nested_custom): (Vec<(u32, String)>, Vec<(u32, String)>) = seen.custom.into_iter().partition(|(i, _)| *i == inv);
    let label = match seen.fired.first() {
        Some(who) => format!("{}-{}-on-completion", who, k.verb()),
        None => format!("armed-{}-not-reached", k.verb()),
    };
    let sig_tail = format!("{}:observed-on-thread-exit:{}:{}:{:?}", label, sel.name(), form, exit);
    let case = || {
        json!({"part": "macro-fault-thread-exit", "site": which, "form": form, "exit": format!("{:?}", exit), "runtime": sel.name(), "fault": format!("{:?}", k),
               "fault_fired_in": seen.fired.clone(), "thread_died": died, "invocation": inv,
               "events": events.iter().map(|e| e.to_json()).collect::<Vec<_>>(),
               "nested_events": nested_events.iter().map(|e| e.to_json()).collect::<Vec<_>>()})
    };
    r.observe("macro-fault:thread-exit:invocations", 1);
    r.observe(&format!("macro-fault:thread-exit:{}", label), 1);
    r.observe("macro-fault:thread-exit:threads-ended-by-the-panic", died as u64);
    r.nontrivial(&("macro-fault-thread-exit", which, sel, k));
    let should_die = !seen.fired.is_empty() && k.panics();
    if died && !should_die {
        r.violation(&format!("C05:macro:unexpected-panic:{}", sig_tail), "the thread ended with a panic nothing of the monitor's raised", case());
        return;
    }
    let to_custom = matches!(exit, Exit::GCompleteWith | Exit::GWithCompletion);
    let (want_events, want_custom) = if to_custom { (0, 1) } else { (1, 0) };
    if events.len() != want_events || custom_calls.len() != want_custom {
        r.violation(
            &format!("C05:macro:{}-span-events-{}-custom-completions:enabled:{}", events.len().min(2), custom_calls.len().min(2), sig_tail),
            &format!(
                "expected {} span event(s) and {} custom completion call(s) for the one invocation on that thread, got {} and {} (the attempt that panicked counts as the completion)",
                want_events,
                want_custom,
                events.len(),
                custom_calls.len()
            ),
            case(),
        );
    }
    let reentered = !seen.fired.is_empty() && k.reenters();
    if let Some((what, text)) = judge_nested(inv, reentered, &nested_events, &nested_custom) {
        r.violation(&format!("C05:macro:{}:{}", what, sig_tail), &text, case());
    }
}

// ===========================================================================
// (f) nesting through a filtered-out span on the DEFAULT ambient context
// ===========================================================================
//
// "... and, when completed inside its frame, its ids": the one completion event of an enabled span that
// was started below a REJECTED span, which itself sits below an enabled one, on a runtime whose context
// is the real `ThreadLocalCtxt` (a generic `Runtime`, the type-erased runtime of an `AmbientSlot`, and a
// slot initialised by `emit::setup()...init_slot`). The rejected span contributes nothing: the inner span
// is in the outer enabled span's trace, its parent is the outer enabled span, its own span id is fresh,
// and the ambient properties pushed (`Frame::push`) around and between the spans are still on its event.
// (C04 judges the tree relations with its interpreter; this is the completion-event clause of C05.)

#[derive(Clone, Copy)]
struct EnWhen;

impl emit::Filter for EnWhen {
    fn matches<E: emit::event::ToEvent>(&self, evt: E) -> bool {
        evt.to_event().props().pull::<bool, _>("en") != Some(false)
    }
}

#[derive(Clone, Copy, Debug, PartialEq, Eq, Hash)]
enum NSite {
    SInfo,
    SDebug,
    SPlain,
    SWhen,
    SInfoWhen,
    SGuardDebug,
    SGuardWhen,
    AInfo,
    ADebug,
    APlain,
    AWhen,
    AGuardDebug,
    AGuardWhen,
}

const SYNC_SITES: [NSite; 7] = [NSite::SInfo, NSite::SDebug, NSite::SPlain, NSite::SWhen, NSite::SInfoWhen, NSite::SGuardDebug, NSite::SGuardWhen];
const ASYNC_SITES: [NSite; 6] = [NSite::AInfo, NSite::ADebug, NSite::APlain, NSite::AWhen, NSite::AGuardDebug, NSite::AGuardWhen];

impl NSite {
    fn name(self) -> &'static str {
        match self {
            NSite::SInfo => "n_s_info",
            NSite::SDebug => "n_s_debug",
            NSite::SPlain => "n_s_plain",
            NSite::SWhen => "n_s_when",
            NSite::SInfoWhen => "n_s_info_when",
            NSite::SGuardDebug => "n_s_guard_debug",
            NSite::SGuardWhen => "n_s_guard_when",
            NSite::AInfo => "n_a_info",
            NSite::ADebug => "n_a_debug",
            NSite::APlain => "n_a_plain",
            NSite::AWhen => "n_a_when",
            NSite::AGuardDebug => "n_a_guard_debug",
            NSite::AGuardWhen => "n_a_guard_when",
        }
    }
    fn is_async(self) -> bool {
        ASYNC_SITES.contains(&self)
    }
    fn lvl(self) -> Option<&'static str> {
        match self {
            NSite::SInfo | NSite::SInfoWhen | NSite::AInfo => Some("info"),
            NSite::SDebug | NSite::SGuardDebug | NSite::ADebug | NSite::AGuardDebug => Some("debug"),
            _ => None,
        }
    }
    fn when(self) -> bool {
        matches!(self, NSite::SWhen | NSite::SInfoWhen | NSite::SGuardWhen | NSite::AWhen | NSite::AGuardWhen)
    }
    fn guard(self) -> bool {
        matches!(self, NSite::SGuardDebug | NSite::SGuardWhen | NSite::AGuardDebug | NSite::AGuardWhen)
    }
    /// `when:` replaces the runtime's filter (C01); otherwise the runtime's `min_filter(min)` decides on
    /// the attribute's level (unleveled = the documented default, info)
    fn enabled(self, en: bool, min: &str) -> bool {
        if self.when() {
            en
        } else {
            rank(self.lvl().unwrap_or("info")) >= rank(min)
        }
    }
}

const AMB_KEYS: [&str; 3] = ["amb_a", "amb_b", "amb_c"];

#[derive(Clone, Copy, Debug, PartialEq, Eq, Hash)]
enum Link {
    Span(NSite, bool),
    /// `Frame::push(ctxt, (key, value))` around everything below
    Push(usize, u64),
    /// `Frame::push(ctxt, [(key, value), (key2, value2)])`
    Push2(usize, u64, usize, u64),
    /// an incoming trace: `Frame::push(ctxt, SpanCtxt::new(trace, None, span))`
    PushIds(u64),
}

#[derive(Clone, Copy, Debug, PartialEq, Eq, Hash)]
enum NExit {
    Normal,
    /// the innermost body panics; caught above everything
    Panic,
    /// (all-async chains) polled once, dropped while the innermost body is suspended
    Cancel,
}

#[derive(Clone, Copy, Debug, PartialEq, Eq, Hash)]
enum NRt {
    Generic,
    Slot,
    Setup,
    /// the context of the runtime is `ThreadLocalCtxt` behind the k-th forwarding wrapper of `WRAPPED_NAMES`
    Wrapped(usize),
}

impl NRt {
    fn name(self) -> &'static str {
        match self {
            NRt::Generic => "generic-runtime",
            NRt::Slot => "ambient-slot",
            NRt::Setup => "setup-init_slot",
            NRt::Wrapped(k) => WRAPPED_NAMES[k],
        }
    }
    /// `:ctxt=<wrapper>` for the signatures of the wrapped runtimes
    fn sig_suffix(self) -> String {
        match self {
            NRt::Wrapped(k) => format!(":ctxt={}", WRAPPED_NAMES[k]),
            _ => String::new(),
        }
    }
}

// --- the default context held behind the forwarding wrappers the crate offers -------------------
//
// Every `Ctxt` method must reach the `ThreadLocalCtxt` underneath (`open_root`, `open_push`,
// `open_disabled`, `enter`, `with_current`, `exit`, `close`): a wrapper that answers one of them with the
// trait's provided default instead behaves like a different context. One runtime type
// (`C = Box<dyn ErasedCtxt>`), built per worker thread, holds each wrapper (and stacks of two) as its
// erased context, so the chains of (f) run over all of them; (g) below runs a plain nesting over the
// same wrappers as the STATIC type of the runtime's context.

type DynCtxt = dyn emit::ctxt::ErasedCtxt;
type DynCtxtSS = dyn emit::ctxt::ErasedCtxt + Send + Sync;
type WRt = Runtime<TlRecorder, TlFilter, Box<DynCtxt>, FakeClock, CountingRng>;

static W_TL: std::sync::LazyLock<ThreadLocalCtxt> = std::sync::LazyLock::new(ThreadLocalCtxt::new);

const N_WRAPPED: usize = 14;
const WRAPPED_NAMES: [&str; N_WRAPPED] = [
    "Box<dyn ErasedCtxt>",
    "Arc<ThreadLocalCtxt>",
    "Box<ThreadLocalCtxt>",
    "Box<dyn ErasedCtxt + Send + Sync>",
    "Arc<dyn ErasedCtxt + Send + Sync>",
    "Arc<dyn ErasedCtxt>",
    "Option<ThreadLocalCtxt>",
    "&ThreadLocalCtxt",
    "AssertInternal<ThreadLocalCtxt>",
    "Arc<Box<ThreadLocalCtxt>>",
    "Option<Arc<dyn ErasedCtxt + Send + Sync>>",
    "Box<Arc<AssertInternal<ThreadLocalCtxt>>>",
    "Arc<Option<Box<dyn ErasedCtxt + Send + Sync>>>",
    "&Arc<ThreadLocalCtxt>",
];

fn wrapped_ctxt(k: usize) -> Box<DynCtxt> {
    use emit::runtime::AssertInternal;
    use std::sync::Arc;
    let tl = ThreadLocalCtxt::new;
    match k {
        0 => Box::new(tl()),
        1 => Box::new(Arc::new(tl())),
        2 => Box::new(Box::new(tl())),
        3 => Box::new(Box::new(tl()) as Box<DynCtxtSS>),
        4 => Box::new(Arc::new(tl()) as Arc<DynCtxtSS>),
        5 => Box::new(Arc::new(tl()) as Arc<DynCtxt>),
        6 => Box::new(Some(tl())),
        7 => Box::new(std::sync::LazyLock::force(&W_TL)),
        8 => Box::new(AssertInternal(tl())),
        9 => Box::new(Arc::new(Box::new(tl()))),
        10 => Box::new(Some(Arc::new(tl()) as Arc<DynCtxtSS>)),
        11 => Box::new(Box::new(Arc::new(AssertInternal(tl())))),
        12 => Box::new(Arc::new(Some(Box::new(tl()) as Box<DynCtxtSS>))),
        _ => {
            let leaked: &'static Arc<ThreadLocalCtxt> = Box::leak(Box::new(Arc::new(tl())));
            Box::new(leaked)
        }
    }
}

thread_local! {
    /// per worker thread: one runtime per wrapper (a `Box<dyn ErasedCtxt>` is not `Sync`)
    static W_RTS: Vec<WRt> = (0..N_WRAPPED)
        .map(|k| Runtime::build(TlRecorder, TlFilter(false), wrapped_ctxt(k), o_clock(), CountingRng::starting_at((1u64 << 41) + ((k as u64) << 34))))
        .collect();
}

#[derive(Clone, Debug, PartialEq, Eq, Hash)]
struct NestCase {
    chain: Vec<Link>,
    /// the runtime's filter is the real `emit::level::min_filter(min)`
    min: &'static str,
    exit: NExit,
    is_async: bool,
    rt: NRt,
}

thread_local! {
    /// (depth, value returned by `guard.complete()`) of the guard-form sites
    static NRET: RefCell<Vec<(u32, bool)>> = const { RefCell::new(Vec::new()) };
}

fn incoming_ids(n: u64) -> SpanCtxt {
    SpanCtxt::new(emit::TraceId::from_u128(0xabc0_0000_0000_0000_0000_0000_0000_0000u128 + n as u128 + 1), None, emit::SpanId::from_u64(0x0def_0000_0000_0000u64 + n + 1))
}

fn nest_sync<E: emit::Emitter, F: emit::Filter, C: emit::Ctxt, T: emit::Clock, R: emit::Rng>(rt: &Runtime<E, F, C, T, R>, c: &NestCase, at: usize, inv: u32) {
    let Some(link) = c.chain.get(at) else {
        if c.exit == NExit::Panic {
            panic!("boom");
        }
        return;
    };
    let depth = at as u32;
    match *link {
        Link::Push(k, v) => emit::Frame::push(rt.ctxt(), (AMB_KEYS[k], v)).call(|| nest_sync(rt, c, at + 1, inv)),
        Link::Push2(k, v, k2, v2) => emit::Frame::push(rt.ctxt(), [(AMB_KEYS[k], v), (AMB_KEYS[k2], v2)]).call(|| nest_sync(rt, c, at + 1, inv)),
        Link::PushIds(n) => emit::Frame::push(rt.ctxt(), incoming_ids(n)).call(|| nest_sync(rt, c, at + 1, inv)),
        Link::Span(site, en) => match site {
            NSite::SInfo => n_s_info(rt, c, at, inv, depth),
            NSite::SDebug => n_s_debug(rt, c, at, inv, depth),
            NSite::SPlain => n_s_plain(rt, c, at, inv, depth),
            NSite::SWhen => n_s_when(rt, c, at, inv, depth, en),
            NSite::SInfoWhen => n_s_info_when(rt, c, at, inv, depth, en),
            NSite::SGuardDebug => n_s_guard_debug(rt, c, at, inv, depth),
            NSite::SGuardWhen => n_s_guard_when(rt, c, at, inv, depth, en),
            _ => unreachable!("async site in the sync part of a chain"),
        },
    }
}

fn nest_async<'a, E: emit::Emitter, F: emit::Filter, C: emit::Ctxt, T: emit::Clock, R: emit::Rng>(
    rt: &'a Runtime<E, F, C, T, R>,
    c: &'a NestCase,
    at: usize,
    inv: u32,
) -> Pin<Box<dyn Future<Output = ()> + 'a>> {
    Box::pin(async move {
        let Some(link) = c.chain.get(at) else {
            YieldNow(false).await;
            match c.exit {
                NExit::Normal => {}
                NExit::Panic => panic!("boom"),
                NExit::Cancel => loop {
                    YieldNow(false).await;
                },
            }
            return;
        };
        let depth = at as u32;
        match *link {
            Link::Push(k, v) => emit::Frame::push(rt.ctxt(), (AMB_KEYS[k], v)).in_future(nest_async(rt, c, at + 1, inv)).await,
            Link::Push2(k, v, k2, v2) => emit::Frame::push(rt.ctxt(), [(AMB_KEYS[k], v), (AMB_KEYS[k2], v2)]).in_future(nest_async(rt, c, at + 1, inv)).await,
            Link::PushIds(n) => emit::Frame::push(rt.ctxt(), incoming_ids(n)).in_future(nest_async(rt, c, at + 1, inv)).await,
            Link::Span(site, en) => match site {
                NSite::AInfo => n_a_info(rt, c, at, inv, depth).await,
                NSite::ADebug => n_a_debug(rt, c, at, inv, depth).await,
                NSite::APlain => n_a_plain(rt, c, at, inv, depth).await,
                NSite::AWhen => n_a_when(rt, c, at, inv, depth, en).await,
                NSite::AGuardDebug => n_a_guard_debug(rt, c, at, inv, depth).await,
                NSite::AGuardWhen => n_a_guard_when(rt, c, at, inv, depth, en).await,
                // a sync span site called from inside an async span: everything below it is sync
                _ => nest_sync(rt, c, at, inv),
            },
        }
    })
}

#[emit::info_span(rt: *rt, "n_s_info {inv}", inv, depth, at_n_s_info: depth)]
fn n_s_info<E: emit::Emitter, F: emit::Filter, C: emit::Ctxt, T: emit::Clock, R: emit::Rng>(rt: &Runtime<E, F, C, T, R>, c: &NestCase, at: usize, inv: u32, depth: u32) {
    nest_sync(rt, c, at + 1, inv)
}

#[emit::debug_span(rt: *rt, "n_s_debug {inv}", inv, depth, at_n_s_debug: depth)]
fn n_s_debug<E: emit::Emitter, F: emit::Filter, C: emit::Ctxt, T: emit::Clock, R: emit::Rng>(rt: &Runtime<E, F, C, T, R>, c: &NestCase, at: usize, inv: u32, depth: u32) {
    nest_sync(rt, c, at + 1, inv)
}

#[emit::span(rt: *rt, "n_s_plain {inv}", inv, depth, at_n_s_plain: depth)]
fn n_s_plain<E: emit::Emitter, F: emit::Filter, C: emit::Ctxt, T: emit::Clock, R: emit::Rng>(rt: &Runtime<E, F, C, T, R>, c: &NestCase, at: usize, inv: u32, depth: u32) {
    nest_sync(rt, c, at + 1, inv)
}

#[emit::span(rt: *rt, when: EnWhen, "n_s_when {inv}", inv, depth, at_n_s_when: depth, en)]
fn n_s_when<E: emit::Emitter, F: emit::Filter, C: emit::Ctxt, T: emit::Clock, R: emit::Rng>(rt: &Runtime<E, F, C, T, R>, c: &NestCase, at: usize, inv: u32, depth: u32, en: bool) {
    nest_sync(rt, c, at + 1, inv)
}

#[emit::info_span(rt: *rt, when: EnWhen, "n_s_info_when {inv}", inv, depth, at_n_s_info_when: depth, en)]
fn n_s_info_when<E: emit::Emitter, F: emit::Filter, C: emit::Ctxt, T: emit::Clock, R: emit::Rng>(rt: &Runtime<E, F, C, T, R>, c: &NestCase, at: usize, inv: u32, depth: u32, en: bool) {
    nest_sync(rt, c, at + 1, inv)
}

#[emit::debug_span(rt: *rt, guard: g, "n_s_guard_debug {inv}", inv, depth, at_n_s_guard_debug: depth)]
fn n_s_guard_debug<E: emit::Emitter, F: emit::Filter, C: emit::Ctxt, T: emit::Clock, R: emit::Rng>(rt: &Runtime<E, F, C, T, R>, c: &NestCase, at: usize, inv: u32, depth: u32) {
    nest_sync(rt, c, at + 1, inv);
    let ret = g.complete();
    NRET.with(|v| v.borrow_mut().push((depth, ret)));
}

#[emit::span(rt: *rt, when: EnWhen, guard: g, "n_s_guard_when {inv}", inv, depth, at_n_s_guard_when: depth, en)]
fn n_s_guard_when<E: emit::Emitter, F: emit::Filter, C: emit::Ctxt, T: emit::Clock, R: emit::Rng>(rt: &Runtime<E, F, C, T, R>, c: &NestCase, at: usize, inv: u32, depth: u32, en: bool) {
    nest_sync(rt, c, at + 1, inv);
    let ret = g.complete();
    NRET.with(|v| v.borrow_mut().push((depth, ret)));
}

#[emit::info_span(rt: *rt, "n_a_info {inv}", inv, depth, at_n_a_info: depth)]
async fn n_a_info<E: emit::Emitter, F: emit::Filter, C: emit::Ctxt, T: emit::Clock, R: emit::Rng>(rt: &Runtime<E, F, C, T, R>, c: &NestCase, at: usize, inv: u32, depth: u32) {
    nest_async(rt, c, at + 1, inv).await
}

#[emit::debug_span(rt: *rt, "n_a_debug {inv}", inv, depth, at_n_a_debug: depth)]
async fn n_a_debug<E: emit::Emitter, F: emit::Filter, C: emit::Ctxt, T: emit::Clock, R: emit::Rng>(rt: &Runtime<E, F, C, T, R>, c: &NestCase, at: usize, inv: u32, depth: u32) {
    nest_async(rt, c, at + 1, inv).await
}

#[emit::span(rt: *rt, "n_a_plain {inv}", inv, depth, at_n_a_plain: depth)]
async fn n_a_plain<E: emit::Emitter, F: emit::Filter, C: emit::Ctxt, T: emit::Clock, R: emit::Rng>(rt: &Runtime<E, F, C, T, R>, c: &NestCase, at: usize, inv: u32, depth: u32) {
    nest_async(rt, c, at + 1, inv).await
}

#[emit::span(rt: *rt, when: EnWhen, "n_a_when {inv}", inv, depth, at_n_a_when: depth, en)]
async fn n_a_when<E: emit::Emitter, F: emit::Filter, C: emit::Ctxt, T: emit::Clock, R: emit::Rng>(rt: &Runtime<E, F, C, T, R>, c: &NestCase, at: usize, inv: u32, depth: u32, en: bool) {
    nest_async(rt, c, at + 1, inv).await
}

#[emit::debug_span(rt: *rt, guard: g, "n_a_guard_debug {inv}", inv, depth, at_n_a_guard_debug: depth)]
async fn n_a_guard_debug<E: emit::Emitter, F: emit::Filter, C: emit::Ctxt, T: emit::Clock, R: emit::Rng>(rt: &Runtime<E, F, C, T, R>, c: &NestCase, at: usize, inv: u32, depth: u32) {
    nest_async(rt, c, at + 1, inv).await;
    let ret = g.complete();
    NRET.with(|v| v.borrow_mut().push((depth, ret)));
}

#[emit::span(rt: *rt, when: EnWhen, guard: g, "n_a_guard_when {inv}", inv, depth, at_n_a_guard_when: depth, en)]
async fn n_a_guard_when<E: emit::Emitter, F: emit::Filter, C: emit::Ctxt, T: emit::Clock, R: emit::Rng>(rt: &Runtime<E, F, C, T, R>, c: &NestCase, at: usize, inv: u32, depth: u32, en: bool) {
    nest_async(rt, c, at + 1, inv).await;
    let ret = g.complete();
    NRET.with(|v| v.borrow_mut().push((depth, ret)));
}

fn nest_go<E: emit::Emitter, F: emit::Filter, C: emit::Ctxt, T: emit::Clock, R: emit::Rng>(rt: &Runtime<E, F, C, T, R>, c: &NestCase, inv: u32) -> Vec<String> {
    if c.is_async {
        match c.exit {
            NExit::Cancel => poll_then_drop(nest_async(rt, c, 0, inv), 1),
            _ => block_on(nest_async(rt, c, 0, inv)),
        }
    } else {
        nest_sync(rt, c, 0, inv)
    }
    props_of(rt.ctxt())
}

/// Run the chain; `Ok(ambient props left behind)` or the panic message. (A panic leaves through every
/// frame; the ambient context is read again afterwards.)
fn nest_run(c: &NestCase, inv: u32) -> (Result<Vec<String>, String>, Vec<String>) {
    let out = catch(|| match c.rt {
        NRt::Generic => nest_go(&*O_RT, c, inv),
        NRt::Slot => nest_go(O_SLOT.get(), c, inv),
        NRt::Setup => nest_go(N_SLOT.get(), c, inv),
        NRt::Wrapped(k) => W_RTS.with(|v| nest_go(&v[k], c, inv)),
    });
    let after = match c.rt {
        NRt::Generic => props_of(O_RT.ctxt()),
        NRt::Slot => props_of(O_SLOT.get().ctxt()),
        NRt::Setup => props_of(N_SLOT.get().ctxt()),
        NRt::Wrapped(k) => W_RTS.with(|v| props_of(v[k].ctxt())),
    };
    (out, after)
}

fn nest_rts() -> Vec<NRt> {
    if cfg!(miri) {
        vec![NRt::Generic, NRt::Slot]
    } else {
        vec![NRt::Generic, NRt::Slot, NRt::Setup]
    }
}

/// Directed cases: every (outer, middle, inner) triple of sites x runtime filter level in which the
/// outer span is enabled, the middle one rejected and the inner one enabled - bare, with ambient
/// properties pushed around the whole thing, and with pushes around and between - x exit x runtime.
fn nest_directed() -> Vec<NestCase> {
    let mut v = Vec::new();
    let mut rotate = 0usize;
    for is_async in [false, true] {
        let sites: &[NSite] = if is_async { &ASYNC_SITES } else { &SYNC_SITES };
        // (an async chain may end in sync sites)
        let inner_sites: Vec<NSite> = if is_async { ASYNC_SITES.iter().chain(SYNC_SITES[..3].iter()).copied().collect() } else { SYNC_SITES.to_vec() };
        for &outer in sites {
            for &mid in sites {
                for &inner in &inner_sites {
                    for min in ["debug", "info", "warn"] {
                        if !(outer.enabled(true, min) && !mid.enabled(false, min) && inner.enabled(true, min)) {
                            continue;
                        }
                        let (o, m, i) = (Link::Span(outer, true), Link::Span(mid, false), Link::Span(inner, true));
                        let chains: [Vec<Link>; 4] = [
                            vec![o, m, i],
                            vec![Link::Push(0, 11), o, m, i],
                            vec![Link::Push2(0, 11, 1, 22), o, Link::Push(1, 33), m, Link::Push(2, 44), i],
                            vec![Link::PushIds(7), Link::Push(2, 55), o, m, m, i],
                        ];
                        for chain in chains {
                            let exits: &[NExit] = if is_async && !inner.is_async() {
                                &[NExit::Normal, NExit::Panic]
                            } else if is_async {
                                &[NExit::Normal, NExit::Panic, NExit::Cancel]
                            } else {
                                &[NExit::Normal, NExit::Panic]
                            };
                            for &exit in exits {
                                for rt in nest_rts() {
                                    v.push(NestCase { chain: chain.clone(), min, exit, is_async, rt });
                                }
                                // ... and on one of the wrapped contexts, in rotation
                                v.push(NestCase { chain: chain.clone(), min, exit, is_async, rt: NRt::Wrapped(rotate % N_WRAPPED) });
                                rotate += 1;
                            }
                        }
                    }
                }
            }
        }
    }
    v
}

fn gen_nest(g: &mut Rng) -> NestCase {
    let is_async = g.bool();
    let min = *g.pick(&["debug", "info", "info", "warn"]);
    let n_spans = 2 + g.usize(5);
    let mut chain = Vec::new();
    if g.chance(1, 6) {
        chain.push(Link::PushIds(g.below(1000)));
    }
    let mut now_sync = !is_async;
    let mut all_async = is_async;
    for _ in 0..n_spans {
        if g.chance(1, 3) {
            chain.push(if g.bool() {
                Link::Push(g.usize(3), g.below(1000))
            } else {
                // (two different keys: which of two values for ONE key a single push keeps is C02's business)
                let k = g.usize(3);
                Link::Push2(k, g.below(1000), (k + 1 + g.usize(2)) % 3, g.below(1000))
            });
        }
        if !now_sync && g.chance(1, 6) {
            now_sync = true;
            all_async = false;
        }
        let site = if now_sync { *g.pick(&SYNC_SITES) } else { *g.pick(&ASYNC_SITES) };
        chain.push(Link::Span(site, g.chance(3, 5)));
    }
    let exit = match g.below(4) {
        0 => NExit::Panic,
        1 if all_async => NExit::Cancel,
        _ => NExit::Normal,
    };
    let rts = nest_rts();
    let rt = if g.bool() { NRt::Wrapped(g.usize(N_WRAPPED)) } else { *g.pick(&rts) };
    NestCase { chain, min, exit, is_async, rt }
}

/// What the one completion event of an enabled span of the chain must carry.
struct NestWant {
    at: usize,
    site: NSite,
    /// index (into the list of enabled spans) of the nearest enabled ancestor
    parent: Option<usize>,
    /// incoming ids in force when there is no enabled ancestor below them
    incoming: Option<u64>,
    amb: Vec<(&'static str, u64)>,
    /// `at_<site>` marks of the enabled spans above and itself
    marks: Vec<(String, u32)>,
    /// rejected spans between this span and its nearest enabled ancestor / above it without one
    rejected_between: usize,
}

fn nest_model(c: &NestCase) -> (Vec<NestWant>, Vec<(u32, bool)>) {
    let mut wants: Vec<NestWant> = Vec::new();
    let mut rets: Vec<(u32, bool)> = Vec::new();
    let mut parent: Option<usize> = None;
    let mut incoming: Option<u64> = None;
    let mut amb: Vec<(&'static str, u64)> = Vec::new();
    let mut marks: Vec<(String, u32)> = Vec::new();
    let mut rejected = 0usize;
    let set = |amb: &mut Vec<(&'static str, u64)>, k: usize, v: u64| {
        amb.retain(|(key, _)| *key != AMB_KEYS[k]);
        amb.push((AMB_KEYS[k], v));
    };
    for (at, link) in c.chain.iter().enumerate() {
        match *link {
            Link::Push(k, v) => set(&mut amb, k, v),
            Link::Push2(k, v, k2, v2) => {
                // (an array of pairs: within one push the FIRST value of a key wins)
                if k2 != k {
                    set(&mut amb, k2, v2);
                }
                set(&mut amb, k, v);
            }
            Link::PushIds(n) => {
                incoming = Some(n);
                parent = None;
            }
            Link::Span(site, en) => {
                let enabled = site.enabled(en, c.min);
                if site.guard() && c.exit == NExit::Normal {
                    rets.push((at as u32, enabled));
                }
                if !enabled {
                    rejected += 1;
                    continue;
                }
                let key = format!("at_{}", site.name());
                marks.retain(|(k, _)| *k != key);
                marks.push((key, at as u32));
                wants.push(NestWant { at, site, parent, incoming: if parent.is_none() { incoming } else { None }, amb: amb.clone(), marks: marks.clone(), rejected_between: rejected });
                parent = Some(wants.len() - 1);
                rejected = 0;
            }
        }
    }
    // guard forms record their return value after the spans below them: innermost first
    rets.reverse();
    (wants, rets)
}

fn nest_json(c: &NestCase) -> Json {
    json!({"chain": c.chain.iter().map(|l| match l {
                Link::Span(site, en) => format!("{}{} -> {}", site.name(), if site.when() { format!("(en={})", en) } else { String::new() }, if site.enabled(*en, c.min) { "enabled" } else { "REJECTED" }),
                other => format!("{:?}", other),
            }).collect::<Vec<_>>(),
           "runtime_filter": format!("min_filter({})", c.min), "exit": format!("{:?}", c.exit), "async": c.is_async, "runtime": c.rt.name()})
}

fn check_nest(r: &mut Report, c: &NestCase, seed: u64, index: u64) {
    r.eval();
    let inv = (index as u32 & 0x0fff_ffff) + 1;
    RT_PROBE.with(|p| *p.borrow_mut() = Probe { script: Script::Min(c.min), calls: Vec::new() });
    WHEN_PROBE.with(|p| *p.borrow_mut() = Probe { script: Script::Const(true), calls: Vec::new() });
    O_EVENTS.with(|e| e.borrow_mut().clear());
    NRET.with(|v| v.borrow_mut().clear());
    FAULT.with(|f| f.set(None));
    let (outcome, ambient_after) = nest_run(c, inv);
    let events = O_EVENTS.with(|e| std::mem::take(&mut *e.borrow_mut()));
    let rets = NRET.with(|v| std::mem::take(&mut *v.borrow_mut()));
    let (wants, want_rets) = nest_model(c);
    let case = || {
        json!({"part": "macro-nest", "seed": seed, "index": index, "case": nest_json(c), "invocation": inv,
               "outcome": format!("{:?}", outcome), "ambient_afterwards": ambient_after.clone(),
               "events": events.iter().map(|e| e.to_json()).collect::<Vec<_>>()})
    };
    let has_middle = wants.iter().any(|w| w.rejected_between > 0 && w.parent.is_some());
    let under_rejected_root = wants.iter().any(|w| w.rejected_between > 0 && w.parent.is_none());
    let case_class = if has_middle { "through-rejected-middle" } else if under_rejected_root { "under-rejected-root" } else { "nested-on-default-ctxt" };
    r.observe("nest:cases", 1);
    r.observe(&format!("nest:{}", case_class), 1);
    r.observe(&format!("nest:runtime:{}", c.rt.name()), 1);
    r.observe(&format!("nest:exit:{:?}:{}", c.exit, if c.is_async { "async" } else { "sync" }), 1);
    r.observe("nest:span-events", events.len() as u64);
    r.nontrivial(&("macro-nest", c));
    let sig = |class: &str, what: &str| format!("C05:macro:completed-span:{}:{}{}", class, what, c.rt.sig_suffix());
    if matches!(c.rt, NRt::Wrapped(_)) {
        r.observe("nest:on-a-wrapped-context", 1);
    }

    if outcome.is_err() != (c.exit == NExit::Panic) {
        r.violation(&sig(case_class, "unexpected-panic"), &format!("outcome {:?}", outcome), case());
        return;
    }
    // after everything the ambient context is empty again
    let left_inside = outcome.as_ref().ok().cloned().unwrap_or_default();
    if !ambient_after.is_empty() || !left_inside.is_empty() {
        r.violation(
            &sig(case_class, "ambient-context-not-empty-afterwards"),
            &format!("ambient properties left behind: {:?} / {:?}", left_inside, ambient_after),
            case(),
        );
    }
    // exactly one completion event per enabled span, none for a rejected one; innermost first
    if events.len() != wants.len() || events.iter().any(|e| e.get("evt_kind") != Some("span")) {
        r.violation(
            &sig(case_class, &format!("completion-count-{}-of-{}", events.len().min(9), wants.len())),
            &format!("{} event(s) at the emitter, the chain has {} enabled span(s)", events.len(), wants.len()),
            case(),
        );
        return;
    }
    if c.exit == NExit::Normal && rets != want_rets {
        r.violation(&sig(case_class, "complete-returned"), &format!("guard.complete() returned {:?} (depth, value), expected {:?}", rets, want_rets), case());
    }
    let ev = |i: usize| &events[wants.len() - 1 - i];
    for (i, w) in wants.iter().enumerate() {
        let e = ev(i);
        let class = if w.rejected_between > 0 && w.parent.is_some() {
            "through-rejected-middle"
        } else if w.rejected_between > 0 {
            "under-rejected-root"
        } else {
            "nested-on-default-ctxt"
        };
        r.observe(&format!("nest:completion-events-judged:{}", class), 1);
        let mut wrong: Vec<(&str, String)> = Vec::new();
        let want_name = format!("{} {{inv}}", w.site.name());
        if e.get("span_name") != Some(want_name.as_str()) {
            wrong.push(("wrong-name-or-order", format!("span_name={:?}, expected {:?} (completions arrive innermost first)", e.get("span_name"), want_name)));
        }
        if e.get("inv") != Some(inv.to_string().as_str()) || e.get("depth") != Some(w.at.to_string().as_str()) {
            wrong.push(("own-props-missing", format!("inv={:?} depth={:?}, the span's own properties are inv={} depth={}", e.get("inv"), e.get("depth"), inv, w.at)));
        }
        // ids
        let (t, s, p) = (e.get("trace_id"), e.get("span_id"), e.get("span_parent"));
        if t.map(|t| t.len()) != Some(32) || s.map(|s| s.len()) != Some(16) {
            wrong.push(("ids-missing", format!("trace_id={:?} span_id={:?}", t, s)));
        }
        let incoming = w.incoming.map(incoming_ids);
        let (want_trace, want_parent): (Option<String>, Option<String>) = match (w.parent, &incoming) {
            (Some(pi), _) => (ev(pi).get("trace_id").map(|x| x.to_string()), ev(pi).get("span_id").map(|x| x.to_string())),
            (None, Some(ids)) => (ids.trace_id().map(|x| x.to_string()), ids.span_id().map(|x| x.to_string())),
            (None, None) => (None, None),
        };
        if (w.parent.is_some() || incoming.is_some()) && t.map(|x| x.to_string()) != want_trace {
            wrong.push(("wrong-trace-id", format!("trace_id={:?}, the enclosing enabled span / incoming context is in trace {:?}", t, want_trace)));
        }
        if p.map(|x| x.to_string()) != want_parent {
            wrong.push(("wrong-span-parent", format!("span_parent={:?}, expected {:?} (the nearest ENABLED span above; a rejected span contributes nothing)", p, want_parent)));
        }
        for (j, _) in wants.iter().enumerate() {
            if j != i && ev(j).get("span_id") == s {
                wrong.push(("span-id-not-fresh", format!("span_id={:?} is also the span id of the span at depth {}", s, wants[j].at)));
            }
            if j != i && w.parent.is_none() && incoming.is_none() && wants[j].parent.is_none() && ev(j).get("trace_id") == t {
                wrong.push(("trace-id-not-fresh", format!("trace_id={:?} is shared by two spans that have no enabled span above them", t)));
            }
        }
        // ambient properties pushed around / between the spans above
        for (k, v) in &w.amb {
            if e.get(k) != Some(v.to_string().as_str()) {
                wrong.push(("ambient-props-missing", format!("{}={:?}, pushed as {} above this span", k, e.get(k), v)));
            }
        }
        for k in AMB_KEYS {
            if !w.amb.iter().any(|(key, _)| *key == k) && e.get(k).is_some() {
                wrong.push(("ambient-props-stray", format!("{}={:?} was never pushed above this span", k, e.get(k))));
            }
        }
        // marks of the enabled spans above (and its own); a rejected span leaves none
        let got_marks: Vec<(String, String)> = {
            let mut seen: Vec<(String, String)> = Vec::new();
            for (k, v, _) in &e.props {
                if k.starts_with("at_") && !seen.iter().any(|(sk, _)| sk == k) {
                    seen.push((k.clone(), v.clone()));
                }
            }
            seen.sort();
            seen
        };
        let mut want_marks: Vec<(String, String)> = w.marks.iter().map(|(k, d)| (k.clone(), d.to_string())).collect();
        want_marks.sort();
        if got_marks != want_marks {
            wrong.push(("wrong-frames-above", format!("the properties of the span frames visible on the event are {:?}, expected {:?} (enabled spans above + itself)", got_marks, want_marks)));
        }
        // lvl / err per exit path
        let (want_lvl, want_err) = match c.exit {
            NExit::Panic => (Some("error"), Some("panicked")),
            _ => (w.site.lvl(), None),
        };
        if e.get("lvl") != want_lvl || e.get("err") != want_err {
            wrong.push(("wrong-lvl-or-err", format!("lvl={:?} err={:?}, the exit path calls for {:?} / {:?}", e.get("lvl"), e.get("err"), want_lvl, want_err)));
        }
        if !matches!(e.extent, Some((Some(s), end)) if s < end) {
            wrong.push(("wrong-extent", format!("extent={:?} (expected a range)", e.extent)));
        }
        for (what, text) in wrong {
            r.violation(&sig(class, what), &format!("span at depth {} ({}): {}", w.at, w.site.name(), text), case());
        }
    }
    if r.wants_sample() && has_middle && index % 997 == 0 {
        r.sample(|| case());
    }
}

// ===========================================================================
// (g) a plain nesting on runtimes whose context TYPE is a forwarding wrapper
// ===========================================================================
//
// outer (info_span) -> [Frame::push(amb_a)] -> mid (span, guard:) -> inner (debug_span), sync and async,
// normal / innermost panic, on `Runtime<.., C, ..>` with C = each forwarding wrapper over
// `ThreadLocalCtxt` (here the macros call the wrapper's own `Ctxt` impl with concrete props types).
// Per completion event: fresh span id, `span_parent` = the enclosing span, the root's trace id, the
// frames of the spans above and the ambient property pushed above it; empty context afterwards.

type PRt<C> = Runtime<TlRecorder, TlFilter, C, FakeClock, CountingRng>;

#[emit::info_span(rt: *rt, "p_outer {inv}", inv, at_p_outer: 0)]
fn p_outer<C: emit::Ctxt>(rt: &PRt<C>, inv: u32, panics: bool, push: bool) {
    if push {
        emit::Frame::push(rt.ctxt(), ("amb_a", inv as u64 + 5)).call(|| p_mid(rt, inv, panics))
    } else {
        p_mid(rt, inv, panics)
    }
}

#[emit::span(rt: *rt, guard: g, "p_mid {inv}", inv, at_p_mid: 1)]
fn p_mid<C: emit::Ctxt>(rt: &PRt<C>, inv: u32, panics: bool) {
    p_inner(rt, inv, panics);
    let _ = g.complete();
}

#[emit::debug_span(rt: *rt, "p_inner {inv}", inv, at_p_inner: 2)]
fn p_inner<C: emit::Ctxt>(rt: &PRt<C>, inv: u32, panics: bool) {
    if panics {
        panic!("boom");
    }
}

#[emit::info_span(rt: *rt, "p_outer {inv}", inv, at_p_outer: 0)]
async fn p_a_outer<C: emit::Ctxt>(rt: &PRt<C>, inv: u32, panics: bool, push: bool) {
    YieldNow(false).await;
    if push {
        emit::Frame::push(rt.ctxt(), ("amb_a", inv as u64 + 5)).in_future(p_a_mid(rt, inv, panics)).await
    } else {
        p_a_mid(rt, inv, panics).await
    }
}

#[emit::span(rt: *rt, guard: g, "p_mid {inv}", inv, at_p_mid: 1)]
async fn p_a_mid<C: emit::Ctxt>(rt: &PRt<C>, inv: u32, panics: bool) {
    p_a_inner(rt, inv, panics).await;
    YieldNow(false).await;
    let _ = g.complete();
}

#[emit::debug_span(rt: *rt, "p_inner {inv}", inv, at_p_inner: 2)]
async fn p_a_inner<C: emit::Ctxt>(rt: &PRt<C>, inv: u32, panics: bool) {
    YieldNow(false).await;
    if panics {
        panic!("boom");
    }
}

macro_rules! typed_rts {
    ($( $k:literal, $st:ident, $name:literal, $C:ty, $ctxt:expr; )*) => {
        $( static $st: std::sync::LazyLock<PRt<$C>> = std::sync::LazyLock::new(|| {
            Runtime::build(TlRecorder, TlFilter(false), $ctxt, o_clock(), CountingRng::starting_at((1u64 << 42) + ($k << 34)))
        }); )*
        const TYPED_NAMES: &[&str] = &[$($name),*];
        fn check_plain_at(r: &mut Report, k: usize, inv: u32, panics: bool, push: bool, is_async: bool) {
            match k {
                $( $k => check_plain(r, &*$st, $name, inv, panics, push, is_async), )*
                _ => unreachable!(),
            }
        }
    };
}

typed_rts! {
    0, P_ARC, "Arc<ThreadLocalCtxt>", std::sync::Arc<ThreadLocalCtxt>, std::sync::Arc::new(ThreadLocalCtxt::new());
    1, P_BOX, "Box<ThreadLocalCtxt>", Box<ThreadLocalCtxt>, Box::new(ThreadLocalCtxt::new());
    2, P_BOXDYN, "Box<dyn ErasedCtxt + Send + Sync>", Box<DynCtxtSS>, Box::new(ThreadLocalCtxt::new()) as Box<DynCtxtSS>;
    3, P_ARCDYN, "Arc<dyn ErasedCtxt + Send + Sync>", std::sync::Arc<DynCtxtSS>, std::sync::Arc::new(ThreadLocalCtxt::new()) as std::sync::Arc<DynCtxtSS>;
    4, P_OPTION, "Option<ThreadLocalCtxt>", Option<ThreadLocalCtxt>, Some(ThreadLocalCtxt::new());
    5, P_REF, "&ThreadLocalCtxt", &'static ThreadLocalCtxt, std::sync::LazyLock::force(&W_TL);
    6, P_ASSERT, "AssertInternal<ThreadLocalCtxt>", emit::runtime::AssertInternal<ThreadLocalCtxt>, emit::runtime::AssertInternal(ThreadLocalCtxt::new());
    7, P_ARC_BOX, "Arc<Box<ThreadLocalCtxt>>", std::sync::Arc<Box<ThreadLocalCtxt>>, std::sync::Arc::new(Box::new(ThreadLocalCtxt::new()));
    8, P_OPTION_ARCDYN, "Option<Arc<dyn ErasedCtxt + Send + Sync>>", Option<std::sync::Arc<DynCtxtSS>>, Some(std::sync::Arc::new(ThreadLocalCtxt::new()) as std::sync::Arc<DynCtxtSS>);
}

fn check_plain<C: emit::Ctxt>(r: &mut Report, rt: &PRt<C>, name: &str, inv: u32, panics: bool, push: bool, is_async: bool) {
    r.eval();
    RT_PROBE.with(|p| *p.borrow_mut() = Probe { script: Script::Const(true), calls: Vec::new() });
    WHEN_PROBE.with(|p| *p.borrow_mut() = Probe { script: Script::Const(true), calls: Vec::new() });
    O_EVENTS.with(|e| e.borrow_mut().clear());
    FAULT.with(|f| f.set(None));
    let outcome = catch(|| {
        if is_async {
            block_on(p_a_outer(rt, inv, panics, push))
        } else {
            p_outer(rt, inv, panics, push)
        }
    });
    let after = props_of(rt.ctxt());
    let events = O_EVENTS.with(|e| std::mem::take(&mut *e.borrow_mut()));
    let case = || {
        json!({"part": "plain-nest-wrapped", "ctxt": name, "invocation": inv, "panics": panics, "push": push, "async": is_async,
               "outcome": format!("{:?}", outcome), "ambient_afterwards": after.clone(), "events": events.iter().map(|e| e.to_json()).collect::<Vec<_>>()})
    };
    r.observe("plain-nest:cases", 1);
    r.observe(&format!("plain-nest:ctxt:{}", name), 1);
    r.observe("plain-nest:span-events", events.len() as u64);
    r.nontrivial(&("plain-nest-wrapped", name, panics, push, is_async));
    let sig = |what: &str| format!("C05:macro:completed-span:nested-on-wrapped-ctxt:{}:ctxt={}", what, name);
    if outcome.is_err() != panics {
        r.violation(&sig("unexpected-panic"), &format!("outcome {:?}", outcome), case());
        return;
    }
    if !after.is_empty() {
        r.violation(&sig("ambient-context-not-empty-afterwards"), &format!("ambient properties left behind: {:?}", after), case());
    }
    if events.len() != 3 || events.iter().any(|e| e.get("evt_kind") != Some("span")) {
        r.violation(&sig(&format!("completion-count-{}-of-3", events.len().min(9))), &format!("{} event(s) at the emitter for three nested enabled spans", events.len()), case());
        return;
    }
    // completions arrive innermost first
    let (inner, mid, outer) = (&events[0], &events[1], &events[2]);
    let mut wrong: Vec<(&str, String)> = Vec::new();
    let amb = (inv as u64 + 5).to_string();
    let rows: [(&Captured, &str, Option<&Captured>, Option<&str>, &[&str], bool); 3] = [
        (outer, "p_outer {inv}", None, Some("info"), &["at_p_outer"], false),
        (mid, "p_mid {inv}", Some(outer), None, &["at_p_mid", "at_p_outer"], push),
        (inner, "p_inner {inv}", Some(mid), Some("debug"), &["at_p_inner", "at_p_mid", "at_p_outer"], push),
    ];
    for (e, want_name, parent, lvl, marks, has_amb) in rows {
        if e.get("span_name") != Some(want_name) || e.get("inv") != Some(inv.to_string().as_str()) {
            wrong.push(("wrong-name-or-order", format!("span_name={:?} inv={:?}, expected {:?} of invocation {}", e.get("span_name"), e.get("inv"), want_name, inv)));
        }
        let (t, sid, p) = (e.get("trace_id"), e.get("span_id"), e.get("span_parent"));
        if t.map(|t| t.len()) != Some(32) || sid.map(|x| x.len()) != Some(16) {
            wrong.push(("ids-missing", format!("{}: trace_id={:?} span_id={:?}", want_name, t, sid)));
        }
        if t != outer.get("trace_id") {
            wrong.push(("wrong-trace-id", format!("{}: trace_id={:?}, the root span is in trace {:?}", want_name, t, outer.get("trace_id"))));
        }
        if p != parent.and_then(|x| x.get("span_id")) {
            wrong.push(("wrong-span-parent", format!("{}: span_parent={:?}, the enclosing span has span_id={:?}", want_name, p, parent.and_then(|x| x.get("span_id")))));
        }
        if events.iter().filter(|o| o.get("span_id") == sid).count() != 1 {
            wrong.push(("span-id-not-fresh", format!("{}: span_id={:?} is also the span id of another span of the nesting", want_name, sid)));
        }
        if e.get("amb_a") != if has_amb { Some(amb.as_str()) } else { None } {
            wrong.push((if has_amb { "ambient-props-missing" } else { "ambient-props-stray" }, format!("{}: amb_a={:?} (pushed between outer and mid: {})", want_name, e.get("amb_a"), push)));
        }
        let mut got: Vec<&str> = Vec::new();
        for (k, _, _) in &e.props {
            if k.starts_with("at_") && !got.contains(&k.as_str()) {
                got.push(k.as_str());
            }
        }
        got.sort();
        if got != marks {
            wrong.push(("wrong-frames-above", format!("{}: span frames visible on the event {:?}, expected {:?}", want_name, got, marks)));
        }
        let (want_lvl, want_err) = if panics { (Some("error"), Some("panicked")) } else { (lvl, None) };
        if e.get("lvl") != want_lvl || e.get("err") != want_err {
            wrong.push(("wrong-lvl-or-err", format!("{}: lvl={:?} err={:?}, the exit path calls for {:?} / {:?}", want_name, e.get("lvl"), e.get("err"), want_lvl, want_err)));
        }
        if !matches!(e.extent, Some((Some(s), end)) if s < end) {
            wrong.push(("wrong-extent", format!("{}: extent={:?} (expected a range)", want_name, e.extent)));
        }
    }
    for (what, text) in wrong {
        r.violation(&sig(what), &text, case());
    }
}

fn plain_jobs() -> Vec<(usize, bool, bool, bool)> {
    let mut v = Vec::new();
    for k in 0..TYPED_NAMES.len() {
        for panics in [false, true] {
            for push in [false, true] {
                for is_async in [false, true] {
                    v.push((k, panics, push, is_async));
                }
            }
        }
    }
    v
}

fn main() {
    let args = Args::parse();
    let mut r = Report::new(
        "C05",
        &args,
        "one evaluation = one guard program (a seeded SpanGuard operation sequence under a filter and a clock script) or one invocation of a hand-written macro form with one exit path; \
         non-trivial = distinct (filter outcome, in/out of frame, operation-kind sequence, clock-movement sequence) tuples with at least one builder operation, plus distinct (form, exit path, enabled) triples, \
         plus distinct guard programs with a panicking / re-entrant completion, distinct (site, exit path, runtime, fault of the emitter / custom completion) tuples and distinct chains of nested span sites (sites, enabled / rejected, pushes, exit, runtime incl. the wrapped contexts), \
         distinct (wrapper type, exit, push, sync / async) plain nestings, and distinct builder sequences on the default completion object x hand-over x exit",
    );

    init_once_runtimes();

    if let Some(path) = &args.replay {
        let case = load_replay(path);
        if case.get("part").and_then(|v| v.as_str()) == Some("macro-filter-once") {
            let text = |k: &str| case.get(k).and_then(|v| v.as_str()).unwrap_or("").to_string();
            let all = once_forms();
            for (fi, exit, fs, sel) in once_jobs(&all) {
                let f = &all[fi];
                if f.name == text("form")
                    && format!("{:?}", exit) == text("exit")
                    && sel.name() == text("runtime")
                    && fs.kind == text("filter_kind")
                    && format!("{:?}", fs.rt) == text("runtime_filter")
                    && (!f.when || format!("{:?}", fs.when) == text("when_filter"))
                {
                    check_once(&mut r, f, exit, fs, sel, 1);
                    check_once(&mut r, f, exit, fs, sel, 2);
                }
            }
        } else if case.get("part").and_then(|v| v.as_str()) == Some("guard-fault") {
            let seed = case.get("seed").and_then(|v| v.as_u64()).unwrap_or(args.seed);
            let index = case.get("index").and_then(|v| v.as_u64()).unwrap_or(0);
            let p = gen_fault_program(&mut Rng::stream(seed, &[5, 2, index]));
            check_fault_program(&mut r, &p, seed, index);
            check_fault_program(&mut r, &p, seed, index);
        } else if case.get("part").and_then(|v| v.as_str()) == Some("completion-default") {
            let seed = case.get("seed").and_then(|v| v.as_u64()).unwrap_or(args.seed);
            let index = case.get("index").and_then(|v| v.as_u64()).unwrap_or(0);
            let c = gen_dcase(&mut Rng::stream(seed, &[5, 6, index]));
            check_dcase(&mut r, &c, seed, index);
            check_dcase(&mut r, &c, seed, index);
        } else if case.get("part").and_then(|v| v.as_str()) == Some("macro-nest") {
            let seed = case.get("seed").and_then(|v| v.as_u64()).unwrap_or(args.seed);
            let index = case.get("index").and_then(|v| v.as_u64()).unwrap_or(0);
            let directed = nest_directed();
            let c = match directed.get(index as usize) {
                Some(c) => c.clone(),
                None => gen_nest(&mut Rng::stream(seed, &[5, 4, index])),
            };
            check_nest(&mut r, &c, seed, index);
            check_nest(&mut r, &c, seed, index);
        } else if case.get("part").and_then(|v| v.as_str()) == Some("plain-nest-wrapped") {
            let name = case.get("ctxt").and_then(|v| v.as_str()).unwrap_or("");
            let flag = |k: &str| case.get(k).and_then(|v| v.as_bool()).unwrap_or(false);
            for (k, panics, push, is_async) in plain_jobs() {
                if TYPED_NAMES[k] == name && panics == flag("panics") && push == flag("push") && is_async == flag("async") {
                    check_plain_at(&mut r, k, 1, panics, push, is_async);
                    check_plain_at(&mut r, k, 2, panics, push, is_async);
                }
            }
        } else if case.get("part").and_then(|v| v.as_str()) == Some("macro-fault") {
            let text = |k: &str| case.get(k).and_then(|v| v.as_str()).unwrap_or("").to_string();
            let all = once_forms();
            for (fi, exit, fs, sel, k) in fault_jobs(&all) {
                let f = &all[fi];
                if f.name == text("form") && format!("{:?}", exit) == text("exit") && sel.name() == text("runtime") && fs.kind == text("filter_kind") && format!("{:?}", k) == text("fault") {
                    check_once_with(&mut r, f, exit, fs, sel, 1, Some(k));
                    check_once_with(&mut r, f, exit, fs, sel, 2, Some(k));
                }
            }
        } else if case.get("part").and_then(|v| v.as_str()) == Some("macro-fault-thread-exit") {
            let text = |k: &str| case.get(k).and_then(|v| v.as_str()).unwrap_or("").to_string();
            let site = case.get("site").and_then(|v| v.as_u64()).unwrap_or(0) as usize;
            for (which, sel, k) in thread_exit_jobs() {
                if which == site && sel.name() == text("runtime") && format!("{:?}", k) == text("fault") {
                    check_thread_exit(&mut r, which, sel, k, 1);
                    check_thread_exit(&mut r, which, sel, k, 2);
                }
            }
        } else if case.get("part").and_then(|v| v.as_str()) == Some("macro") {
            let name = case.get("form").and_then(|v| v.as_str()).unwrap_or("");
            let exit = case.get("exit").and_then(|v| v.as_str()).unwrap_or("");
            let en = case.get("enabled").and_then(|v| v.as_bool()).unwrap_or(true);
            for f in forms() {
                if f.name == name {
                    for e in f.exits {
                        if format!("{:?}", e) == exit {
                            let want = case.get("clock").and_then(|v| v.as_str()).map(|s| s.to_string());
                            for m in CLOCK_MODES {
                                if want.is_none() || want.as_deref() == Some(&format!("{:?}", m)) {
                                    check_invocation(&mut r, &f, *e, en, m, 1);
                                    check_invocation(&mut r, &f, *e, en, m, 2);
                                }
                            }
                        }
                    }
                }
            }
        } else {
            let seed = case.get("seed").and_then(|v| v.as_u64()).unwrap_or(args.seed);
            let index = case.get("index").and_then(|v| v.as_u64()).unwrap_or(0);
            let mut g = Rng::stream(seed, &[5, 1, index]);
            let p = gen_program(&mut g);
            check_program(&mut r, &p, seed, index);
            check_program(&mut r, &p, seed, index);
        }
        std::process::exit(r.finish());
    }

    let seed = args.seed;

    // (a) guard programs
    // Miri interprets ~1000x slower: a fixed small number there, whatever the scale
    let n = if cfg!(miri) { args.get_u64("programs", 60) } else { args.n(1_000_000, 10_000_000) };
    par_cases(&mut r, &args, n, |i, r| {
        let mut g = Rng::stream(seed, &[5, 1, i]);
        let p = gen_program(&mut g);
        check_program(r, &p, seed, i);
    });

    // (a') the default completion object through its own builders
    let nd0 = if cfg!(miri) { args.get_u64("default_builder_programs", 24) } else { args.n(30_000, 300_000) };
    par_cases(&mut r, &args, nd0, |i, r| {
        let c = gen_dcase(&mut Rng::stream(seed, &[5, 6, i]));
        check_dcase(r, &c, seed, i);
    });

    // (b) macro forms: every form x exit path x enabled, a few rounds (ids / clocks differ per round)
    let all = forms();
    let mut jobs: Vec<(usize, Exit, bool, ClockMode)> = Vec::new();
    for (fi, f) in all.iter().enumerate() {
        for e in f.exits {
            for m in CLOCK_MODES {
                jobs.push((fi, *e, true, m));
            }
            jobs.push((fi, *e, false, ClockMode::Steady));
            jobs.push((fi, *e, false, ClockMode::StartMissing));
        }
    }
    let rounds = if cfg!(miri) { 1 } else { args.n(6, 60) };
    let total = jobs.len() as u64 * rounds;
    par_cases(&mut r, &args, total, |i, r| {
        // under Miri (a third of a second per invocation) every run takes a quarter of the sites,
        // rotating with the seed, so a few Miri seeds cover all of them
        if cfg!(miri) && (i + seed) % 4 != 0 {
            return;
        }
        let (fi, exit, en, mode) = jobs[(i % jobs.len() as u64) as usize];
        check_invocation(r, &all[fi], exit, en, mode, i as u32 + 1);
    });
    r.set("macro_forms", json!(all.iter().map(|f| f.name).collect::<Vec<_>>()));
    r.set("macro_sites_exit_paths", json!(jobs.len()));

    // (c) the filter is asked once: every Result-aware form x exit path x filter setting x runtime
    let oall = once_forms();
    let ojobs = once_jobs(&oall);
    let orounds = if cfg!(miri) { 1 } else { args.n(3, 30) };
    par_cases(&mut r, &args, ojobs.len() as u64 * orounds, |i, r| {
        // under Miri a sixteenth of the sites per run, rotating with the seed
        if cfg!(miri) && (i + seed) % 16 != 0 {
            return;
        }
        let (fi, exit, fs, sel) = ojobs[(i % ojobs.len() as u64) as usize];
        check_once(r, &oall[fi], exit, fs, sel, i as u32 + 1);
    });
    r.set("filter_once_forms", json!(oall.iter().map(|f| f.name).collect::<Vec<_>>()));
    r.set("filter_once_sites_exit_paths_filters_runtimes", json!(ojobs.len()));

    // (d) guard programs whose completions panic (once) or re-enter
    let nd = if cfg!(miri) { args.get_u64("fault_programs", 24) } else { args.n(60_000, 600_000) };
    par_cases(&mut r, &args, nd, |i, r| {
        let mut g = Rng::stream(seed, &[5, 2, i]);
        let p = gen_fault_program(&mut g);
        check_fault_program(r, &p, seed, i);
    });

    // (e) macro sites whose emitter / custom completion panics (once) or re-enters while the span is being completed
    let fjobs = fault_jobs(&oall);
    let frounds = if cfg!(miri) { 1 } else { args.n(2, 20) };
    par_cases(&mut r, &args, fjobs.len() as u64 * frounds, |i, r| {
        // under Miri a 96th of the sites per run, rotating with the seed
        if cfg!(miri) && (i + seed) % 96 != 0 {
            return;
        }
        let (fi, exit, fs, sel, k) = fjobs[(i % fjobs.len() as u64) as usize];
        check_once_with(r, &oall[fi], exit, fs, sel, i as u32 + 1, Some(k));
    });
    let txjobs = thread_exit_jobs();
    let txrounds = if cfg!(miri) { 1 } else { args.n(3, 30) };
    par_cases(&mut r, &args, txjobs.len() as u64 * txrounds, |i, r| {
        if cfg!(miri) && (i + seed) % 14 != 0 {
            return;
        }
        let (which, sel, k) = txjobs[(i % txjobs.len() as u64) as usize];
        check_thread_exit(r, which, sel, k, i as u32 + 1);
    });
    r.set("fault_sites_exit_paths_filters_runtimes_faults", json!(fjobs.len()));

    // (f) nesting through filtered-out spans on the default ambient context
    let directed = nest_directed();
    let nrand = if cfg!(miri) { args.get_u64("nest_programs", 12) } else { args.n(40_000, 400_000) };
    par_cases(&mut r, &args, directed.len() as u64 + nrand, |i, r| {
        let c = match directed.get(i as usize) {
            Some(c) => {
                // under Miri a 256th of the directed cases per run, rotating with the seed
                if cfg!(miri) && (i + seed) % 256 != 0 {
                    return;
                }
                c.clone()
            }
            None => gen_nest(&mut Rng::stream(seed, &[5, 4, i])),
        };
        check_nest(r, &c, seed, i);
    });
    r.set("nest_directed_cases", json!(directed.len()));

    // (g) a plain nesting on runtimes whose context type is a forwarding wrapper
    let pjobs = plain_jobs();
    let prounds = if cfg!(miri) { 1 } else { args.n(20, 200) };
    par_cases(&mut r, &args, pjobs.len() as u64 * prounds, |i, r| {
        // under Miri an eighth of the jobs per run, rotating with the seed
        if cfg!(miri) && (i + seed) % 8 != 0 {
            return;
        }
        let (k, panics, push, is_async) = pjobs[(i % pjobs.len() as u64) as usize];
        check_plain_at(r, k, i as u32 + 1, panics, push, is_async);
    });
    r.set("wrapped_ctxt_types", json!(TYPED_NAMES));
    r.set("wrapped_ctxts_behind_box_dyn", json!(WRAPPED_NAMES));

    std::process::exit(r.finish());
}
