/*!
C05 — each enabled, started span completes exactly once; disabled spans never do.

Two workloads, one oracle idea (count completions per guard / invocation and compare with a model
written from the statement):

(a) **guard programs** — seeded operation sequences on a real `SpanGuard` whose type parameters are
    erased (`P = &dyn ErasedProps`, `F = &dyn ErasedCompletion`), so any order and multiplicity of
    `with_mdl / with_name / with_props / map_props / with_completion / start / complete /
    complete_with / drop` type-checks. The guard is enabled or disabled by a filter, runs inside or
    outside its frame, and the clock advances, goes backwards or returns `None` between any two
    operations. Completion objects are a hand-written recording `Completion`, the real
    `completion::from_fn`, the real `completion::default(emitter, ctxt)` and the real
    `completion::from_emitter(emitter)`; every call is attributed to the object that received it.

    Model per guard: `enabled` = what the filter answered; `started` = `start` ran; the terminal
    operation completes iff `enabled && started`, on the *current* default completion
    (`complete`, drop) or on the one passed (`complete_with`), exactly once, and nothing else is
    ever called; `complete*` return exactly that; `is_enabled()` equals `enabled` after every
    operation; the completed span has the last-set module / name / props, kind = span, and — when
    the clock gave a reading at `start` and at completion — extent = range(those two readings);
    the real default completion inside the frame carries the guard's ids.

(b) **macro forms** — hand-written uses of `#[emit::span]` (and `#[emit::info_span]` …,
    `emit::new_span!`) on sync / async fns and blocks, with `guard:`, `ok_lvl`, `err_lvl`, `err`,
    `panic_lvl`, whose bodies leave by falling off the end, early `return`, `?` or a (caught) panic.
    Per invocation: exactly one span event iff the filter passed (zero otherwise), tagged with the
    invocation id, with `lvl` / `err` as the exit path dictates (panic adds `err` + the panic level),
    kind = span, a range extent and trace / span ids.

CANCELLATION is an exit path of its own for every async form (all `#[span]`-family attributes,
`guard:`, `ok_lvl` / `err_lvl` / `err`, `new_span!` + `frame.in_future`, and an outer span awaiting
a NESTED async span): the future is polled k = 0, 1, 2 (3) times by hand and dropped while
suspended. k = 0: nothing was started, nothing completes. Otherwise exactly one span event per
started span, through the default completion: the span's name, kind, its own properties, its own
trace / span ids (nested: parent = the outer span, completed first), the attribute's level, no
`err`, extent = reading at start .. reading at the drop. Signatures `C05:macro:completed-span:cancelled:*`.

Extents: with a reading at start and one at completion the extent must be exactly that range, for
guards and for every macro form. With an INTERMITTENT clock (scripted often: a reading at start but
none at completion, or the other way round) no extent is accepted, and an extent that is there all
the same - a point, or anything built from one reading - is a violation wherever the documented
anchor applies (`Timer::extent` returns `None` when the clock has no reading): guard programs and
macro forms that complete through `completion::Default` (drop, plain `#[span]`, panic, explicit
`complete()`). NOT judged: the Result-aware completions (`ok_lvl` / `err_lvl` / `err`). On the
unchanged tree they were observed to emit a POINT extent from a third reading taken at emission
(they pass the runtime's clock to `emit_core::emit`, which fills in a missing extent); the
statement only speaks about the case where the clock provides its readings, so this is counted
(`macro:result-completion-extent-with-missing-reading:point|none`) and left alone.

(c) **the filter is asked ONCE, at the start** (`mod once`). Whether a span is enabled is decided when
    it is started; an enabled, started span completes exactly once however it exits, so the
    completion is not subject to the filter again - for `Ok` / `Err` returns through the
    Result-aware completions (`ok_lvl` / `err_lvl` / `err`) as for plain, panic and cancellation
    exits. The sites of (b) never met a filter that ACCEPTED the span at the start and would REJECT
    the completed span's event if it were shown to it: here every Result-aware shape (Ok, early Ok,
    early Err, `?`, tail Err, with and without an `err:` mapper, panic, cancellation; sync + async;
    `#[emit::span]` and the level-named attributes) runs under
      * `rt-min-level`: the runtime's filter is the real `emit::level::min_filter(m)`, m = every
        level - the start is judged at the attribute's level (unleveled = the default, info), the
        completion carries `lvl` = `ok_lvl` / `err_lvl` (e.g. min info, `ok_lvl: Debug`);
      * `rt-budget`: a stateful runtime filter that says yes to its first k answers only (k = 0, 1, 2);
      * `when-over-rt`: a call-site `when:` filter that enables what the runtime's own filter
        rejects, and the reverse (C01: `when:` replaces the runtime filter);
      * `when-min-level` / `when-budget`: the same two in the `when:` position over a runtime filter
        that rejects everything;
    on a generic `Runtime<..>` and on the type-erased runtime of an `AmbientSlot`. Plain and `guard:`
    forms run under the same filters as controls (`guard:` cannot be combined with `ok_lvl` /
    `err_lvl` / `err`: the macro rejects it). Expectation per invocation: enabled = what the deciding
    filter (the `when:` filter if there is one, else the runtime's) answers to the span at its START
    level; exactly one span event iff enabled (zero otherwise, also when the completion's level alone
    would pass), with `lvl` / `err` per exit path, the span's name / properties / ids and a range
    extent. Signatures `C05:macro:<n>-span-events-<c>-custom-completions:<enabled|disabled>:filter-<kind>:<runtime>:<form>:<exit>`.
    The number of times each filter was asked is counted in the evidence, not judged.
*/

#![cfg_attr(miri, feature(stmt_expr_attributes, proc_macro_hygiene))]

use std::{
    cell::RefCell,
    error::Error,
    fmt,
    future::Future,
    ops::ControlFlow,
    pin::Pin,
    task::{Context, Poll, Waker},
};

use emit::{
    filter,
    platform::thread_local_ctxt::ThreadLocalCtxt,
    props::ErasedProps,
    runtime::{AmbientSlot, Runtime},
    span::{
        completion::{self, Completion, ErasedCompletion},
        Span, SpanGuard,
    },
    Path, Props, SpanCtxt, Str, Value,
};
use vcommon::{
    rec::{Captured, CountingRng, FakeClock, Recorder},
    *,
};

// ===========================================================================
// (a) guard programs
// ===========================================================================

const MDLS: [&str; 4] = ["m0", "m1::sub", "m2", "other::deep::mdl"];
const NAMES: [&str; 4] = ["n0", "name one", "n2", "{tpl} like"];
const KEYS: [&str; 5] = ["a", "b", "c", "user", "count"];

struct PropSet(Vec<(&'static str, u64)>);

impl Props for PropSet {
    fn for_each<'kv, F: FnMut(Str<'kv>, Value<'kv>) -> ControlFlow<()>>(&'kv self, mut for_each: F) -> ControlFlow<()> {
        for (k, v) in &self.0 {
            for_each(Str::new(k), Value::from(*v))?;
        }
        ControlFlow::Continue(())
    }
}

#[derive(Clone, Debug, PartialEq, Eq, Hash)]
enum Op {
    WithMdl(usize),
    WithName(usize),
    WithProps(usize),
    /// `map_props(|p| p)` / `map_props(|_| other)`
    MapProps(Option<usize>),
    WithCompletion(usize),
    Start,
    // terminal
    Complete,
    CompleteWith(usize),
    Drop,
}

impl Op {
    fn name(&self) -> &'static str {
        match self {
            Op::WithMdl(_) => "with_mdl",
            Op::WithName(_) => "with_name",
            Op::WithProps(_) => "with_props",
            Op::MapProps(None) => "map_props-identity",
            Op::MapProps(Some(_)) => "map_props-replace",
            Op::WithCompletion(_) => "with_completion",
            Op::Start => "start",
            Op::Complete => "complete",
            Op::CompleteWith(_) => "complete_with",
            Op::Drop => "drop",
        }
    }
}

#[derive(Clone, Debug, PartialEq, Eq, Hash)]
enum Tick {
    Forward(u64),
    Backward(u64),
    Same,
    Unavailable,
}

#[derive(Clone, Debug, PartialEq, Eq, Hash)]
enum FilterKind {
    Scripted(bool),
    /// enabled iff the span's initial name is NAMES[i]
    NameIs(usize),
}

#[derive(Clone, Debug)]
struct Program {
    filter: FilterKind,
    in_frame: bool,
    mdl0: usize,
    name0: usize,
    props0: usize,
    completion0: usize,
    /// clock movement applied *before* each op
    ops: Vec<(Tick, Op)>,
    prop_sets: Vec<Vec<(&'static str, u64)>>,
}

const N_COMPLETIONS: usize = 4;
const COMPLETION_NAMES: [&str; N_COMPLETIONS] = ["recording-impl", "completion::from_fn", "completion::default", "completion::from_emitter"];

fn gen_program(g: &mut Rng) -> Program {
    let n_sets = 2 + g.usize(3);
    let prop_sets = (0..n_sets)
        .map(|_| {
            let n = g.usize(4);
            let mut keys: Vec<&'static str> = KEYS.to_vec();
            g.shuffle(&mut keys);
            keys.truncate(n);
            keys.into_iter().map(|k| (k, g.below(1000))).collect()
        })
        .collect::<Vec<_>>();
    let name0 = g.usize(NAMES.len());
    let filter = match g.below(5) {
        0 | 1 => FilterKind::Scripted(true),
        2 => FilterKind::Scripted(false),
        _ => FilterKind::NameIs(if g.bool() { name0 } else { g.usize(NAMES.len()) }),
    };
    // profiles: how likely a start is, so "never started" and "started several times" both occur
    let p_start = *g.pick(&[0u64, 2, 5, 9]);
    let len = g.usize(9);
    let tick = |g: &mut Rng| match g.below(8) {
        0..=3 => Tick::Forward(1 + g.below(1_000_000)),
        4 => Tick::Backward(1 + g.below(1_000_000)),
        5 => Tick::Same,
        _ => Tick::Unavailable,
    };
    let mut ops = Vec::new();
    for _ in 0..len {
        let op = if g.chance(p_start, 16) {
            Op::Start
        } else {
            match g.below(6) {
                0 => Op::WithMdl(g.usize(MDLS.len())),
                1 => Op::WithName(g.usize(NAMES.len())),
                2 => Op::WithProps(g.usize(n_sets)),
                3 => Op::MapProps(if g.bool() { Some(g.usize(n_sets)) } else { None }),
                4 => Op::WithCompletion(g.usize(N_COMPLETIONS)),
                _ => Op::Start,
            }
        };
        ops.push((tick(g), op));
    }
    let terminal = match g.below(3) {
        0 => Op::Complete,
        1 => Op::CompleteWith(g.usize(N_COMPLETIONS)),
        _ => Op::Drop,
    };
    ops.push((tick(g), terminal));
    Program {
        filter,
        in_frame: g.chance(3, 4),
        mdl0: g.usize(MDLS.len()),
        name0,
        props0: g.usize(n_sets),
        completion0: g.usize(N_COMPLETIONS),
        ops: intermittent(g, ops),
        prop_sets,
    }
}

/// Half of the programs get an INTERMITTENT clock on purpose: a reading at the first `start` but
/// none at the terminal operation, or none at the first `start` but one at the terminal operation.
fn intermittent(g: &mut Rng, mut ops: Vec<(Tick, Op)>) -> Vec<(Tick, Op)> {
    let shape = g.below(4);
    if shape >= 2 {
        return ops;
    }
    let last = ops.len() - 1;
    let first_start = ops.iter().position(|(_, o)| *o == Op::Start);
    // (without a start there is no start reading to lose; leave the script alone)
    if let Some(st) = first_start {
        let available = |g: &mut Rng| Tick::Forward(1 + g.below(1_000_000));
        if shape == 0 {
            ops[st].0 = Tick::Unavailable;
            ops[last].0 = available(g);
        } else {
            ops[st].0 = available(g);
            ops[last].0 = Tick::Unavailable;
        }
    }
    ops
}

fn program_json(p: &Program) -> Json {
    json!({
        "filter": format!("{:?}", p.filter),
        "in_frame": p.in_frame,
        "mdl0": MDLS[p.mdl0], "name0": NAMES[p.name0], "props0": p.props0,
        "completion0": COMPLETION_NAMES[p.completion0],
        "ops": p.ops.iter().map(|(t, o)| format!("{:?}; {:?}", t, o)).collect::<Vec<_>>(),
        "prop_sets": p.prop_sets.iter().map(|s| s.iter().map(|(k, v)| json!([k, v])).collect::<Vec<_>>()).collect::<Vec<_>>(),
    })
}

/// One call received by a completion object.
#[derive(Clone, Debug)]
struct Call {
    by: usize,
    cap: Captured,
}

struct RecordingCompletion<'l> {
    id: usize,
    log: &'l RefCell<Vec<Call>>,
}

impl<'l> Completion for RecordingCompletion<'l> {
    fn complete<P: Props>(&self, span: Span<P>) {
        use emit::event::ToEvent;
        let cap = Captured::of(&span.to_event());
        self.log.borrow_mut().push(Call { by: self.id, cap });
    }
}

/// What the run of one program showed.
struct GuardRun {
    calls: Vec<Call>,
    /// after each non-terminal op: is_enabled()
    enabled_after: Vec<bool>,
    enabled_at_new: bool,
    returned: Option<bool>,
    /// ambient ids read inside the frame (None when run outside)
    ids_in_frame: Option<SpanCtxt>,
    map_props_saw: Vec<(usize, Vec<(String, String)>)>,
    /// clock readings as the model computes them: (at op index) value or None
    readings: Vec<Option<u64>>,
}

type Guard<'a> = SpanGuard<'static, FakeClock, &'a dyn ErasedProps, &'a dyn ErasedCompletion>;

fn run_ops<'a>(
    guard: Guard<'a>,
    p: &Program,
    sets: &'a [PropSet],
    completions: &[&'a dyn ErasedCompletion; N_COMPLETIONS],
    clock: &FakeClock,
    ctxt: &ThreadLocalCtxt,
    run: &mut GuardRun,
    in_frame: bool,
) {
    let mut guard: Option<Guard<'a>> = Some(guard);
    {
        if in_frame {
            run.ids_in_frame = Some(SpanCtxt::current(ctxt));
        }
        let mut now: u64 = clock.get();
        for (idx, (tick, op)) in p.ops.iter().enumerate() {
            match tick {
                Tick::Forward(d) => {
                    now += d;
                    clock.set_none(false);
                    clock.set(now);
                    run.readings.push(Some(now));
                }
                Tick::Backward(d) => {
                    now -= d;
                    clock.set_none(false);
                    clock.set(now);
                    run.readings.push(Some(now));
                }
                Tick::Same => {
                    clock.set_none(false);
                    run.readings.push(Some(now));
                }
                Tick::Unavailable => {
                    clock.set_none(true);
                    run.readings.push(None);
                }
            }
            let g = guard.take().expect("guard alive until the terminal op");
            match op {
                Op::WithMdl(i) => guard = Some(g.with_mdl(Path::new_raw(MDLS[*i]))),
                Op::WithName(i) => guard = Some(g.with_name(NAMES[*i])),
                Op::WithProps(i) => guard = Some(g.with_props(&sets[*i] as &dyn ErasedProps)),
                Op::MapProps(to) => {
                    let saw = &mut run.map_props_saw;
                    guard = Some(g.map_props(|old: &dyn ErasedProps| {
                        let mut v = Vec::new();
                        let _ = old.for_each(|k, val| {
                            v.push((k.get().to_string(), val.to_string()));
                            ControlFlow::Continue(())
                        });
                        saw.push((idx, v));
                        match to {
                            Some(i) => &sets[*i] as &dyn ErasedProps,
                            None => old,
                        }
                    }));
                }
                Op::WithCompletion(c) => guard = Some(g.with_completion(completions[*c])),
                Op::Start => {
                    let mut g = g;
                    g.start();
                    guard = Some(g);
                }
                Op::Complete => run.returned = Some(g.complete()),
                Op::CompleteWith(c) => run.returned = Some(g.complete_with(completions[*c])),
                Op::Drop => drop(g),
            }
            if let Some(g) = &guard {
                run.enabled_after.push(g.is_enabled());
            }
        }
        drop(guard);
    }
}

fn run_program(p: &Program) -> GuardRun {
    let ctxt = ThreadLocalCtxt::shared();
    let rng = CountingRng::new();
    let clock = FakeClock::new(1_000_000_000_000);
    let log: RefCell<Vec<Call>> = RefCell::new(Vec::new());
    let rec_default = Recorder::new();
    let rec_emitter = Recorder::new();

    let sets: Vec<PropSet> = p.prop_sets.iter().map(|s| PropSet(s.clone())).collect();
    let c0 = RecordingCompletion { id: 0, log: &log };
    let c1 = completion::from_fn(|span: Span<&dyn ErasedProps>| {
        use emit::event::ToEvent;
        let cap = Captured::of(&span.to_event());
        log.borrow_mut().push(Call { by: 1, cap });
    });
    let c2 = completion::default(rec_default.clone(), &ctxt);
    let c3 = completion::from_emitter(rec_emitter.clone());
    let completions: [&dyn ErasedCompletion; N_COMPLETIONS] = [&c0, &c1, &c2, &c3];

    let name0 = NAMES[p.name0];
    let enabled_by_filter = match p.filter {
        FilterKind::Scripted(b) => b,
        FilterKind::NameIs(i) => NAMES[i] == name0,
    };
    let filter_kind = p.filter.clone();
    let the_filter = filter::from_fn(move |evt| match filter_kind {
        FilterKind::Scripted(b) => b,
        FilterKind::NameIs(i) => evt.props().pull::<Str, _>("span_name").map(|n| n == NAMES[i]).unwrap_or(false),
    });
    let _ = enabled_by_filter;

    let (guard, frame): (Guard, _) = SpanGuard::new(
        &the_filter,
        &ctxt,
        clock.clone(),
        &rng,
        completions[p.completion0],
        ("ctxt_prop", 7),
        Path::new_raw(MDLS[p.mdl0]),
        name0,
        &sets[p.props0] as &dyn ErasedProps,
    );

    let mut run = GuardRun {
        calls: Vec::new(),
        enabled_after: Vec::new(),
        enabled_at_new: guard.is_enabled(),
        returned: None,
        ids_in_frame: None,
        map_props_saw: Vec::new(),
        readings: Vec::new(),
    };

    if p.in_frame {
        frame.call(|| run_ops(guard, p, &sets, &completions, &clock, &ctxt, &mut run, true));
    } else {
        drop(frame);
        run_ops(guard, p, &sets, &completions, &clock, &ctxt, &mut run, false);
    }
    clock.set_none(false);

    run.calls = log.into_inner();
    for cap in rec_default.take() {
        run.calls.push(Call { by: 2, cap });
    }
    for cap in rec_emitter.take() {
        run.calls.push(Call { by: 3, cap });
    }
    run
}

fn check_program(r: &mut Report, p: &Program, seed: u64, index: u64) {
    r.eval();
    let case = || json!({"part": "guard", "seed": seed, "index": index, "program": program_json(p)});
    let run = match catch(|| run_program(p)) {
        Ok(run) => run,
        Err(msg) => {
            r.violation("C05:guard:panic", &format!("the guard program panicked: {}", msg), case());
            return;
        }
    };

    // ---- the model ----
    let enabled = match p.filter {
        FilterKind::Scripted(b) => b,
        FilterKind::NameIs(i) => i == p.name0,
    };
    let mut started = false;
    let mut start_reading: Option<u64> = None;
    let (mut mdl, mut name, mut props, mut completion) = (p.mdl0, p.name0, p.props0, p.completion0);
    let mut with_completion_on_disabled = false;
    let mut expected_map_props: Vec<(usize, usize)> = Vec::new(); // (op idx, prop set it must see)
    let mut terminal = "";
    let mut completes_on: Option<usize> = None;
    let mut end_reading: Option<u64> = None;
    for (idx, (_, op)) in p.ops.iter().enumerate() {
        match op {
            Op::WithMdl(i) => mdl = *i,
            Op::WithName(i) => name = *i,
            Op::WithProps(i) => props = *i,
            Op::MapProps(to) => {
                expected_map_props.push((idx, props));
                if let Some(i) = to {
                    props = *i;
                }
            }
            Op::WithCompletion(c) => {
                completion = *c;
                if !enabled {
                    with_completion_on_disabled = true;
                }
            }
            Op::Start => {
                if !started {
                    started = true;
                    start_reading = run.readings[idx];
                }
            }
            Op::Complete | Op::Drop => {
                terminal = op.name();
                end_reading = run.readings[idx];
                if enabled && started {
                    completes_on = Some(completion);
                }
            }
            Op::CompleteWith(c) => {
                terminal = op.name();
                end_reading = run.readings[idx];
                if enabled && started {
                    completes_on = Some(*c);
                }
            }
        }
    }

    let class = format!(
        "{}:{}:{}",
        if enabled { "enabled" } else { "disabled" },
        if started { "started" } else { "never-started" },
        terminal
    );
    r.observe(&format!("guards:{}", class), 1);
    if with_completion_on_disabled {
        r.observe("guards:with_completion-on-disabled-guard", 1);
    }
    r.observe("completion-calls", run.calls.len() as u64);
    r.observe("is_enabled-reads", run.enabled_after.len() as u64 + 1);

    // ---- compare ----
    let ops_sig: Vec<&str> = p.ops.iter().map(|(_, o)| o.name()).collect();
    let has_builder = p.ops.iter().any(|(_, o)| !matches!(o, Op::Start | Op::Complete | Op::CompleteWith(_) | Op::Drop));
    if has_builder {
        let ticks: Vec<u8> = p
            .ops
            .iter()
            .map(|(t, _)| match t {
                Tick::Forward(_) => 0u8,
                Tick::Backward(_) => 1,
                Tick::Same => 2,
                Tick::Unavailable => 3,
            })
            .collect();
        r.nontrivial(&("guard", enabled, p.in_frame, &ops_sig, ticks));
    }

    if run.enabled_at_new != enabled || run.enabled_after.iter().any(|e| *e != enabled) {
        let after: Vec<&str> = p
            .ops
            .iter()
            .zip(run.enabled_after.iter())
            .filter(|(_, e)| **e != enabled)
            .map(|((_, o), _)| o.name())
            .collect();
        r.violation(
            &format!(
                "C05:guard:is_enabled-inconsistent:filter-{}:after-{}",
                if enabled { "passed" } else { "rejected" },
                after.first().copied().unwrap_or("new")
            ),
            &format!(
                "the filter answered {} but is_enabled() was {} at new and {:?} after the operations",
                enabled, run.enabled_at_new, run.enabled_after
            ),
            case(),
        );
    }

    let n = run.calls.len();
    match completes_on {
        None => {
            if n != 0 {
                let why = if !enabled { "filtered-out" } else { "never-started" };
                let by: Vec<&str> = run.calls.iter().map(|c| COMPLETION_NAMES[c.by]).collect();
                r.violation(
                    &format!(
                        "C05:guard:completed-but-{}:{}{}",
                        why,
                        terminal,
                        if with_completion_on_disabled { ":after-with_completion" } else { "" }
                    ),
                    &format!("a {} guard completed {} time(s) (on {:?})", why, n, by),
                    case(),
                );
            }
        }
        Some(want) => {
            if n != 1 {
                let by: Vec<&str> = run.calls.iter().map(|c| COMPLETION_NAMES[c.by]).collect();
                r.violation(
                    &format!("C05:guard:completed-{}-times:{}", n.min(2), terminal),
                    &format!("an enabled, started guard completed {} times (on {:?}), expected once on {}", n, by, COMPLETION_NAMES[want]),
                    case(),
                );
            }
            if let Some(call) = run.calls.first() {
                if call.by != want {
                    r.violation(
                        &format!("C05:guard:wrong-completion-object:{}", terminal),
                        &format!("completed on {} but the current completion is {}", COMPLETION_NAMES[call.by], COMPLETION_NAMES[want]),
                        case(),
                    );
                }
                let cap = &call.cap;
                let want_props: Vec<(String, String)> = p.prop_sets[props].iter().map(|(k, v)| (k.to_string(), v.to_string())).collect();
                let got_user: Vec<(String, String)> = cap
                    .props
                    .iter()
                    .filter(|(k, _, _)| KEYS.contains(&k.as_str()))
                    .map(|(k, v, _)| (k.clone(), v.clone()))
                    .collect();
                if cap.mdl != MDLS[mdl] {
                    r.violation("C05:guard:completed-span:wrong-module", &format!("module {:?}, last set {:?}", cap.mdl, MDLS[mdl]), case());
                }
                if cap.get("span_name") != Some(NAMES[name]) {
                    r.violation(
                        "C05:guard:completed-span:wrong-name",
                        &format!("span_name {:?}, last set {:?}", cap.get("span_name"), NAMES[name]),
                        case(),
                    );
                }
                if cap.get("evt_kind") != Some("span") {
                    r.violation("C05:guard:completed-span:kind-not-span", &format!("evt_kind {:?}", cap.get("evt_kind")), case());
                }
                if got_user != want_props {
                    r.violation(
                        "C05:guard:completed-span:wrong-props",
                        &format!("props {:?}, last set {:?}", got_user, want_props),
                        case(),
                    );
                }
                if let (Some(s), Some(e)) = (start_reading, end_reading) {
                    r.observe("extents-checked", 1);
                    if cap.extent != Some((Some(s), e)) {
                        r.violation(
                            &format!(
                                "C05:guard:completed-span:wrong-extent:{}",
                                if e < s { "clock-went-backwards" } else { "clock-forward" }
                            ),
                            &format!("extent {:?}, expected range {}..{} (reading at start .. reading at completion)", cap.extent, s, e),
                            case(),
                        );
                    }
                } else {
                    // a reading is missing: no extent is fine (`Timer::extent` documents `None`), but an
                    // extent that IS there cannot be "from the reading at start to the reading at
                    // completion" - it was made up from one reading (or none)
                    let which = match (start_reading, end_reading) {
                        (None, Some(_)) => "start-missing",
                        (Some(_), None) => "end-missing",
                        _ => "start-and-end-missing",
                    };
                    if which != "start-and-end-missing" {
                        r.observe("guard:intermittent-clock-cases-judged", 1);
                    }
                    r.observe(&format!("guard:extent-judged-with-{}", which), 1);
                    if cap.extent.is_some() {
                        r.violation(
                            &format!("C05:guard:completed-span:extent-from-missing-reading:{}", which),
                            &format!(
                                "the clock gave {:?} at start and {:?} at completion, yet the completed span carries the extent {:?} (on {})",
                                start_reading, end_reading, cap.extent, COMPLETION_NAMES[call.by]
                            ),
                            case(),
                        );
                    }
                }
                if call.by == 2 && p.in_frame {
                    // the real default completion, inside the frame: ids of the guard
                    let ids = run.ids_in_frame.unwrap_or(SpanCtxt::empty());
                    let t = ids.trace_id().map(|t| t.to_string());
                    let s = ids.span_id().map(|t| t.to_string());
                    r.observe("default-completions-in-frame", 1);
                    if t.is_none() || s.is_none() || cap.get("trace_id") != t.as_deref() || cap.get("span_id") != s.as_deref() || cap.get("ctxt_prop") != Some("7") {
                        r.violation(
                            "C05:guard:default-completion-in-frame-without-ids",
                            &format!(
                                "span event completed inside its frame carries trace_id={:?} span_id={:?} ctxt_prop={:?}; the frame's ids are {:?}/{:?}",
                                cap.get("trace_id"),
                                cap.get("span_id"),
                                cap.get("ctxt_prop"),
                                t,
                                s
                            ),
                            case(),
                        );
                    }
                }
            }
        }
    }
    if let Some(ret) = run.returned {
        if ret != completes_on.is_some() {
            r.violation(
                &format!(
                    "C05:guard:{}-returned-{}:model-{}:completion-calls-{}",
                    terminal,
                    ret,
                    if completes_on.is_some() { "completes" } else { "does-not-complete" },
                    n.min(2)
                ),
                &format!("{} returned {} but the model says completed={} ({} completion calls)", terminal, ret, completes_on.is_some(), n),
                case(),
            );
        }
    }
    // map_props must be handed the current props (state is carried through the builders)
    for (idx, set) in expected_map_props {
        let want: Vec<(String, String)> = p.prop_sets[set].iter().map(|(k, v)| (k.to_string(), v.to_string())).collect();
        match run.map_props_saw.iter().find(|(i, _)| *i == idx) {
            Some((_, got)) if *got == want => {}
            other => r.violation(
                "C05:guard:map_props-not-given-current-props",
                &format!("map_props at op {} was given {:?}, current props are {:?}", idx, other.map(|o| &o.1), want),
                case(),
            ),
        }
    }
    if r.wants_sample() && has_builder && completes_on.is_some() && index % 11 == 0 {
        let calls = n;
        r.sample(|| json!({"part": "guard", "class": class, "completion_calls": calls, "program": program_json(p)}));
    }
}

// ===========================================================================
// (b) macro forms
// ===========================================================================

type Rt = Runtime<Recorder, filter::FromFn, ThreadLocalCtxt, ScriptClock, CountingRng>;

/// How the clock of a macro-form invocation behaves, read by read (1st read = `start`, 2nd = the
/// timer's reading at completion, later ones = whoever else asks).
#[derive(Clone, Copy, Debug, PartialEq, Eq, Hash)]
enum ClockMode {
    Steady,
    /// no reading at start, readings afterwards
    StartMissing,
    /// a reading at start, none from then on
    EndMissing,
    /// a reading at start, none at completion, readings again afterwards
    EndMissingThenBack,
    Never,
}

const CLOCK_MODES: [ClockMode; 5] = [
    ClockMode::Steady,
    ClockMode::StartMissing,
    ClockMode::EndMissing,
    ClockMode::EndMissingThenBack,
    ClockMode::Never,
];

/// A clock that follows a `ClockMode` and remembers every reading it handed out.
#[derive(Clone)]
struct ScriptClock {
    mode: ClockMode,
    inner: FakeClock,
    log: std::sync::Arc<std::sync::Mutex<Vec<Option<u64>>>>,
}

impl emit::Clock for ScriptClock {
    fn now(&self) -> Option<emit::Timestamp> {
        let mut log = self.log.lock().unwrap();
        let k = log.len();
        let available = match self.mode {
            ClockMode::Steady => true,
            ClockMode::StartMissing => k != 0,
            ClockMode::EndMissing => k == 0,
            ClockMode::EndMissingThenBack => k != 1,
            ClockMode::Never => false,
        };
        let reading = if available { self.inner.now() } else { None };
        log.push(reading.as_ref().map(vcommon::rec::nanos_of));
        reading
    }
}

fn en_filter(evt: emit::Event<&dyn ErasedProps>) -> bool {
    evt.props().pull::<bool, _>("en") != Some(false)
}

fn new_rt(mode: ClockMode) -> (Rt, Recorder, ScriptClock) {
    let rec = Recorder::new();
    let inner = FakeClock::new(1_700_000_000_000_000_000);
    inner.set_step(1_000);
    let clock = ScriptClock {
        mode,
        inner,
        log: Default::default(),
    };
    (
        Runtime::build(rec.clone(), filter::FromFn::new(en_filter), ThreadLocalCtxt::shared(), clock.clone(), CountingRng::new()),
        rec,
        clock,
    )
}

#[derive(Debug)]
struct MyErr(&'static str);

impl fmt::Display for MyErr {
    fn fmt(&self, f: &mut fmt::Formatter) -> fmt::Result {
        write!(f, "my error: {}", self.0)
    }
}

impl Error for MyErr {}

#[derive(Clone, Copy, Debug, PartialEq, Eq, Hash)]
enum Exit {
    /// fall off the end (Ok for Result forms)
    Normal,
    /// `return` in the middle (Ok for Result forms)
    Early,
    /// `return Err(..)` in the middle
    EarlyErr,
    /// `fails()?`
    Question,
    /// tail expression is an `Err`
    TailErr,
    Panic,
    // guard forms
    GComplete,
    GCompleteWith,
    GDropEarly,
    GRename,
    GWithCompletion,
    /// CANCELLATION (async forms): the future is polled this many times by hand and then dropped
    /// (0 = never polled). If it finishes before that, the invocation counts as a normal one.
    Cancel(u8),
}

thread_local! {
    /// did the future of a `Cancel(k)` invocation finish before it could be dropped
    static FINISHED: std::cell::Cell<bool> = const { std::cell::Cell::new(false) };
}

/// Poll `f` up to `k` times, then drop it wherever it is suspended.
fn poll_then_drop<F: Future>(f: F, k: u8) {
    let mut f = std::pin::pin!(f);
    let mut cx = Context::from_waker(Waker::noop());
    let mut finished = false;
    for _ in 0..k {
        if f.as_mut().poll(&mut cx).is_ready() {
            finished = true;
            break;
        }
    }
    FINISHED.with(|c| c.set(finished));
    // (the pinned future is dropped here, at the end of its scope)
}

fn fails(msg: &'static str) -> Result<u32, MyErr> {
    Err(MyErr(msg))
}

fn block_on<F: Future>(f: F) -> F::Output {
    let mut f = std::pin::pin!(f);
    let mut cx = Context::from_waker(Waker::noop());
    for _ in 0..1_000_000 {
        if let Poll::Ready(v) = f.as_mut().poll(&mut cx) {
            return v;
        }
    }
    panic!("c05 executor: poll budget exhausted");
}

struct YieldNow(bool);

impl Future for YieldNow {
    type Output = ();
    fn poll(mut self: Pin<&mut Self>, cx: &mut Context<'_>) -> Poll<()> {
        if self.0 {
            Poll::Ready(())
        } else {
            self.0 = true;
            cx.waker().wake_by_ref();
            Poll::Pending
        }
    }
}

thread_local! {
    /// calls received by custom completions in the guard forms: (invocation, span_name)
    static CUSTOM: RefCell<Vec<(u32, String)>> = const { RefCell::new(Vec::new()) };
    /// value returned by `guard.complete()` in the guard forms
    static RETURNED: RefCell<Vec<(u32, bool)>> = const { RefCell::new(Vec::new()) };
}

fn custom(inv: u32) -> impl Completion {
    completion::from_fn(move |span: Span<&dyn ErasedProps>| {
        CUSTOM.with(|c| c.borrow_mut().push((inv, span.name().to_string())));
    })
}

// --- plain bodies (no Result) ------------------------------------------------

fn plain_body(exit: Exit) -> u32 {
    match exit {
        Exit::Panic => panic!("boom"),
        _ => 7,
    }
}

macro_rules! plain_exit {
    ($exit:expr) => {
        if $exit == Exit::Early {
            return 1;
        }
        if $exit == Exit::Panic {
            panic!("boom");
        }
    };
}

macro_rules! result_exit {
    ($exit:expr) => {
        if $exit == Exit::Early {
            return Ok(1);
        }
        if $exit == Exit::EarlyErr {
            return Err(MyErr("early"));
        }
        if $exit == Exit::Question {
            let v = fails("question")?;
            return Ok(v);
        }
        if $exit == Exit::Panic {
            panic!("boom");
        }
    };
}

/// The tail expression of the Result forms.
macro_rules! result_tail {
    ($exit:expr) => {
        if $exit == Exit::TailErr {
            fails("tail")
        } else {
            Ok(0)
        }
    };
}

#[emit::span(rt: *rt, "sync_plain {inv}", inv, en)]
fn sync_plain(rt: &Rt, inv: u32, en: bool, exit: Exit) -> u32 {
    plain_exit!(exit);
    0
}

#[emit::span(rt: *rt, "async_plain {inv}", inv, en)]
async fn async_plain(rt: &Rt, inv: u32, en: bool, exit: Exit) -> u32 {
    YieldNow(false).await;
    plain_exit!(exit);
    YieldNow(false).await;
    0
}

#[emit::debug_span(rt: *rt, "sync_debug {inv}", inv, en)]
fn sync_debug(rt: &Rt, inv: u32, en: bool, exit: Exit) -> u32 {
    plain_exit!(exit);
    0
}

#[emit::info_span(rt: *rt, "sync_info {inv}", inv, en)]
fn sync_info(rt: &Rt, inv: u32, en: bool, exit: Exit) -> u32 {
    plain_exit!(exit);
    0
}

#[emit::warn_span(rt: *rt, "async_warn {inv}", inv, en)]
async fn async_warn(rt: &Rt, inv: u32, en: bool, exit: Exit) -> u32 {
    plain_exit!(exit);
    YieldNow(false).await;
    0
}

#[emit::error_span(rt: *rt, "sync_error {inv}", inv, en)]
fn sync_error(rt: &Rt, inv: u32, en: bool, exit: Exit) -> u32 {
    plain_exit!(exit);
    0
}

#[emit::span(rt: *rt, panic_lvl: emit::Level::Warn, "sync_panic_lvl {inv}", inv, en)]
fn sync_panic_lvl(rt: &Rt, inv: u32, en: bool, exit: Exit) -> u32 {
    plain_exit!(exit);
    0
}

#[emit::info_span(rt: *rt, panic_lvl: "debug", "async_info_panic_lvl {inv}", inv, en)]
async fn async_info_panic_lvl(rt: &Rt, inv: u32, en: bool, exit: Exit) -> u32 {
    YieldNow(false).await;
    plain_exit!(exit);
    0
}

/// A plain span around a fn that returns a Result: the Err is *not* looked at.
#[emit::span(rt: *rt, "sync_plain_result {inv}", inv, en)]
fn sync_plain_result(rt: &Rt, inv: u32, en: bool, exit: Exit) -> Result<u32, MyErr> {
    result_exit!(exit);
    result_tail!(exit)
}

// --- Result-aware forms ---------------------------------------------------------

#[emit::span(rt: *rt, ok_lvl: emit::Level::Info, "sync_ok_lvl {inv}", inv, en)]
fn sync_ok_lvl(rt: &Rt, inv: u32, en: bool, exit: Exit) -> Result<u32, MyErr> {
    result_exit!(exit);
    result_tail!(exit)
}

#[emit::span(rt: *rt, err_lvl: emit::Level::Warn, "sync_err_lvl {inv}", inv, en)]
fn sync_err_lvl(rt: &Rt, inv: u32, en: bool, exit: Exit) -> Result<u32, MyErr> {
    result_exit!(exit);
    result_tail!(exit)
}

#[emit::span(rt: *rt, ok_lvl: "debug", err_lvl: "warn", panic_lvl: "info", "sync_all_lvls {inv}", inv, en)]
fn sync_all_lvls(rt: &Rt, inv: u32, en: bool, exit: Exit) -> Result<u32, MyErr> {
    result_exit!(exit);
    result_tail!(exit)
}

#[emit::span(rt: *rt, ok_lvl: emit::Level::Debug, "async_ok_lvl {inv}", inv, en)]
async fn async_ok_lvl(rt: &Rt, inv: u32, en: bool, exit: Exit) -> Result<u32, MyErr> {
    YieldNow(false).await;
    result_exit!(exit);
    YieldNow(false).await;
    result_tail!(exit)
}

#[emit::info_span(rt: *rt, err_lvl: emit::Level::Error, "async_info_err_lvl {inv}", inv, en)]
async fn async_info_err_lvl(rt: &Rt, inv: u32, en: bool, exit: Exit) -> Result<u32, MyErr> {
    result_exit!(exit);
    YieldNow(false).await;
    result_tail!(exit)
}

#[emit::info_span(rt: *rt, ok_lvl: emit::Level::Debug, "sync_info_ok_lvl {inv}", inv, en)]
fn sync_info_ok_lvl(rt: &Rt, inv: u32, en: bool, exit: Exit) -> Result<u32, MyErr> {
    result_exit!(exit);
    result_tail!(exit)
}

#[emit::span(rt: *rt, err: (|_| "mapped"), "sync_err_mapper {inv}", inv, en)]
fn sync_err_mapper(rt: &Rt, inv: u32, en: bool, exit: Exit) -> Result<u32, MyErr> {
    result_exit!(exit);
    result_tail!(exit)
}

fn as_dyn(e: &MyErr) -> &(dyn Error + 'static) {
    e
}

#[emit::span(rt: *rt, err_lvl: "warn", err: as_dyn, "async_err_mapper {inv}", inv, en)]
async fn async_err_mapper(rt: &Rt, inv: u32, en: bool, exit: Exit) -> Result<u32, MyErr> {
    YieldNow(false).await;
    result_exit!(exit);
    result_tail!(exit)
}

// --- guard forms -----------------------------------------------------------------

macro_rules! guard_body {
    ($g:ident, $inv:expr, $exit:expr) => {
        match $exit {
            Exit::GComplete => {
                let ret = $g.complete();
                RETURNED.with(|r| r.borrow_mut().push(($inv, ret)));
            }
            Exit::GCompleteWith => {
                let ret = $g.complete_with(custom($inv));
                RETURNED.with(|r| r.borrow_mut().push(($inv, ret)));
            }
            Exit::GDropEarly => {
                drop($g);
            }
            Exit::GRename => {
                let g2 = $g.with_name("renamed").with_props(("extra", 1));
                drop(g2);
            }
            Exit::GWithCompletion => {
                let g2 = $g.with_completion(custom($inv));
                let _keep = g2;
            }
            Exit::Panic => {
                let _keep = $g;
                panic!("boom");
            }
            Exit::Early => {
                let _keep = $g;
                return 1;
            }
            _ => {
                let _keep = $g;
            }
        }
    };
}

#[emit::span(rt: *rt, guard: g, "sync_guard {inv}", inv, en)]
fn sync_guard(rt: &Rt, inv: u32, en: bool, exit: Exit) -> u32 {
    guard_body!(g, inv, exit);
    0
}

#[emit::span(rt: *rt, guard: g, panic_lvl: emit::Level::Warn, "async_guard {inv}", inv, en)]
async fn async_guard(rt: &Rt, inv: u32, en: bool, exit: Exit) -> u32 {
    YieldNow(false).await;
    guard_body!(g, inv, exit);
    YieldNow(false).await;
    0
}

// --- blocks and new_span! --------------------------------------------------------

#[cfg(miri)]
fn sync_block(rt: &Rt, inv: u32, en: bool, exit: Exit) -> u32 {
    #[emit::span(rt: *rt, "sync_block {inv}", inv, en)]
    {
        if exit == Exit::Panic {
            panic!("boom");
        }
    }
    1
}

// NOTE: the async *block* form (`#[emit::span(..)] async { .. }.await`) cannot be written at all: the
// attribute receives just `async { .. }`, which the macro parses as a `syn::Stmt`, and syn demands a
// terminating `;` for it ("unexpected end of input, expected semicolon"). Nothing to monitor there.

fn manual_new_span(rt: &Rt, inv: u32, en: bool, exit: Exit) -> u32 {
    let (mut guard, frame) = emit::new_span!(rt: *rt, "manual_new_span {inv}", inv, en);
    frame.call(move || {
        guard.start();
        if exit == Exit::Panic {
            panic!("boom");
        }
        if exit == Exit::Early {
            return 1;
        }
        if exit == Exit::GComplete {
            let ret = guard.complete();
            RETURNED.with(|r| r.borrow_mut().push((inv, ret)));
            return 2;
        }
        0
    })
}

/// `new_span!` + `frame.in_future(..)`: the guard lives in the future the frame wraps.
async fn manual_in_future(rt: &Rt, inv: u32, en: bool, exit: Exit) -> u32 {
    let (mut guard, frame) = emit::new_span!(rt: *rt, "manual_in_future {inv}", inv, en);
    frame
        .in_future(async move {
            guard.start();
            YieldNow(false).await;
            if exit == Exit::Panic {
                panic!("boom");
            }
            YieldNow(false).await;
            drop(guard);
            0
        })
        .await
}

#[emit::span(rt: *rt, "async_nested_inner {inv}", inv, en, depth: 2)]
async fn async_nested_inner(rt: &Rt, inv: u32, en: bool) -> u32 {
    YieldNow(false).await;
    2
}

/// An async span suspended inside a NESTED async span: a cancellation drops both frames at once.
#[emit::info_span(rt: *rt, "async_nested_outer {inv}", inv, en)]
async fn async_nested_outer(rt: &Rt, inv: u32, en: bool, _exit: Exit) -> u32 {
    YieldNow(false).await;
    let v = async_nested_inner(rt, inv, en).await;
    YieldNow(false).await;
    v
}

fn manual_new_info_span_never_started(rt: &Rt, inv: u32, en: bool, _exit: Exit) -> u32 {
    let (guard, frame) = emit::new_info_span!(rt: *rt, "never_started {inv}", inv, en);
    frame.call(move || {
        drop(guard);
        0
    })
}

/// Static description of a form: how the oracle derives lvl / err.
struct Form {
    name: &'static str,
    run: fn(&Rt, u32, bool, Exit) -> Result<(), String>,
    exits: &'static [Exit],
    default_lvl: Option<&'static str>,
    panic_lvl: Option<&'static str>,
    ok_lvl: Option<&'static str>,
    err_lvl: Option<&'static str>,
    /// uses ok_lvl / err_lvl / err
    result_aware: bool,
    /// text of `err` for an Err exit, given the error's Display (None = Display of the error)
    mapped_err: Option<&'static str>,
    never_started: bool,
    /// `async_nested_outer`: two spans per invocation
    nested: bool,
}

const PLAIN_EXITS: &[Exit] = &[Exit::Normal, Exit::Early, Exit::Panic];
const RESULT_EXITS: &[Exit] = &[Exit::Normal, Exit::Early, Exit::EarlyErr, Exit::Question, Exit::TailErr, Exit::Panic];
const GUARD_EXITS: &[Exit] = &[
    Exit::Normal,
    Exit::Early,
    Exit::Panic,
    Exit::GComplete,
    Exit::GCompleteWith,
    Exit::GDropEarly,
    Exit::GRename,
    Exit::GWithCompletion,
];
#[allow(dead_code)]
const BLOCK_EXITS: &[Exit] = &[Exit::Normal, Exit::Panic];
const ASYNC_PLAIN_EXITS: &[Exit] = &[Exit::Normal, Exit::Early, Exit::Panic, Exit::Cancel(0), Exit::Cancel(1), Exit::Cancel(2)];
const ASYNC_RESULT_EXITS: &[Exit] = &[
    Exit::Normal,
    Exit::Early,
    Exit::EarlyErr,
    Exit::Question,
    Exit::TailErr,
    Exit::Panic,
    Exit::Cancel(0),
    Exit::Cancel(1),
    Exit::Cancel(2),
];
const ASYNC_GUARD_EXITS: &[Exit] = &[
    Exit::Normal,
    Exit::Early,
    Exit::Panic,
    Exit::GComplete,
    Exit::GCompleteWith,
    Exit::GDropEarly,
    Exit::GRename,
    Exit::GWithCompletion,
    Exit::Cancel(0),
    Exit::Cancel(1),
    Exit::Cancel(2),
];
const ASYNC_MANUAL_EXITS: &[Exit] = &[Exit::Normal, Exit::Panic, Exit::Cancel(0), Exit::Cancel(1), Exit::Cancel(2)];
const NESTED_EXITS: &[Exit] = &[Exit::Normal, Exit::Cancel(0), Exit::Cancel(1), Exit::Cancel(2), Exit::Cancel(3)];
const MANUAL_EXITS: &[Exit] = &[Exit::Normal, Exit::Early, Exit::Panic, Exit::GComplete];

macro_rules! sync_form {
    ($f:ident) => {
        |rt, inv, en, exit| catch(|| { let _ = $f(rt, inv, en, exit); })
    };
}
macro_rules! async_form {
    ($f:ident) => {
        |rt, inv, en, exit| {
            catch(|| match exit {
                Exit::Cancel(k) => poll_then_drop($f(rt, inv, en, exit), k),
                _ => {
                    let _ = block_on($f(rt, inv, en, exit));
                }
            })
        }
    };
}

fn form(name: &'static str, run: fn(&Rt, u32, bool, Exit) -> Result<(), String>, exits: &'static [Exit]) -> Form {
    Form {
        name,
        run,
        exits,
        default_lvl: None,
        panic_lvl: None,
        ok_lvl: None,
        err_lvl: None,
        result_aware: false,
        mapped_err: None,
        never_started: false,
        nested: false,
    }
}

fn forms() -> Vec<Form> {
    let _ = plain_body;
    vec![
        form("sync_plain", sync_form!(sync_plain), PLAIN_EXITS),
        form("async_plain", async_form!(async_plain), ASYNC_PLAIN_EXITS),
        Form { default_lvl: Some("debug"), ..form("sync_debug", sync_form!(sync_debug), PLAIN_EXITS) },
        Form { default_lvl: Some("info"), ..form("sync_info", sync_form!(sync_info), PLAIN_EXITS) },
        Form { default_lvl: Some("warn"), ..form("async_warn", async_form!(async_warn), ASYNC_PLAIN_EXITS) },
        Form { default_lvl: Some("error"), ..form("sync_error", sync_form!(sync_error), PLAIN_EXITS) },
        Form { panic_lvl: Some("warn"), ..form("sync_panic_lvl", sync_form!(sync_panic_lvl), PLAIN_EXITS) },
        Form { default_lvl: Some("info"), panic_lvl: Some("debug"), ..form("async_info_panic_lvl", async_form!(async_info_panic_lvl), ASYNC_PLAIN_EXITS) },
        form("sync_plain_result", sync_form!(sync_plain_result), RESULT_EXITS),
        Form { ok_lvl: Some("info"), result_aware: true, ..form("sync_ok_lvl", sync_form!(sync_ok_lvl), RESULT_EXITS) },
        Form { err_lvl: Some("warn"), result_aware: true, ..form("sync_err_lvl", sync_form!(sync_err_lvl), RESULT_EXITS) },
        Form { ok_lvl: Some("debug"), err_lvl: Some("warn"), panic_lvl: Some("info"), result_aware: true, ..form("sync_all_lvls", sync_form!(sync_all_lvls), RESULT_EXITS) },
        Form { ok_lvl: Some("debug"), result_aware: true, ..form("async_ok_lvl", async_form!(async_ok_lvl), ASYNC_RESULT_EXITS) },
        Form { default_lvl: Some("info"), err_lvl: Some("error"), result_aware: true, ..form("async_info_err_lvl", async_form!(async_info_err_lvl), ASYNC_RESULT_EXITS) },
        Form { default_lvl: Some("info"), ok_lvl: Some("debug"), result_aware: true, ..form("sync_info_ok_lvl", sync_form!(sync_info_ok_lvl), RESULT_EXITS) },
        Form { result_aware: true, mapped_err: Some("mapped"), ..form("sync_err_mapper", sync_form!(sync_err_mapper), RESULT_EXITS) },
        Form { err_lvl: Some("warn"), result_aware: true, ..form("async_err_mapper", async_form!(async_err_mapper), ASYNC_RESULT_EXITS) },
        form("sync_guard", sync_form!(sync_guard), GUARD_EXITS),
        Form { panic_lvl: Some("warn"), ..form("async_guard", async_form!(async_guard), ASYNC_GUARD_EXITS) },
        // attributes on block expressions need nightly features: only built under Miri (always nightly)
        #[cfg(miri)]
        form("sync_block", sync_form!(sync_block), BLOCK_EXITS),
        form("manual_new_span", sync_form!(manual_new_span), MANUAL_EXITS),
        form("manual_in_future", async_form!(manual_in_future), ASYNC_MANUAL_EXITS),
        Form { default_lvl: Some("info"), nested: true, ..form("async_nested_outer", async_form!(async_nested_outer), NESTED_EXITS) },
        Form { default_lvl: Some("info"), never_started: true, ..form("manual_new_info_span_never_started", sync_form!(manual_new_info_span_never_started), &[Exit::Normal]) },
    ]
}

/// The common content checks of a span event that was completed by a DROP of its suspended future.
fn cancelled_content(e: &Captured, name: &str, inv: u32, lvl: Option<&str>, wrong: &mut Vec<(&'static str, String)>) {
    if e.get("evt_kind") != Some("span") {
        wrong.push(("kind-not-span", format!("evt_kind={:?}", e.get("evt_kind"))));
    }
    if e.get("span_name") != Some(name) {
        wrong.push(("wrong-name", format!("span_name={:?}, expected {:?}", e.get("span_name"), name)));
    }
    if e.get("inv") != Some(inv.to_string().as_str()) {
        wrong.push(("props-missing", format!("inv={:?} (the span's own property, expected {})", e.get("inv"), inv)));
    }
    if e.get("trace_id").map(|t| t.len()) != Some(32) || e.get("span_id").map(|t| t.len()) != Some(16) {
        wrong.push(("ids-missing", format!("trace_id={:?} span_id={:?}", e.get("trace_id"), e.get("span_id"))));
    }
    if e.get("lvl") != lvl {
        wrong.push(("wrong-lvl", format!("lvl={:?}, a dropped span gets its default level {:?} (no panic level)", e.get("lvl"), lvl)));
    }
    if e.get("err").is_some() {
        wrong.push(("wrong-err", format!("err={:?} (a drop is not a panic and not an Err)", e.get("err"))));
    }
}

/// A single-span async form whose future was polled `k` times and dropped while suspended.
fn check_cancelled(r: &mut Report, f: &Form, k: u8, en: bool, inv: u32, events: &[Captured], custom_calls: usize, clock: &ScriptClock, case: &dyn Fn() -> Json) {
    r.observe(&format!("cancelled:after-{}-polls", k), 1);
    let started = k >= 1;
    let want = if en && started { 1 } else { 0 };
    if events.len() != want || custom_calls != 0 {
        r.violation(
            &format!(
                "C05:macro:completed-span:cancelled:completion-count-{}:{}:{}",
                events.len().min(2),
                if !started { "never-polled" } else if en { "enabled" } else { "disabled" },
                f.name
            ),
            &format!("future polled {} time(s) and dropped: {} span event(s) and {} custom completion call(s), expected {} and 0", k, events.len(), custom_calls, want),
            case(),
        );
    }
    let Some(e) = events.first() else { return };
    if want != 1 {
        return;
    }
    r.observe("cancelled:span-events-judged", 1);
    let mut wrong = Vec::new();
    cancelled_content(e, &format!("{} {{inv}}", f.name), inv, f.default_lvl, &mut wrong);
    let readings = clock.log.lock().unwrap().clone();
    match (readings.first().copied().flatten(), readings.get(1).copied().flatten()) {
        (Some(s), Some(end)) => {
            if e.extent != Some((Some(s), end)) {
                wrong.push(("wrong-extent", format!("extent={:?}, expected {}..{} (reading at start .. reading at the drop)", e.extent, s, end)));
            }
        }
        _ => {
            // (a drop completes through `completion::Default`: no extent without both readings)
            if e.extent.is_some() {
                wrong.push(("extent-from-missing-reading", format!("extent={:?} with the clock readings {:?}", e.extent, readings)));
            }
        }
    }
    for (what, text) in wrong {
        r.violation(&format!("C05:macro:completed-span:cancelled:{}", what), &format!("{} polled {} time(s) and dropped: {}", f.name, k, text), case());
    }
}

/// `async_nested_outer`: an outer span suspended at its own yields or inside the inner span.
fn check_nested(r: &mut Report, f: &Form, exit: Exit, en: bool, inv: u32, mode: ClockMode, events: &[Captured], case: &dyn Fn() -> Json) {
    // polls: 1 = outer at its first yield, 2 = inside the inner span, 3 = inner done, outer at its
    // second yield, 4 = finished
    let polls = match exit {
        Exit::Cancel(k) => k,
        _ => 4,
    };
    r.observe(&format!("cancelled:nested-after-{}-polls", polls.min(4)), 1);
    let want_inner = en && polls >= 2;
    let want_outer = en && polls >= 1;
    let inner: Vec<&Captured> = events.iter().filter(|e| e.get("span_name") == Some("async_nested_inner {inv}")).collect();
    let outer: Vec<&Captured> = events.iter().filter(|e| e.get("span_name") == Some("async_nested_outer {inv}")).collect();
    let sig = |what: &str| format!("C05:macro:completed-span:cancelled:nested:{}", what);
    if inner.len() != want_inner as usize || outer.len() != want_outer as usize || inner.len() + outer.len() != events.len() {
        r.violation(
            &sig(&format!("completion-count:{}-polls", polls.min(4))),
            &format!(
                "{} inner and {} outer span event(s) out of {} events, expected {} and {}",
                inner.len(),
                outer.len(),
                events.len(),
                want_inner as usize,
                want_outer as usize
            ),
            case(),
        );
        return;
    }
    let mut wrong = Vec::new();
    if let Some(o) = outer.first() {
        r.observe("cancelled:span-events-judged", 1);
        cancelled_content(o, "async_nested_outer {inv}", inv, f.default_lvl, &mut wrong);
        if mode == ClockMode::Steady && !matches!(o.extent, Some((Some(s), e)) if s <= e) {
            wrong.push(("wrong-extent", format!("outer extent={:?}", o.extent)));
        }
    }
    if let (Some(i), Some(o)) = (inner.first(), outer.first()) {
        r.observe("cancelled:span-events-judged", 1);
        r.observe("cancelled:two-frames-dropped-at-once", (polls == 2) as u64);
        cancelled_content(i, "async_nested_inner {inv}", inv, None, &mut wrong);
        if i.get("depth") != Some("2") {
            wrong.push(("props-missing", format!("inner depth={:?}", i.get("depth"))));
        }
        if i.get("span_parent") != o.get("span_id") || i.get("trace_id") != o.get("trace_id") || i.get("span_id") == o.get("span_id") {
            wrong.push((
                "wrong-parent",
                format!(
                    "inner trace/parent/span = {:?}/{:?}/{:?}, outer trace/span = {:?}/{:?}",
                    i.get("trace_id"),
                    i.get("span_parent"),
                    i.get("span_id"),
                    o.get("trace_id"),
                    o.get("span_id")
                ),
            ));
        }
        if o.get("span_parent").is_some() {
            wrong.push(("wrong-parent", format!("outer has span_parent={:?}", o.get("span_parent"))));
        }
        if i.stamp > o.stamp {
            wrong.push(("order", "the inner span completed after the outer one".to_string()));
        }
    }
    for (what, text) in wrong {
        r.violation(&sig(what), &format!("async_nested_outer after {} poll(s): {}", polls, text), case());
    }
}

fn check_invocation(r: &mut Report, f: &Form, exit: Exit, en: bool, mode: ClockMode, inv: u32) {
    r.eval();
    let (rt, rec, clock) = new_rt(mode);
    CUSTOM.with(|c| c.borrow_mut().clear());
    RETURNED.with(|c| c.borrow_mut().clear());
    let outcome = (f.run)(&rt, inv, en, exit);
    let events = rec.take();
    let custom_calls = CUSTOM.with(|c| std::mem::take(&mut *c.borrow_mut()));
    let returned = RETURNED.with(|c| std::mem::take(&mut *c.borrow_mut()));
    let case = || {
        json!({"part": "macro", "form": f.name, "exit": format!("{:?}", exit), "enabled": en, "clock": format!("{:?}", mode), "invocation": inv,
               "clock_readings": clock.log.lock().unwrap().clone(),
               "events": events.iter().map(|e| e.to_json()).collect::<Vec<_>>()})
    };
    let sig_tail = format!("{}:{:?}", f.name, exit);
    r.observe(&format!("invocations:{}", if en { "enabled" } else { "disabled" }), 1);
    r.observe(&format!("exit:{:?}", exit), 1);
    r.observe("span-events", events.len() as u64);
    r.nontrivial(&("macro", f.name, format!("{:?}", exit), en, mode));
    r.observe(&format!("clock:{:?}", mode), 1);

    // did the body leave the way it was asked to?
    let panicked = outcome.is_err();
    if panicked != (exit == Exit::Panic) {
        r.violation(
            &format!("C05:macro:unexpected-panic:{}", sig_tail),
            &format!("invocation outcome {:?}", outcome),
            case(),
        );
        return;
    }

    if f.nested {
        check_nested(r, f, exit, en, inv, mode, &events, &case);
        return;
    }
    if let Exit::Cancel(k) = exit {
        if !FINISHED.with(|c| c.get()) {
            check_cancelled(r, f, k, en, inv, &events, custom_calls.len(), &clock, &case);
            return;
        }
        // finished before it could be cancelled: judged as a normal invocation below
        r.observe("cancel:finished-before-the-drop", 1);
    }
    let to_custom = en && !f.never_started && matches!(exit, Exit::GCompleteWith | Exit::GWithCompletion);
    let want_events = if en && !f.never_started && !to_custom { 1 } else { 0 };
    let want_custom = if to_custom { 1 } else { 0 };
    if events.len() != want_events || custom_calls.len() != want_custom {
        r.violation(
            &format!(
                "C05:macro:{}-span-events-{}-custom-completions:{}:{}",
                events.len().min(2),
                custom_calls.len().min(2),
                if en { "enabled" } else { "disabled" },
                sig_tail
            ),
            &format!(
                "expected {} span event(s) and {} custom completion call(s), got {} and {}",
                want_events,
                want_custom,
                events.len(),
                custom_calls.len()
            ),
            case(),
        );
    }
    for (_, ret) in &returned {
        let completed = en && !f.never_started;
        r.observe("complete-return-values", 1);
        if *ret != completed {
            r.violation(
                &format!("C05:macro:complete-returned-{}:{}:{}", ret, if en { "enabled" } else { "disabled" }, sig_tail),
                &format!("guard.complete*/() returned {} but the span {}", ret, if completed { "completed" } else { "was disabled" }),
                case(),
            );
        }
    }
    if want_events != 1 {
        return;
    }
    let Some(e) = events.first() else { return };

    // expected lvl / err
    let is_err_exit = matches!(exit, Exit::EarlyErr | Exit::Question | Exit::TailErr);
    let (want_lvl, want_err): (Option<&str>, Option<String>) = if exit == Exit::Panic {
        (Some(f.panic_lvl.unwrap_or("error")), Some("panicked".to_string()))
    } else if f.result_aware && is_err_exit {
        let text = match exit {
            Exit::EarlyErr => "my error: early",
            Exit::Question => "my error: question",
            _ => "my error: tail",
        };
        (
            Some(f.err_lvl.or(f.default_lvl).unwrap_or("error")),
            Some(f.mapped_err.map(|m| m.to_string()).unwrap_or_else(|| text.to_string())),
        )
    } else if f.result_aware {
        (f.ok_lvl.or(f.default_lvl), None)
    } else {
        (f.default_lvl, None)
    };
    let got_lvl = e.get("lvl");
    let got_err = e.get("err").map(|s| s.to_string());
    if got_lvl != want_lvl {
        r.violation(
            &format!("C05:macro:wrong-lvl:{}", sig_tail),
            &format!("lvl {:?}, the exit path calls for {:?}", got_lvl, want_lvl),
            case(),
        );
    }
    if got_err != want_err {
        r.violation(
            &format!("C05:macro:wrong-err:{}", sig_tail),
            &format!("err {:?}, the exit path calls for {:?}", got_err, want_err),
            case(),
        );
    }
    let want_name = if exit == Exit::GRename { "renamed".to_string() } else { format!("{} {{inv}}", f.name.replace("manual_new_info_span_", "")) };
    let mut wrong = Vec::new();
    if e.get("evt_kind") != Some("span") {
        wrong.push(format!("evt_kind={:?}", e.get("evt_kind")));
    }
    if e.get("span_name") != Some(want_name.as_str()) {
        wrong.push(format!("span_name={:?} (expected {:?})", e.get("span_name"), want_name));
    }
    if e.get("inv") != Some(inv.to_string().as_str()) {
        wrong.push(format!("inv={:?} (expected {})", e.get("inv"), inv));
    }
    if exit == Exit::GRename && e.get("extra") != Some("1") {
        wrong.push(format!("extra={:?} (set through with_props)", e.get("extra")));
    }
    // the extent: 1st reading = taken at start, 2nd = taken by the timer at completion
    let readings = clock.log.lock().unwrap().clone();
    let start_reading = readings.first().copied().flatten();
    let end_reading = readings.get(1).copied().flatten();
    match (start_reading, end_reading) {
        (Some(s), Some(end)) => {
            r.observe("macro:extents-checked", 1);
            if e.extent != Some((Some(s), end)) {
                wrong.push(format!("extent={:?} (expected the range {}..{}: reading at start .. reading at completion)", e.extent, s, end));
            }
        }
        (s, end) => {
            // a reading is missing: no extent is fine, an extent made up from something else is not
            let which = match (s, end) {
                (None, Some(_)) => "start-missing",
                (Some(_), None) => "end-missing",
                _ => "start-and-end-missing",
            };
            // The documented anchor (`Timer::extent` returns `None` without a reading) covers what
            // completes through `completion::Default`: drop, plain `#[span]`, panic, `complete()`.
            // The Result-aware completions (`ok_lvl` / `err_lvl` / `err`) hand the event to
            // `emit_core::emit` together with the runtime's clock, which then fills in a POINT extent
            // from a third reading taken at emission; the statement does not settle that, so it is
            // only counted, not judged.
            if f.result_aware && exit != Exit::Panic {
                r.observe(
                    &format!(
                        "macro:result-completion-extent-with-missing-reading:{}",
                        match e.extent {
                            None => "none",
                            Some((None, _)) => "point",
                            Some((Some(_), _)) => "range",
                        }
                    ),
                    1,
                );
            } else {
            if which != "start-and-end-missing" {
                r.observe("macro:intermittent-clock-cases-judged", 1);
            }
            r.observe(&format!("macro:extent-judged-with-{}", which), 1);
            if e.extent.is_some() {
                let completed_by = if exit == Exit::Panic {
                    "default-completion-while-panicking"
                } else {
                    "default-completion"
                };
                r.violation(
                    &format!("C05:macro:completed-span:extent-from-missing-reading:{}:{}", which, completed_by),
                    &format!(
                        "{} / {:?}: the clock's readings were {:?} (1st = at start, 2nd = at completion), yet the span event carries the extent {:?}",
                        f.name, exit, readings, e.extent
                    ),
                    case(),
                );
            }
            }
        }
    }
    if e.get("trace_id").map(|t| t.len()) != Some(32) || e.get("span_id").map(|t| t.len()) != Some(16) {
        wrong.push(format!("trace_id={:?} span_id={:?}", e.get("trace_id"), e.get("span_id")));
    }
    if !wrong.is_empty() {
        r.violation(&format!("C05:macro:span-event-content:{}", sig_tail), &wrong.join("; "), case());
    }
    if r.wants_sample() && exit != Exit::Normal && inv % 5 == 0 {
        r.sample(|| case());
    }
}

// ===========================================================================
// (c) the filter is asked once, at the start
// ===========================================================================

/// What a scripted filter does.
#[derive(Clone, Copy, Debug, PartialEq, Eq, Hash)]
enum Script {
    /// the real `emit::level::min_filter(level)`
    Min(&'static str),
    Const(bool),
    /// yes to the first k answers, no afterwards (state lives across the whole invocation)
    Budget(u32),
}

#[derive(Clone, Debug)]
struct ProbeCall {
    answer: bool,
    lvl: Option<String>,
}

struct Probe {
    script: Script,
    calls: Vec<ProbeCall>,
}

thread_local! {
    /// the runtime's filter / the call-site `when:` filter of the invocation running on this thread
    static RT_PROBE: RefCell<Probe> = const { RefCell::new(Probe { script: Script::Const(true), calls: Vec::new() }) };
    static WHEN_PROBE: RefCell<Probe> = const { RefCell::new(Probe { script: Script::Const(true), calls: Vec::new() }) };
    /// what the emitter of the (c) runtimes received on this thread
    static O_EVENTS: RefCell<Vec<Captured>> = const { RefCell::new(Vec::new()) };
}

fn level_of(name: &str) -> emit::Level {
    match name {
        "debug" => emit::Level::Debug,
        "info" => emit::Level::Info,
        "warn" => emit::Level::Warn,
        _ => emit::Level::Error,
    }
}

fn rank(name: &str) -> u8 {
    match name {
        "debug" => 0,
        "info" => 1,
        "warn" => 2,
        _ => 3,
    }
}

/// A filter whose behaviour is scripted per thread (the runtimes of (c) are shared by all worker
/// threads; every invocation sets the scripts of its own thread first). `TlFilter(true)` is the
/// call-site `when:` filter, `TlFilter(false)` the runtime's.
#[derive(Clone, Copy)]
struct TlFilter(bool);

impl emit::Filter for TlFilter {
    fn matches<E: emit::event::ToEvent>(&self, evt: E) -> bool {
        let evt = evt.to_event();
        let key = if self.0 { &WHEN_PROBE } else { &RT_PROBE };
        let (script, asked) = key.with(|p| {
            let p = p.borrow();
            (p.script, p.calls.len() as u32)
        });
        let answer = match script {
            Script::Min(m) => emit::level::min_filter(level_of(m)).matches(&evt),
            Script::Const(b) => b,
            Script::Budget(k) => asked < k,
        };
        let lvl = evt.props().get("lvl").map(|v| v.to_string());
        key.with(|p| p.borrow_mut().calls.push(ProbeCall { answer, lvl }));
        answer
    }
}

struct TlRecorder;

impl emit::Emitter for TlRecorder {
    fn emit<E: emit::event::ToEvent>(&self, evt: E) {
        let evt = evt.to_event();
        let cap = Captured::of(&evt);
        O_EVENTS.with(|e| e.borrow_mut().push(cap));
    }

    fn blocking_flush(&self, _: std::time::Duration) -> bool {
        true
    }
}

type ORt = Runtime<TlRecorder, TlFilter, ThreadLocalCtxt, FakeClock, CountingRng>;

fn o_clock() -> FakeClock {
    let c = FakeClock::new(1_700_000_000_000_000_000);
    c.set_step(1_000);
    c
}

/// the generic runtime of (c)
static O_RT: std::sync::LazyLock<ORt> =
    std::sync::LazyLock::new(|| Runtime::build(TlRecorder, TlFilter(false), ThreadLocalCtxt::shared(), o_clock(), CountingRng::new()));

/// the type-erased runtime of (c): the same components behind an `AmbientSlot`
static O_SLOT: AmbientSlot = AmbientSlot::new();

fn init_once_runtimes() {
    std::sync::LazyLock::force(&O_RT);
    let _ = O_SLOT.init(Runtime::build(TlRecorder, TlFilter(false), ThreadLocalCtxt::new(), o_clock(), CountingRng::starting_at(1 << 40)));
    assert!(O_SLOT.is_enabled(), "the ambient slot of (c) is initialised");
}

#[derive(Clone, Copy, Debug, PartialEq, Eq, Hash)]
enum RtSel {
    Generic,
    Slot,
}

impl RtSel {
    fn name(self) -> &'static str {
        match self {
            RtSel::Generic => "generic-runtime",
            RtSel::Slot => "ambient-slot",
        }
    }
}

// --- sites WITHOUT `when:` (the runtime's filter decides) ---------------------------------------
// (generic over the runtime's components, so the same site runs on `Runtime<concrete..>` and on
// the `AmbientRuntime` of a slot)

#[emit::span(rt: *rt, ok_lvl: emit::Level::Debug, "o_sync_ok_debug {inv}", inv)]
fn o_sync_ok_debug<E: emit::Emitter, F: emit::Filter, C: emit::Ctxt, T: emit::Clock, R: emit::Rng>(rt: &Runtime<E, F, C, T, R>, inv: u32, exit: Exit) -> Result<u32, MyErr> {
    result_exit!(exit);
    result_tail!(exit)
}

#[emit::span(rt: *rt, ok_lvl: "debug", "o_async_ok_debug {inv}", inv)]
async fn o_async_ok_debug<E: emit::Emitter, F: emit::Filter, C: emit::Ctxt, T: emit::Clock, R: emit::Rng>(rt: &Runtime<E, F, C, T, R>, inv: u32, exit: Exit) -> Result<u32, MyErr> {
    YieldNow(false).await;
    result_exit!(exit);
    YieldNow(false).await;
    result_tail!(exit)
}

#[emit::span(rt: *rt, err_lvl: emit::Level::Debug, "o_sync_err_debug {inv}", inv)]
fn o_sync_err_debug<E: emit::Emitter, F: emit::Filter, C: emit::Ctxt, T: emit::Clock, R: emit::Rng>(rt: &Runtime<E, F, C, T, R>, inv: u32, exit: Exit) -> Result<u32, MyErr> {
    result_exit!(exit);
    result_tail!(exit)
}

#[emit::span(rt: *rt, err_lvl: "debug", err: as_dyn, "o_async_err_debug_mapper {inv}", inv)]
async fn o_async_err_debug_mapper<E: emit::Emitter, F: emit::Filter, C: emit::Ctxt, T: emit::Clock, R: emit::Rng>(rt: &Runtime<E, F, C, T, R>, inv: u32, exit: Exit) -> Result<u32, MyErr> {
    YieldNow(false).await;
    result_exit!(exit);
    YieldNow(false).await;
    result_tail!(exit)
}

#[emit::span(rt: *rt, ok_lvl: "debug", err_lvl: "debug", err: (|_| "mapped"), "o_sync_all_debug_mapper {inv}", inv)]
fn o_sync_all_debug_mapper<E: emit::Emitter, F: emit::Filter, C: emit::Ctxt, T: emit::Clock, R: emit::Rng>(rt: &Runtime<E, F, C, T, R>, inv: u32, exit: Exit) -> Result<u32, MyErr> {
    result_exit!(exit);
    result_tail!(exit)
}

#[emit::span(rt: *rt, err: (|_| "mapped"), "o_async_mapper_only {inv}", inv)]
async fn o_async_mapper_only<E: emit::Emitter, F: emit::Filter, C: emit::Ctxt, T: emit::Clock, R: emit::Rng>(rt: &Runtime<E, F, C, T, R>, inv: u32, exit: Exit) -> Result<u32, MyErr> {
    YieldNow(false).await;
    result_exit!(exit);
    YieldNow(false).await;
    result_tail!(exit)
}

#[emit::info_span(rt: *rt, ok_lvl: emit::Level::Debug, err_lvl: emit::Level::Debug, "o_sync_info_to_debug {inv}", inv)]
fn o_sync_info_to_debug<E: emit::Emitter, F: emit::Filter, C: emit::Ctxt, T: emit::Clock, R: emit::Rng>(rt: &Runtime<E, F, C, T, R>, inv: u32, exit: Exit) -> Result<u32, MyErr> {
    result_exit!(exit);
    result_tail!(exit)
}

#[emit::info_span(rt: *rt, ok_lvl: "debug", err_lvl: "debug", err: as_dyn, "o_async_info_to_debug_mapper {inv}", inv)]
async fn o_async_info_to_debug_mapper<E: emit::Emitter, F: emit::Filter, C: emit::Ctxt, T: emit::Clock, R: emit::Rng>(rt: &Runtime<E, F, C, T, R>, inv: u32, exit: Exit) -> Result<u32, MyErr> {
    YieldNow(false).await;
    result_exit!(exit);
    YieldNow(false).await;
    result_tail!(exit)
}

#[emit::warn_span(rt: *rt, ok_lvl: emit::Level::Info, err_lvl: emit::Level::Info, panic_lvl: emit::Level::Debug, "o_sync_warn_to_info {inv}", inv)]
fn o_sync_warn_to_info<E: emit::Emitter, F: emit::Filter, C: emit::Ctxt, T: emit::Clock, R: emit::Rng>(rt: &Runtime<E, F, C, T, R>, inv: u32, exit: Exit) -> Result<u32, MyErr> {
    result_exit!(exit);
    result_tail!(exit)
}

#[emit::error_span(rt: *rt, ok_lvl: emit::Level::Debug, "o_async_error_ok_debug {inv}", inv)]
async fn o_async_error_ok_debug<E: emit::Emitter, F: emit::Filter, C: emit::Ctxt, T: emit::Clock, R: emit::Rng>(rt: &Runtime<E, F, C, T, R>, inv: u32, exit: Exit) -> Result<u32, MyErr> {
    YieldNow(false).await;
    result_exit!(exit);
    YieldNow(false).await;
    result_tail!(exit)
}

/// the reverse direction: started at debug, completed at warn / error
#[emit::debug_span(rt: *rt, ok_lvl: emit::Level::Warn, err_lvl: emit::Level::Error, "o_sync_debug_to_warn {inv}", inv)]
fn o_sync_debug_to_warn<E: emit::Emitter, F: emit::Filter, C: emit::Ctxt, T: emit::Clock, R: emit::Rng>(rt: &Runtime<E, F, C, T, R>, inv: u32, exit: Exit) -> Result<u32, MyErr> {
    result_exit!(exit);
    result_tail!(exit)
}

#[emit::debug_span(rt: *rt, ok_lvl: "warn", err: (|_| "mapped"), "o_async_debug_to_warn_mapper {inv}", inv)]
async fn o_async_debug_to_warn_mapper<E: emit::Emitter, F: emit::Filter, C: emit::Ctxt, T: emit::Clock, R: emit::Rng>(rt: &Runtime<E, F, C, T, R>, inv: u32, exit: Exit) -> Result<u32, MyErr> {
    YieldNow(false).await;
    result_exit!(exit);
    YieldNow(false).await;
    result_tail!(exit)
}

// controls: the same filters over completions that were never Result-aware

#[emit::span(rt: *rt, "o_sync_plain_result {inv}", inv)]
fn o_sync_plain_result<E: emit::Emitter, F: emit::Filter, C: emit::Ctxt, T: emit::Clock, R: emit::Rng>(rt: &Runtime<E, F, C, T, R>, inv: u32, exit: Exit) -> Result<u32, MyErr> {
    result_exit!(exit);
    result_tail!(exit)
}

#[emit::info_span(rt: *rt, "o_async_info_plain {inv}", inv)]
async fn o_async_info_plain<E: emit::Emitter, F: emit::Filter, C: emit::Ctxt, T: emit::Clock, R: emit::Rng>(rt: &Runtime<E, F, C, T, R>, inv: u32, exit: Exit) -> u32 {
    YieldNow(false).await;
    plain_exit!(exit);
    YieldNow(false).await;
    0
}

#[emit::span(rt: *rt, guard: g, "o_sync_guard {inv}", inv)]
fn o_sync_guard<E: emit::Emitter, F: emit::Filter, C: emit::Ctxt, T: emit::Clock, R: emit::Rng>(rt: &Runtime<E, F, C, T, R>, inv: u32, exit: Exit) -> u32 {
    guard_body!(g, inv, exit);
    0
}

#[emit::debug_span(rt: *rt, guard: g, "o_async_debug_guard {inv}", inv)]
async fn o_async_debug_guard<E: emit::Emitter, F: emit::Filter, C: emit::Ctxt, T: emit::Clock, R: emit::Rng>(rt: &Runtime<E, F, C, T, R>, inv: u32, exit: Exit) -> u32 {
    YieldNow(false).await;
    guard_body!(g, inv, exit);
    YieldNow(false).await;
    0
}

// --- sites WITH a call-site `when:` filter (it decides; the runtime's filter is not consulted) ------

#[emit::span(rt: *rt, when: TlFilter(true), ok_lvl: emit::Level::Debug, "w_sync_ok_debug {inv}", inv)]
fn w_sync_ok_debug<E: emit::Emitter, F: emit::Filter, C: emit::Ctxt, T: emit::Clock, R: emit::Rng>(rt: &Runtime<E, F, C, T, R>, inv: u32, exit: Exit) -> Result<u32, MyErr> {
    result_exit!(exit);
    result_tail!(exit)
}

#[emit::span(rt: *rt, when: TlFilter(true), ok_lvl: "debug", err_lvl: "debug", "w_async_all_debug {inv}", inv)]
async fn w_async_all_debug<E: emit::Emitter, F: emit::Filter, C: emit::Ctxt, T: emit::Clock, R: emit::Rng>(rt: &Runtime<E, F, C, T, R>, inv: u32, exit: Exit) -> Result<u32, MyErr> {
    YieldNow(false).await;
    result_exit!(exit);
    YieldNow(false).await;
    result_tail!(exit)
}

#[emit::span(rt: *rt, when: TlFilter(true), err_lvl: emit::Level::Debug, err: (|_| "mapped"), "w_sync_err_debug_mapper {inv}", inv)]
fn w_sync_err_debug_mapper<E: emit::Emitter, F: emit::Filter, C: emit::Ctxt, T: emit::Clock, R: emit::Rng>(rt: &Runtime<E, F, C, T, R>, inv: u32, exit: Exit) -> Result<u32, MyErr> {
    result_exit!(exit);
    result_tail!(exit)
}

#[emit::info_span(rt: *rt, when: TlFilter(true), ok_lvl: emit::Level::Debug, err: as_dyn, "w_async_info_ok_debug_mapper {inv}", inv)]
async fn w_async_info_ok_debug_mapper<E: emit::Emitter, F: emit::Filter, C: emit::Ctxt, T: emit::Clock, R: emit::Rng>(rt: &Runtime<E, F, C, T, R>, inv: u32, exit: Exit) -> Result<u32, MyErr> {
    YieldNow(false).await;
    result_exit!(exit);
    YieldNow(false).await;
    result_tail!(exit)
}

#[emit::warn_span(rt: *rt, when: TlFilter(true), ok_lvl: emit::Level::Info, err_lvl: emit::Level::Info, "w_sync_warn_to_info {inv}", inv)]
fn w_sync_warn_to_info<E: emit::Emitter, F: emit::Filter, C: emit::Ctxt, T: emit::Clock, R: emit::Rng>(rt: &Runtime<E, F, C, T, R>, inv: u32, exit: Exit) -> Result<u32, MyErr> {
    result_exit!(exit);
    result_tail!(exit)
}

#[emit::debug_span(rt: *rt, when: TlFilter(true), ok_lvl: emit::Level::Warn, err_lvl: emit::Level::Error, "w_async_debug_to_warn {inv}", inv)]
async fn w_async_debug_to_warn<E: emit::Emitter, F: emit::Filter, C: emit::Ctxt, T: emit::Clock, R: emit::Rng>(rt: &Runtime<E, F, C, T, R>, inv: u32, exit: Exit) -> Result<u32, MyErr> {
    YieldNow(false).await;
    result_exit!(exit);
    YieldNow(false).await;
    result_tail!(exit)
}

#[emit::span(rt: *rt, when: TlFilter(true), "w_sync_plain {inv}", inv)]
fn w_sync_plain<E: emit::Emitter, F: emit::Filter, C: emit::Ctxt, T: emit::Clock, R: emit::Rng>(rt: &Runtime<E, F, C, T, R>, inv: u32, exit: Exit) -> u32 {
    plain_exit!(exit);
    0
}

#[emit::span(rt: *rt, when: TlFilter(true), guard: g, "w_async_guard {inv}", inv)]
async fn w_async_guard<E: emit::Emitter, F: emit::Filter, C: emit::Ctxt, T: emit::Clock, R: emit::Rng>(rt: &Runtime<E, F, C, T, R>, inv: u32, exit: Exit) -> u32 {
    YieldNow(false).await;
    guard_body!(g, inv, exit);
    YieldNow(false).await;
    0
}

struct OForm {
    name: &'static str,
    /// has a call-site `when:` filter
    when: bool,
    run: fn(RtSel, u32, Exit) -> Result<(), String>,
    exits: &'static [Exit],
    default_lvl: Option<&'static str>,
    panic_lvl: Option<&'static str>,
    ok_lvl: Option<&'static str>,
    err_lvl: Option<&'static str>,
    result_aware: bool,
    mapped_err: Option<&'static str>,
}

macro_rules! o_sync {
    ($f:ident) => {
        |sel, inv, exit| {
            catch(|| match sel {
                RtSel::Generic => {
                    let _ = $f(&*O_RT, inv, exit);
                }
                RtSel::Slot => {
                    let _ = $f(O_SLOT.get(), inv, exit);
                }
            })
        }
    };
}

macro_rules! o_async {
    ($f:ident) => {
        |sel, inv, exit| {
            catch(|| match (sel, exit) {
                (RtSel::Generic, Exit::Cancel(k)) => poll_then_drop($f(&*O_RT, inv, exit), k),
                (RtSel::Slot, Exit::Cancel(k)) => poll_then_drop($f(O_SLOT.get(), inv, exit), k),
                (RtSel::Generic, _) => {
                    let _ = block_on($f(&*O_RT, inv, exit));
                }
                (RtSel::Slot, _) => {
                    let _ = block_on($f(O_SLOT.get(), inv, exit));
                }
            })
        }
    };
}

fn oform(name: &'static str, run: fn(RtSel, u32, Exit) -> Result<(), String>, exits: &'static [Exit]) -> OForm {
    OForm {
        name,
        when: name.starts_with("w_"),
        run,
        exits,
        default_lvl: None,
        panic_lvl: None,
        ok_lvl: None,
        err_lvl: None,
        result_aware: true,
        mapped_err: None,
    }
}

fn once_forms() -> Vec<OForm> {
    let (d, i, w, e) = (Some("debug"), Some("info"), Some("warn"), Some("error"));
    vec![
        OForm { ok_lvl: d, ..oform("o_sync_ok_debug", o_sync!(o_sync_ok_debug), RESULT_EXITS) },
        OForm { ok_lvl: d, ..oform("o_async_ok_debug", o_async!(o_async_ok_debug), ASYNC_RESULT_EXITS) },
        OForm { err_lvl: d, ..oform("o_sync_err_debug", o_sync!(o_sync_err_debug), RESULT_EXITS) },
        OForm { err_lvl: d, ..oform("o_async_err_debug_mapper", o_async!(o_async_err_debug_mapper), ASYNC_RESULT_EXITS) },
        OForm { ok_lvl: d, err_lvl: d, mapped_err: Some("mapped"), ..oform("o_sync_all_debug_mapper", o_sync!(o_sync_all_debug_mapper), RESULT_EXITS) },
        OForm { mapped_err: Some("mapped"), ..oform("o_async_mapper_only", o_async!(o_async_mapper_only), ASYNC_RESULT_EXITS) },
        OForm { default_lvl: i, ok_lvl: d, err_lvl: d, ..oform("o_sync_info_to_debug", o_sync!(o_sync_info_to_debug), RESULT_EXITS) },
        OForm { default_lvl: i, ok_lvl: d, err_lvl: d, ..oform("o_async_info_to_debug_mapper", o_async!(o_async_info_to_debug_mapper), ASYNC_RESULT_EXITS) },
        OForm { default_lvl: w, ok_lvl: i, err_lvl: i, panic_lvl: d, ..oform("o_sync_warn_to_info", o_sync!(o_sync_warn_to_info), RESULT_EXITS) },
        OForm { default_lvl: e, ok_lvl: d, ..oform("o_async_error_ok_debug", o_async!(o_async_error_ok_debug), ASYNC_RESULT_EXITS) },
        OForm { default_lvl: d, ok_lvl: w, err_lvl: e, ..oform("o_sync_debug_to_warn", o_sync!(o_sync_debug_to_warn), RESULT_EXITS) },
        OForm { default_lvl: d, ok_lvl: w, mapped_err: Some("mapped"), ..oform("o_async_debug_to_warn_mapper", o_async!(o_async_debug_to_warn_mapper), ASYNC_RESULT_EXITS) },
        OForm { result_aware: false, ..oform("o_sync_plain_result", o_sync!(o_sync_plain_result), RESULT_EXITS) },
        OForm { default_lvl: i, result_aware: false, ..oform("o_async_info_plain", o_async!(o_async_info_plain), ASYNC_PLAIN_EXITS) },
        OForm { result_aware: false, ..oform("o_sync_guard", o_sync!(o_sync_guard), GUARD_EXITS) },
        OForm { default_lvl: d, result_aware: false, ..oform("o_async_debug_guard", o_async!(o_async_debug_guard), ASYNC_GUARD_EXITS) },
        OForm { ok_lvl: d, ..oform("w_sync_ok_debug", o_sync!(w_sync_ok_debug), RESULT_EXITS) },
        OForm { ok_lvl: d, err_lvl: d, ..oform("w_async_all_debug", o_async!(w_async_all_debug), ASYNC_RESULT_EXITS) },
        OForm { err_lvl: d, mapped_err: Some("mapped"), ..oform("w_sync_err_debug_mapper", o_sync!(w_sync_err_debug_mapper), RESULT_EXITS) },
        OForm { default_lvl: i, ok_lvl: d, ..oform("w_async_info_ok_debug_mapper", o_async!(w_async_info_ok_debug_mapper), ASYNC_RESULT_EXITS) },
        OForm { default_lvl: w, ok_lvl: i, err_lvl: i, ..oform("w_sync_warn_to_info", o_sync!(w_sync_warn_to_info), RESULT_EXITS) },
        OForm { default_lvl: d, ok_lvl: w, err_lvl: e, ..oform("w_async_debug_to_warn", o_async!(w_async_debug_to_warn), ASYNC_RESULT_EXITS) },
        OForm { result_aware: false, ..oform("w_sync_plain", o_sync!(w_sync_plain), PLAIN_EXITS) },
        OForm { result_aware: false, ..oform("w_async_guard", o_async!(w_async_guard), ASYNC_GUARD_EXITS) },
    ]
}

/// The filters of one invocation: (kind label, runtime filter script, `when:` filter script).
#[derive(Clone, Copy, Debug, PartialEq, Eq, Hash)]
struct FilterSetting {
    kind: &'static str,
    rt: Script,
    when: Script,
}

const LEVELS: [&str; 4] = ["debug", "info", "warn", "error"];

fn filter_settings(when: bool) -> Vec<FilterSetting> {
    let mut v = Vec::new();
    if !when {
        for m in LEVELS {
            v.push(FilterSetting { kind: "rt-min-level", rt: Script::Min(m), when: Script::Const(false) });
        }
        for k in 0..3 {
            v.push(FilterSetting { kind: "rt-budget", rt: Script::Budget(k), when: Script::Const(false) });
        }
    } else {
        // `when:` enables what the runtime's own filter rejects (constant, min level, empty budget), and the reverse
        v.push(FilterSetting { kind: "when-over-rt", rt: Script::Const(false), when: Script::Const(true) });
        v.push(FilterSetting { kind: "when-over-rt", rt: Script::Min("error"), when: Script::Const(true) });
        v.push(FilterSetting { kind: "when-over-rt", rt: Script::Budget(0), when: Script::Const(true) });
        v.push(FilterSetting { kind: "when-over-rt", rt: Script::Const(true), when: Script::Const(false) });
        for m in LEVELS {
            v.push(FilterSetting { kind: "when-min-level", rt: Script::Const(false), when: Script::Min(m) });
        }
        for k in 0..3 {
            v.push(FilterSetting { kind: "when-budget", rt: Script::Const(false), when: Script::Budget(k) });
        }
    }
    v
}

/// What `script` answers to an event of level `lvl` (unleveled = the default level, info) when it
/// has answered `asked` times before - written from the documentation of `MinLevelFilter`.
fn script_answer(script: Script, lvl: Option<&str>, asked: u32) -> bool {
    match script {
        Script::Min(m) => rank(lvl.unwrap_or("info")) >= rank(m),
        Script::Const(b) => b,
        Script::Budget(k) => asked < k,
    }
}

fn check_once(r: &mut Report, f: &OForm, exit: Exit, fs: FilterSetting, sel: RtSel, inv: u32) {
    r.eval();
    RT_PROBE.with(|p| *p.borrow_mut() = Probe { script: fs.rt, calls: Vec::new() });
    WHEN_PROBE.with(|p| *p.borrow_mut() = Probe { script: fs.when, calls: Vec::new() });
    O_EVENTS.with(|e| e.borrow_mut().clear());
    CUSTOM.with(|c| c.borrow_mut().clear());
    RETURNED.with(|c| c.borrow_mut().clear());
    let outcome = (f.run)(sel, inv, exit);
    let events = O_EVENTS.with(|e| std::mem::take(&mut *e.borrow_mut()));
    let custom_calls = CUSTOM.with(|c| std::mem::take(&mut *c.borrow_mut()));
    let returned = RETURNED.with(|c| std::mem::take(&mut *c.borrow_mut()));
    let rt_calls = RT_PROBE.with(|p| std::mem::take(&mut p.borrow_mut().calls));
    let when_calls = WHEN_PROBE.with(|p| std::mem::take(&mut p.borrow_mut().calls));
    let show_calls = |c: &[ProbeCall]| c.iter().map(|c| json!({"answer": c.answer, "lvl_shown": c.lvl})).collect::<Vec<_>>();
    let case = || {
        json!({"part": "macro-filter-once", "form": f.name, "exit": format!("{:?}", exit), "runtime": sel.name(),
               "filter_kind": fs.kind, "runtime_filter": format!("{:?}", fs.rt), "when_filter": if f.when { format!("{:?}", fs.when) } else { "none".to_string() },
               "runtime_filter_calls": show_calls(&rt_calls), "when_filter_calls": show_calls(&when_calls),
               "invocation": inv, "events": events.iter().map(|e| e.to_json()).collect::<Vec<_>>()})
    };
    let sig_tail = format!("filter-{}:{}:{}:{:?}", fs.kind, sel.name(), f.name, exit);

    // enabled = the deciding filter's answer to the span at its START level (first answer)
    let deciding = if f.when { fs.when } else { fs.rt };
    let en = script_answer(deciding, f.default_lvl, 0);
    r.observe(&format!("filter-once:invocations:{}", if en { "enabled" } else { "disabled" }), 1);
    r.observe(&format!("filter-once:kind:{}", fs.kind), 1);
    r.observe(&format!("filter-once:runtime:{}", sel.name()), 1);
    r.observe("filter-once:span-events", events.len() as u64);
    r.observe("filter-once:deciding-filter-answers", if f.when { when_calls.len() } else { rt_calls.len() } as u64);
    if f.when {
        r.observe("filter-once:runtime-filter-asked-although-when-is-set", rt_calls.len() as u64);
    }
    r.nontrivial(&("macro-filter-once", f.name, format!("{:?}", exit), fs, sel));

    let panicked = outcome.is_err();
    if panicked != (exit == Exit::Panic) {
        r.violation(&format!("C05:macro:unexpected-panic:{}", sig_tail), &format!("invocation outcome {:?}", outcome), case());
        return;
    }
    let cancelled = match exit {
        Exit::Cancel(_) => !FINISHED.with(|c| c.get()),
        _ => false,
    };
    let started = !matches!(exit, Exit::Cancel(0));

    // expected lvl / err of the one span event
    let is_err_exit = matches!(exit, Exit::EarlyErr | Exit::Question | Exit::TailErr);
    let (want_lvl, want_err): (Option<&str>, Option<String>) = if exit == Exit::Panic {
        (Some(f.panic_lvl.unwrap_or("error")), Some("panicked".to_string()))
    } else if cancelled {
        (f.default_lvl, None)
    } else if f.result_aware && is_err_exit {
        let text = match exit {
            Exit::EarlyErr => "my error: early",
            Exit::Question => "my error: question",
            _ => "my error: tail",
        };
        (Some(f.err_lvl.or(f.default_lvl).unwrap_or("error")), Some(f.mapped_err.map(|m| m.to_string()).unwrap_or_else(|| text.to_string())))
    } else if f.result_aware {
        (f.ok_lvl.or(f.default_lvl), None)
    } else {
        (f.default_lvl, None)
    };

    // would the completed span's event be rejected if a filter were asked again? (the class this part exists for)
    let again_deciding = !script_answer(deciding, want_lvl, 1);
    let again_rt = !script_answer(fs.rt, want_lvl, if f.when { 0 } else { 1 });
    if en && started {
        if again_deciding || again_rt {
            r.observe("filter-once:enabled-at-start-and-a-second-ask-would-reject-the-completion", 1);
            r.observe(
                &format!(
                    "filter-once:second-ask-would-reject:{}:{}",
                    fs.kind,
                    if exit == Exit::Panic { "panic" } else if cancelled { "cancelled" } else if is_err_exit && f.result_aware { "err-completion" } else if f.result_aware { "ok-completion" } else { "default-completion" }
                ),
                1,
            );
        }
    } else if started && script_answer(deciding, want_lvl, 0) {
        r.observe("filter-once:rejected-at-start-although-the-completion-alone-would-pass", 1);
    }

    let to_custom = en && started && !cancelled && matches!(exit, Exit::GCompleteWith | Exit::GWithCompletion);
    let want_events = if en && started && !to_custom { 1 } else { 0 };
    let want_custom = if to_custom { 1 } else { 0 };
    if events.len() != want_events || custom_calls.len() != want_custom {
        r.violation(
            &format!(
                "C05:macro:{}-span-events-{}-custom-completions:{}:{}",
                events.len().min(2),
                custom_calls.len().min(2),
                if en { "enabled" } else { "disabled" },
                sig_tail
            ),
            &format!(
                "the deciding filter ({}) answered {} to the span at its start level {:?}: expected {} span event(s) and {} custom completion call(s), got {} and {} \
                 (the completed span's event has lvl {:?}; the runtime filter was asked {} time(s), the when: filter {} time(s))",
                if f.when { "when:" } else { "the runtime's" },
                en,
                f.default_lvl,
                want_events,
                want_custom,
                events.len(),
                custom_calls.len(),
                want_lvl,
                rt_calls.len(),
                when_calls.len()
            ),
            case(),
        );
    }
    for (_, ret) in &returned {
        r.observe("complete-return-values", 1);
        if *ret != en {
            r.violation(
                &format!("C05:macro:complete-returned-{}:{}:{}", ret, if en { "enabled" } else { "disabled" }, sig_tail),
                &format!("guard.complete*/() returned {} but the span {}", ret, if en { "completed" } else { "was disabled" }),
                case(),
            );
        }
    }
    if want_events != 1 {
        return;
    }
    let Some(e) = events.first() else { return };
    r.observe("filter-once:span-events-judged", 1);
    let got_lvl = e.get("lvl");
    let got_err = e.get("err").map(|s| s.to_string());
    if got_lvl != want_lvl {
        r.violation(&format!("C05:macro:wrong-lvl:{}", sig_tail), &format!("lvl {:?}, the exit path calls for {:?}", got_lvl, want_lvl), case());
    }
    if got_err != want_err {
        r.violation(&format!("C05:macro:wrong-err:{}", sig_tail), &format!("err {:?}, the exit path calls for {:?}", got_err, want_err), case());
    }
    let want_name = if exit == Exit::GRename { "renamed".to_string() } else { format!("{} {{inv}}", f.name) };
    let mut wrong = Vec::new();
    if e.get("evt_kind") != Some("span") {
        wrong.push(format!("evt_kind={:?}", e.get("evt_kind")));
    }
    if e.get("span_name") != Some(want_name.as_str()) {
        wrong.push(format!("span_name={:?} (expected {:?})", e.get("span_name"), want_name));
    }
    if e.get("inv") != Some(inv.to_string().as_str()) {
        wrong.push(format!("inv={:?} (expected {})", e.get("inv"), inv));
    }
    // (the clock is shared by all worker threads and steps on every reading: a range, start before end)
    if !matches!(e.extent, Some((Some(s), end)) if s < end) {
        wrong.push(format!("extent={:?} (expected a range: reading at start .. reading at completion)", e.extent));
    }
    if e.get("trace_id").map(|t| t.len()) != Some(32) || e.get("span_id").map(|t| t.len()) != Some(16) {
        wrong.push(format!("trace_id={:?} span_id={:?}", e.get("trace_id"), e.get("span_id")));
    }
    if !wrong.is_empty() {
        r.violation(&format!("C05:macro:span-event-content:{}", sig_tail), &wrong.join("; "), case());
    }
    if r.wants_sample() && (again_deciding || again_rt) && inv % 97 == 0 {
        r.sample(|| case());
    }
}

/// every (form, exit, filter setting, runtime) of part (c)
fn once_jobs(all: &[OForm]) -> Vec<(usize, Exit, FilterSetting, RtSel)> {
    let mut jobs = Vec::new();
    for (fi, f) in all.iter().enumerate() {
        for e in f.exits {
            for fs in filter_settings(f.when) {
                for sel in [RtSel::Generic, RtSel::Slot] {
                    jobs.push((fi, *e, fs, sel));
                }
            }
        }
    }
    jobs
}

fn main() {
    let args = Args::parse();
    let mut r = Report::new(
        "C05",
        &args,
        "one evaluation = one guard program (a seeded SpanGuard operation sequence under a filter and a clock script) or one invocation of a hand-written macro form with one exit path; \
         non-trivial = distinct (filter outcome, in/out of frame, operation-kind sequence, clock-movement sequence) tuples with at least one builder operation, plus distinct (form, exit path, enabled) triples",
    );

    init_once_runtimes();

    if let Some(path) = &args.replay {
        let case = load_replay(path);
        if case.get("part").and_then(|v| v.as_str()) == Some("macro-filter-once") {
            let text = |k: &str| case.get(k).and_then(|v| v.as_str()).unwrap_or("").to_string();
            let all = once_forms();
            for (fi, exit, fs, sel) in once_jobs(&all) {
                let f = &all[fi];
                if f.name == text("form")
                    && format!("{:?}", exit) == text("exit")
                    && sel.name() == text("runtime")
                    && fs.kind == text("filter_kind")
                    && format!("{:?}", fs.rt) == text("runtime_filter")
                    && (!f.when || format!("{:?}", fs.when) == text("when_filter"))
                {
                    check_once(&mut r, f, exit, fs, sel, 1);
                    check_once(&mut r, f, exit, fs, sel, 2);
                }
            }
        } else if case.get("part").and_then(|v| v.as_str()) == Some("macro") {
            let name = case.get("form").and_then(|v| v.as_str()).unwrap_or("");
            let exit = case.get("exit").and_then(|v| v.as_str()).unwrap_or("");
            let en = case.get("enabled").and_then(|v| v.as_bool()).unwrap_or(true);
            for f in forms() {
                if f.name == name {
                    for e in f.exits {
                        if format!("{:?}", e) == exit {
                            let want = case.get("clock").and_then(|v| v.as_str()).map(|s| s.to_string());
                            for m in CLOCK_MODES {
                                if want.is_none() || want.as_deref() == Some(&format!("{:?}", m)) {
                                    check_invocation(&mut r, &f, *e, en, m, 1);
                                    check_invocation(&mut r, &f, *e, en, m, 2);
                                }
                            }
                        }
                    }
                }
            }
        } else {
            let seed = case.get("seed").and_then(|v| v.as_u64()).unwrap_or(args.seed);
            let index = case.get("index").and_then(|v| v.as_u64()).unwrap_or(0);
            let mut g = Rng::stream(seed, &[5, 1, index]);
            let p = gen_program(&mut g);
            check_program(&mut r, &p, seed, index);
            check_program(&mut r, &p, seed, index);
        }
        std::process::exit(r.finish());
    }

    let seed = args.seed;

    // (a) guard programs
    // Miri interprets ~1000x slower: a fixed small number there, whatever the scale
    let n = if cfg!(miri) { args.get_u64("programs", 60) } else { args.n(1_000_000, 10_000_000) };
    par_cases(&mut r, &args, n, |i, r| {
        let mut g = Rng::stream(seed, &[5, 1, i]);
        let p = gen_program(&mut g);
        check_program(r, &p, seed, i);
    });

    // (b) macro forms: every form x exit path x enabled, a few rounds (ids / clocks differ per round)
    let all = forms();
    let mut jobs: Vec<(usize, Exit, bool, ClockMode)> = Vec::new();
    for (fi, f) in all.iter().enumerate() {
        for e in f.exits {
            for m in CLOCK_MODES {
                jobs.push((fi, *e, true, m));
            }
            jobs.push((fi, *e, false, ClockMode::Steady));
            jobs.push((fi, *e, false, ClockMode::StartMissing));
        }
    }
    let rounds = if cfg!(miri) { 1 } else { args.n(6, 60) };
    let total = jobs.len() as u64 * rounds;
    par_cases(&mut r, &args, total, |i, r| {
        // under Miri (a third of a second per invocation) every run takes a quarter of the sites,
        // rotating with the seed, so a few Miri seeds cover all of them
        if cfg!(miri) && (i + seed) % 4 != 0 {
            return;
        }
        let (fi, exit, en, mode) = jobs[(i % jobs.len() as u64) as usize];
        check_invocation(r, &all[fi], exit, en, mode, i as u32 + 1);
    });
    r.set("macro_forms", json!(all.iter().map(|f| f.name).collect::<Vec<_>>()));
    r.set("macro_sites_exit_paths", json!(jobs.len()));

    // (c) the filter is asked once: every Result-aware form x exit path x filter setting x runtime
    let oall = once_forms();
    let ojobs = once_jobs(&oall);
    let orounds = if cfg!(miri) { 1 } else { args.n(3, 30) };
    par_cases(&mut r, &args, ojobs.len() as u64 * orounds, |i, r| {
        // under Miri a sixteenth of the sites per run, rotating with the seed
        if cfg!(miri) && (i + seed) % 16 != 0 {
            return;
        }
        let (fi, exit, fs, sel) = ojobs[(i % ojobs.len() as u64) as usize];
        check_once(r, &oall[fi], exit, fs, sel, i as u32 + 1);
    });
    r.set("filter_once_forms", json!(oall.iter().map(|f| f.name).collect::<Vec<_>>()));
    r.set("filter_once_sites_exit_paths_filters_runtimes", json!(ojobs.len()));

    std::process::exit(r.finish());
}
