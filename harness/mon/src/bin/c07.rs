/*!
C07 — a successful flush means everything emitted before it has been processed (channel level).

Same scenario runner as C06 (`shared/chan.rs`) with a flush-focused mix: slow processor, many
concurrent flushers (`when_flushed` callbacks, `sync::blocking_flush`, tokio `flush` /
`blocking_flush`), retries, and flush requests aimed through the H-B hook at the racy windows
(receiver about to swap, between swap-out and `on_batch`, before a retry wait, before the flush
watchers are notified, before an idle wait).

Oracle, over the merged log: a flush requested at stamp `c` completed at stamp `d` (stamp taken
inside the callback: exact; stamp taken after a `true` return of a blocking / async flush: late,
which can only hide a violation). Then every item whose send RETURNED before `c` was removed by an
overflow truncation before `d`, or every `on_batch` attempt containing it returned before `d` and
none starts after `d`. Scenarios that drop the receiver early are excluded (the statement says
"while the receiver is alive").
*/

#[path = "../shared/chan.rs"]
mod chan;

use chan::*;
use vcommon::*;

fn main() {
    let args = Args::parse();
    let mut r = Report::new(
        "C07",
        &args,
        "one evaluation = one scenario history with at least one completed flush, judged flush by flush against every item sent before the request; \
         non-trivial = distinct interleaving signatures (hash of the first 64 (actor role, scheduling point) pairs in stamp order, from the first non-receiver point) \
         of histories in which at least two actors alternate inside that window",
    );
    let cfg = GenCfg::from_args(&args, Focus::Flush);
    let seed = args.seed;
    let run_case = |i: u64, r: &mut Report| {
        if lane_poisoned() {
            r.inconclusive("receiver threads did not exit after the sender was dropped (left behind); the remaining histories of this lane were skipped");
            return;
        }
        let plan = gen_plan(seed, 7, i, &cfg);
        let h = run_plan(&plan, cfg.delays);
        observe_history(&h, r);
        if let Some(s) = &h.stuck {
            r.inconclusive(format!("C07 {} history seed={} case={}: {}", h.plan.shape(), h.plan.seed, h.plan.case, s));
        }
        if h.early_drop() {
            r.observe("histories:excluded-receiver-dropped-early", 1);
            return;
        }
        let (flushes, items) = check_c07(&h, r);
        if flushes > 0 {
            r.eval();
        }
        r.observe("flushes-judged", flushes);
        r.observe("flush-item-pairs-judged", items);
        // which racy situations did completed flushes actually meet?
        let recv_points: Vec<(u64, emit_batcher::verif::Point)> = h.points.iter().filter(|p| p.1 == ROLE_RECV && window_of(p.2).is_some()).map(|p| (p.0, p.2)).collect();
        for f in h.flushes.iter().filter(|f| f.done.is_some()) {
            let d = f.done.unwrap();
            // the receiver's last scheduling point before the request
            let k = recv_points.partition_point(|p| p.0 < f.req);
            if k > 0 {
                let w = match window_of(recv_points[k - 1].1) {
                    Some(W_SWAP) => "receiver-about-to-swap",
                    Some(W_TAKEN) => "between-swap-out-and-on_batch-or-during-on_batch",
                    Some(W_RETRY) => "retry-wait",
                    Some(W_NOTIFY) => "last-attempt-done-watchers-not-yet-notified",
                    _ => "idle-wait",
                };
                r.observe(&format!("flushes:requested-after-receiver-point:{}", w), 1);
            }
            let in_flight_at_request = h.batches.iter().any(|b| b.call < f.req && b.ret > f.req);
            let retry_pending_at_request = h.batches.windows(2).any(|w| w[0].out == Out::Retry && w[0].rem.as_ref().map(|x| !x.is_empty()).unwrap_or(false) && w[0].ret < f.req && w[1].call > f.req);
            if in_flight_at_request {
                r.observe("flushes:requested-while-a-batch-was-in-flight", 1);
            }
            if retry_pending_at_request {
                r.observe("flushes:requested-during-a-retry-wait", 1);
            }
            if !f.exact {
                r.observe("flushes:blocking-or-async-true", 1);
            } else if d < f.req + 3 {
                r.observe("flushes:callback-ran-immediately", 1);
            }
        }
        if h.batches.iter().any(|b| b.out == Out::Retry) {
            r.observe("histories:exercised-retry", 1);
        }
        if h.batches.iter().any(|b| matches!(b.out, Out::Panic | Out::PanicFut)) {
            r.observe("histories:exercised-processor-panic", 1);
        }
        if !h.clears().is_empty() {
            r.observe("histories:exercised-truncation", 1);
        }
        if !cfg!(miri) && r.wants_sample() && flushes > 1 && h.batches.len() >= 3 && h.sends.len() >= 8 && h.sends.len() <= 80 {
            r.sample(|| sample_json(&h));
        }
    };

    if let Some(path) = &args.replay {
        let case = load_replay(path);
        let i = case.get("case").and_then(|v| v.as_u64()).unwrap_or(0);
        let reps = if cfg!(miri) { 1 } else { 300 };
        for _ in 0..reps {
            run_case(i, &mut r);
        }
        r.set("distinct_batch_partitions", json!(partitions_seen()));
        std::process::exit(r.finish());
    }

    let n = args.get_u64("histories", args.n(3_000, 200_000));
    par_cases(&mut r, &args, n, run_case);
    r.set("distinct_batch_partitions", json!(partitions_seen()));
    std::process::exit(r.finish());
}
